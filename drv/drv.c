/* drv — API interpreter for libeconf conformance checks.
 *
 * Reads a script on stdin (one command per line, blank-separated tokens), calls the
 * PUBLIC API of libeconf only, and writes one JSON line per command on stdout: the
 * call, its return code by name, its out-values and (on request) the projected state
 * of an object.  The output is the *trace* that bin/check compares with expectations
 * exported by TLC or hands to TLC for validation.
 *
 * Token syntax:   -            NULL
 *                 x<hex>       byte string (x alone = empty string)
 *                 <decimal>    numbers / handle indices
 *
 * The driver is built together with /repo/lib/ *.c (sanitized); nothing here looks
 * inside struct econf_file.
 */
#ifndef _GNU_SOURCE
#define _GNU_SOURCE
#endif
#include <ctype.h>
#include <dirent.h>
#include <errno.h>
#include <fcntl.h>
#include <inttypes.h>
#include <signal.h>
#include <stdbool.h>
#include <stdint.h>
#include <stdio.h>
#include <stdlib.h>
#include <string.h>
#include <sys/stat.h>
#include <sys/types.h>
#include <unistd.h>
#include <pthread.h>

#include "libeconf.h"
#include "libeconf_ext.h"

#pragma GCC diagnostic ignored "-Wdeprecated-declarations"

#ifndef __has_feature
#define __has_feature(x) 0
#endif
#if defined(__SANITIZE_ADDRESS__) || __has_feature(address_sanitizer)
size_t __sanitizer_get_current_allocated_bytes(void);
#define HAVE_HEAP 1
#else
#define HAVE_HEAP 0
#endif

#define NH 256
#define MAXTOK 4096

static const char *ERRN[] = {
  "ECONF_SUCCESS", "ECONF_ERROR", "ECONF_NOMEM", "ECONF_NOFILE", "ECONF_NOGROUP", "ECONF_NOKEY",
  "ECONF_EMPTYKEY", "ECONF_WRITEERROR", "ECONF_PARSE_ERROR", "ECONF_MISSING_BRACKET",
  "ECONF_MISSING_DELIMITER", "ECONF_EMPTY_SECTION_NAME", "ECONF_TEXT_AFTER_SECTION",
  "ECONF_FILE_LIST_IS_NULL", "ECONF_WRONG_BOOLEAN_VALUE", "ECONF_KEY_HAS_NULL_VALUE",
  "ECONF_WRONG_OWNER", "ECONF_WRONG_GROUP", "ECONF_WRONG_FILE_PERMISSION",
  "ECONF_WRONG_DIR_PERMISSION", "ECONF_ERROR_FILE_IS_SYM_LINK", "ECONF_PARSING_CALLBACK_FAILED",
  "ECONF_ARGUMENT_IS_NULL_VALUE", "ECONF_OPTION_NOT_FOUND", "ECONF_VALUE_CONVERSION_ERROR" };
#define NERR ((int)(sizeof ERRN / sizeof ERRN[0]))

/* link-time wrapper (-Wl,--wrap=close): closes of descriptors that are not open */
static _Atomic int stale_closes;
int __real_close(int fd);
int __wrap_close(int fd) { int r = __real_close(fd); if (r != 0 && errno == EBADF) stale_closes++; return r; }

struct ctx {                 /* one interpreter (one per thread in thread mode) */
  FILE *out;
  econf_file *H[NH];
  /* callback state */
  int cb_calls;
  uint64_t cb_reject_mask;   /* reject the k-th call (bit k-1) */
  char *cb_reject_path;      /* reject this exact path */
  char *cb_del_trigger[8]; char *cb_del_victim[8]; int cb_ndel;   /* vanish: unlink victim when the callback sees trigger */
  char *cb_late_path[32];    /* late-bound content: written when the callback sees the path */
  char *cb_late_data[32];
  size_t cb_late_len[32];
  int cb_nlate;
  char **cb_log; int *cb_verdict; int *cb_dataok; int cb_nlog, cb_caplog;
  int cookie;
  int tid;                   /* thread id in thread mode */
  char dbuf[512], cbuf[512]; /* the caller's own buffers for the delimiter and comment sets: REUSED for every reading call, as an
                                application that keeps them in a struct or on its stack does (same address, other content) */
  int cb_yield;              /* scheduled thread mode: the callback hands the turn over and waits for its next slot */
  char *cb_read_path;        /* the callback itself reads this file with the library (an allow-list, say) before it answers */
  int cb_openfd, cb_fds[64], cb_nfds;   /* the callback opens a descriptor of its own at every call (an application that logs, say) and keeps it:
                                           nothing the library does later may close it (fdcheck) */
  char *cb_rd[4];            /* ... or performs a nested LAYERED read (usr dir, etc dir, name, suffix) with its own main file and drop-ins */
};

static struct ctx main_ctx;
/* deterministic schedule (C18 forward replay): sched[pos] = id of the thread that runs next; a slot is one command, or
   the part of a reading command up to / after a yielding callback */
static int *sched = NULL; static int sched_len = 0; static volatile int sched_pos = 0;
static pthread_mutex_t sched_mu = PTHREAD_MUTEX_INITIALIZER; static pthread_cond_t sched_cv = PTHREAD_COND_INITIALIZER;
static char *watch_case = NULL;

/* ---------- JSON output ---------- */
static void js(FILE *o, const char *s) {
  if (!s) { fputs("null", o); return; }
  fputc('"', o);
  for (; *s; s++) {
    unsigned char c = (unsigned char)*s;
    if (c == '"' || c == '\\') { fputc('\\', o); fputc(c, o); }
    else if (c < 32 || c > 126) fprintf(o, "\\u%04x", c);
    else fputc(c, o);
  }
  fputc('"', o);
}
static const char *ename(int e) {
  static __thread char buf[32];
  if (e >= 0 && e < NERR) return ERRN[e];
  snprintf(buf, sizeof buf, "ECONF_?%d", e); return buf;
}
static __thread int last_rc = 0, skip_n = 0;
static void jrc(FILE *o, int e) { last_rc = e; fprintf(o, ",\"rc\":\"%s\"", ename(e)); }

/* ---------- token decoding ---------- */
static const char *drv_root = "";   /* $DRV_ROOT: private scratch root of this driver process */
static int hexval(int c) { return c <= '9' ? c - '0' : (c | 32) - 'a' + 10; }
static char *tokstr(const char *t, size_t *len) { /* returns malloc'ed string or NULL for '-' */
  if (len) *len = 0;
  if (!t || strcmp(t, "-") == 0) return NULL;
  if (t[0] != 'x') { if (len) *len = strlen(t); return strdup(t); }
  size_t n = strlen(t + 1) / 2;
  char *r = malloc(n + 1);
  for (size_t i = 0; i < n; i++) r[i] = (char)(hexval(t[1 + 2 * i]) * 16 + hexval(t[2 + 2 * i]));
  r[n] = 0;
  /* every occurrence of @ROOT@ stands for the scratch root */
  if (n >= 6 && memmem(r, n, "@ROOT@", 6)) {
    size_t rl = strlen(drv_root), cap = n + 1, o = 0; char *q;
    for (char *p = r; (p = memmem(p, n - (size_t)(p - r), "@ROOT@", 6)); p += 6) cap += rl;
    q = malloc(cap);
    for (size_t i = 0; i < n;) { if (i + 6 <= n && !memcmp(r + i, "@ROOT@", 6)) { memcpy(q + o, drv_root, rl); o += rl; i += 6; } else q[o++] = r[i++]; }
    q[o] = 0; free(r); r = q; n = o;
  }
  if (len) *len = n;
  return r;
}
static char tokchr(const char *t) { char *s = tokstr(t, NULL); char c = s && *s ? *s : 0; free(s); return c; }

/* ---------- file-system helpers (scratch tree only) ---------- */
static void mkdirs(const char *p) {
  char *d = strdup(p);
  for (char *q = d + 1; *q; q++) if (*q == '/') { *q = 0; mkdir(d, 0755); *q = '/'; }
  mkdir(d, 0755); free(d);
}
static void mkparent(const char *p) {
  char *d = strdup(p); char *q = strrchr(d, '/'); if (q && q != d) { *q = 0; mkdirs(d); } free(d);
}
static int wfile(const char *p, const char *data, size_t len) {
  mkparent(p);
  int fd = open(p, O_WRONLY | O_CREAT | O_TRUNC, 0644);
  if (fd < 0) return -1;
  size_t off = 0; while (off < len) { ssize_t w = write(fd, data + off, len - off); if (w <= 0) break; off += (size_t)w; }
  close(fd); return 0;
}
static void rmtree(const char *p) {
  struct stat sb;
  if (lstat(p, &sb) < 0) return;
  if (S_ISDIR(sb.st_mode)) {
    DIR *d = opendir(p); struct dirent *e;
    if (d) {
      while ((e = readdir(d))) {
        if (!strcmp(e->d_name, ".") || !strcmp(e->d_name, "..")) continue;
        char *c; if (asprintf(&c, "%s/%s", p, e->d_name) < 0) continue;
        rmtree(c); free(c);
      }
      closedir(d);
    }
    rmdir(p);
  } else unlink(p);
}

/* ---------- callback ---------- */
static int samepath(const char *a, const char *b) {   /* equal up to repeated slashes */
  while (*a && *b) {
    if (*a != *b) return 0;
    if (*a == '/') { while (*a == '/') a++; while (*b == '/') b++; } else { a++; b++; }
  }
  return *a == *b;
}
static bool the_callback(const char *filename, const void *data) {
  struct ctx *c = (struct ctx *)data;   /* we pass the ctx itself; data_ok = cookie intact */
  /* data pointer identity is checked against the thread's ctx by the caller through the cookie */
  int ok = c && c->cookie == 0x5eed;
  if (!ok) c = &main_ctx;
  c->cb_calls++;
  if (c->cb_yield && sched) {     /* the library is in the middle of a read: let the scheduled other threads run their slots now */
    pthread_mutex_lock(&sched_mu);
    sched_pos++; pthread_cond_broadcast(&sched_cv);
    while (sched_pos < sched_len && sched[sched_pos] != c->tid) pthread_cond_wait(&sched_cv, &sched_mu);
    pthread_mutex_unlock(&sched_mu);
  }
  if (c->cb_read_path) {          /* a nested, successful read of another file: nothing of the outer call may depend on it */
    econf_file *inner = NULL; econf_err ie = econf_readFile(&inner, c->cb_read_path, "=", "#"); (void)ie; econf_freeFile(inner);
  }
  if (c->cb_rd[2]) {
    econf_file *inner = NULL; econf_err ie = econf_readDirs(&inner, c->cb_rd[0], c->cb_rd[1], c->cb_rd[2], c->cb_rd[3], "=", "#"); (void)ie; econf_freeFile(inner);
  }
  if (c->cb_openfd && c->cb_nfds < 64) { int fd = open("/dev/null", O_RDONLY | O_CLOEXEC); if (fd >= 0) c->cb_fds[c->cb_nfds++] = fd; }
  bool verdict = true;
  if (c->cb_calls <= 64 && (c->cb_reject_mask >> (c->cb_calls - 1) & 1)) verdict = false;
  if (c->cb_reject_path && samepath(c->cb_reject_path, filename)) verdict = false;
  char absname[8192];
  if (filename[0] != '/') { char cwd[4096]; if (!getcwd(cwd, sizeof cwd)) cwd[0] = 0; snprintf(absname, sizeof absname, "%s/%s", cwd, filename); }
  else snprintf(absname, sizeof absname, "%s", filename);
  for (int i = 0; i < c->cb_ndel; i++)
    if (samepath(c->cb_del_trigger[i], absname)) unlink(c->cb_del_victim[i]);
  for (int i = 0; i < c->cb_nlate; i++)
    if (samepath(c->cb_late_path[i], absname))
      wfile(filename, c->cb_late_data[i], c->cb_late_len[i]);
  if (c->cb_nlog == c->cb_caplog) {
    c->cb_caplog = c->cb_caplog ? 2 * c->cb_caplog : 16;
    c->cb_log = realloc(c->cb_log, sizeof(char *) * (size_t)c->cb_caplog);
    c->cb_verdict = realloc(c->cb_verdict, sizeof(int) * (size_t)c->cb_caplog);
    c->cb_dataok = realloc(c->cb_dataok, sizeof(int) * (size_t)c->cb_caplog);
  }
  c->cb_log[c->cb_nlog] = strdup(filename);
  c->cb_verdict[c->cb_nlog] = verdict;
  c->cb_dataok[c->cb_nlog] = ok;
  c->cb_nlog++;
  /* the caller's code leaves errno as its own calls left it: "no such file" after a refusal (the usual access() test that failed),
     varying values after an acceptance - nothing of it is the library's business */
  { static const int left[3] = { ENOENT, 0, EACCES }; errno = verdict ? left[c->cb_calls % 3] : ENOENT; }
  return verdict;
}
static void cb_clearlog(struct ctx *c) {
  for (int i = 0; i < c->cb_nlog; i++) free(c->cb_log[i]);
  free(c->cb_log); free(c->cb_verdict); free(c->cb_dataok);
  c->cb_log = NULL; c->cb_verdict = NULL; c->cb_dataok = NULL; c->cb_nlog = c->cb_caplog = 0; c->cb_calls = 0;
}
static void cb_reset(struct ctx *c) {
  cb_clearlog(c);
  c->cb_reject_mask = 0; free(c->cb_reject_path); c->cb_reject_path = NULL;
  free(c->cb_read_path); c->cb_read_path = NULL;
  for (int i = 0; i < 4; i++) { free(c->cb_rd[i]); c->cb_rd[i] = NULL; }
  for (int i = 0; i < c->cb_nlate; i++) { free(c->cb_late_path[i]); free(c->cb_late_data[i]); }
  c->cb_nlate = 0;
  for (int i = 0; i < c->cb_ndel; i++) { free(c->cb_del_trigger[i]); free(c->cb_del_victim[i]); }
  c->cb_ndel = 0;
}
static void jcblog(struct ctx *c) {
  FILE *o = c->out;
  fputs(",\"cb\":[", o);
  for (int i = 0; i < c->cb_nlog; i++) {
    if (i) fputc(',', o);
    fputs("{\"p\":", o); js(o, c->cb_log[i]);
    fprintf(o, ",\"v\":%s,\"d\":%s}", c->cb_verdict[i] ? "true" : "false", c->cb_dataok[i] ? "true" : "false");
  }
  fputs("]", o);
  cb_clearlog(c);
}

/* ---------- projection of an object through the public API ---------- */
static void jarr(FILE *o, char **a) {
  fputc('[', o);
  if (a) for (char **p = a; *p; p++) { if (p != a) fputc(',', o); js(o, *p); }
  fputc(']', o);
}
static void jdoublebits(FILE *o, double d);
static void dump_group(FILE *o, econf_file *kf, const char *g, int ext) {
  size_t n = 0; char **keys = NULL;
  econf_err e = econf_getKeys(kf, g, &n, &keys);
  fputs("{\"g\":", o); js(o, g); fprintf(o, ",\"rc\":\"%s\",\"keys\":[", ename(e));
  if (e == ECONF_SUCCESS) {
    for (size_t i = 0; i < n; i++) {
      char *v = NULL;
      if (i) fputc(',', o);
      fputs("{\"k\":", o); js(o, keys[i]);
      econf_err e2 = econf_getStringValue(kf, g, keys[i], &v);
      fprintf(o, ",\"vrc\":\"%s\",\"v\":", ename(e2)); js(o, e2 ? NULL : v);
      if (!e2) free(v);
      if (ext) {
        econf_ext_value *x = NULL;
        econf_err e3 = econf_getExtValue(kf, g, keys[i], &x);
        fprintf(o, ",\"xrc\":\"%s\"", ename(e3));
        if (!e3 && x) {
          fprintf(o, ",\"line\":%" PRIu64 ",\"file\":", x->line_number); js(o, x->file);
          fputs(",\"cb\":", o); js(o, x->comment_before_key);
          fputs(",\"ca\":", o); js(o, x->comment_after_value);
          fputs(",\"vals\":", o); jarr(o, x->values);
          econf_freeExtValue(x);
        }
      }
      if (ext == 2) {      /* what the typed getters answer for this key: part of "what a later query returns" (C10) */
        uint32_t u = 0; uint64_t U = 0; int32_t i32 = 0; int64_t i64 = 0; double dd = 0; float ff = 0; bool bb = false;
        econf_err t1 = econf_getUIntValue(kf, g, keys[i], &u), t2 = econf_getUInt64Value(kf, g, keys[i], &U);
        econf_err t3 = econf_getIntValue(kf, g, keys[i], &i32), t4 = econf_getInt64Value(kf, g, keys[i], &i64);
        econf_err t5 = econf_getDoubleValue(kf, g, keys[i], &dd), t6 = econf_getFloatValue(kf, g, keys[i], &ff), t7 = econf_getBoolValue(kf, g, keys[i], &bb);
        fprintf(o, ",\"ty\":[\"%s\",%" PRIu32 ",\"%s\",%" PRIu64 ",\"%s\",%" PRId32 ",\"%s\",%" PRId64 ",\"%s\",", ename(t1), t1 ? 0 : u, ename(t2), t2 ? 0 : U, ename(t3), t3 ? 0 : i32, ename(t4), t4 ? 0 : i64, ename(t5));
        if (t5) fputs("0", o); else jdoublebits(o, dd);
        fprintf(o, ",\"%s\",", ename(t6)); if (t6) fputs("0", o); else { double f2 = ff; jdoublebits(o, f2); }
        fprintf(o, ",\"%s\",%d]", ename(t7), t7 ? 0 : (int)bb);
      }
      fputc('}', o);
    }
    econf_freeArray(keys);
  }
  fputs("]}", o);
}
static void dump_obj(FILE *o, econf_file *kf, int ext) {
  size_t ng = 0; char **groups = NULL;
  econf_err e = econf_getGroups(kf, &ng, &groups);
  fprintf(o, "{\"grc\":\"%s\",\"groups\":", ename(e));
  if (e != ECONF_SUCCESS) { groups = NULL; ng = 0; }
  jarr(o, groups);
  fputs(",\"secs\":[", o);
  dump_group(o, kf, NULL, ext);
  for (size_t i = 0; i < ng; i++) { fputc(',', o); dump_group(o, kf, groups[i], ext); }
  fputs("]", o);
  char *p = econf_getPath(kf);
  fputs(",\"path\":", o); js(o, p); free(p);
  fprintf(o, ",\"dtag\":%d,\"ctag\":%d}", (unsigned char)econf_delimiter_tag(kf), (unsigned char)econf_comment_tag(kf));
  if (e == ECONF_SUCCESS) econf_freeArray(groups);
}

/* ---------- command execution ---------- */
#define ARG(i) ((i) < nt ? t[i] : NULL)
#define HND(i) (atoi(ARG(i)) & (NH - 1))

static int run_cmd(struct ctx *c, char **t, int nt);

/* delimiter / comment set arguments of the reading calls: copied into the interpreter's two long-lived buffers */
static const char *setarg(char *buf, size_t n, const char *s) { if (!s) return NULL; snprintf(buf, n, "%s", s); return buf; }
#define DARG(s) setarg(c->dbuf, sizeof c->dbuf, (s))
#define CARG(s) setarg(c->cbuf, sizeof c->cbuf, (s))

/* reader side of `writeslow`: opens the pipe 0.3 s after the write began (the writer's open waits for it) and takes what comes
   until the write call has returned - also when that call never opened the pipe at all (no object: refused at once) */
struct drain { const char *path; _Atomic int done; };
static void *fifo_drain(void *p) { struct drain *dr = p; usleep(300000); int fd = open(dr->path, O_RDONLY | O_NONBLOCK);
  if (fd >= 0) { char b[4096]; for (;;) { ssize_t n = read(fd, b, sizeof b); if (n > 0) continue; if (dr->done) { while (read(fd, b, sizeof b) > 0) {} break; } usleep(2000); } close(fd); }
  return NULL; }
struct thr_arg { struct ctx c; char *script; int id; };
static void *thr_main(void *p) {
  struct thr_arg *a = p;
  char *save = NULL;
  for (char *line = strtok_r(a->script, "\n", &save); line; line = strtok_r(NULL, "\n", &save)) {
    char *t[MAXTOK]; int nt = 0; char *s2 = NULL;
    for (char *tk = strtok_r(line, " \t", &s2); tk && nt < MAXTOK; tk = strtok_r(NULL, " \t", &s2)) t[nt++] = tk;
    if (!nt) continue;
    if (sched) {
      pthread_mutex_lock(&sched_mu);
      while (sched_pos < sched_len && sched[sched_pos] != a->id) pthread_cond_wait(&sched_cv, &sched_mu);
      pthread_mutex_unlock(&sched_mu);
    }
    run_cmd(&a->c, t, nt);
    if (sched) { pthread_mutex_lock(&sched_mu); sched_pos++; pthread_cond_broadcast(&sched_cv); pthread_mutex_unlock(&sched_mu); }
  }
  return NULL;
}

static void jfloatbits(FILE *o, float f) { uint32_t b; memcpy(&b, &f, 4); fprintf(o, "\"%08" PRIx32 "\"", b); }
static void jdoublebits(FILE *o, double d) { uint64_t b; memcpy(&b, &d, 8); fprintf(o, "\"%016" PRIx64 "\"", b); }

static int run_cmd(struct ctx *c, char **t, int nt) {
  FILE *o = c->out;
  const char *op = t[0];
  econf_err e;

  if (skip_n > 0 && strcmp(op, "case") && strcmp(op, "end")) { skip_n--; return 0; }
  if (!strcmp(op, "onerr_free")) { if (last_rc) { int h = HND(1); econf_freeFile(c->H[h]); c->H[h] = NULL; } return 0; }   /* release a caller-made object after a failed call (silent) */
  if (!strcmp(op, "onerr_skip")) { skip_n = last_rc ? atoi(ARG(1)) : 0; return 0; }   /* skip the next N commands if the last call failed */
  if (!strcmp(op, "case")) { skip_n = 0; fprintf(o, "{\"op\":\"case\",\"id\":\"%s\"}\n", ARG(1) ? ARG(1) : ""); free(watch_case); watch_case = strdup(ARG(1) ? ARG(1) : ""); alarm(20); return 0; }
  /* watchdog <seconds> : a case that is known to be big (thousands of entries through every getter) asks for more time */
  if (!strcmp(op, "watchdog")) { alarm((unsigned)atoi(ARG(1))); return 0; }
  if (!strcmp(op, "echo")) { fprintf(o, "{\"op\":\"echo\",\"id\":\"%s\"}\n", ARG(1) ? ARG(1) : ""); return 0; }
  if (!strcmp(op, "end")) { fprintf(o, "{\"op\":\"end\"}\n"); fflush(o); return 1; }

  /* ----- file system ----- */
  if (!strcmp(op, "mkdir")) { char *p = tokstr(ARG(1), NULL); mkdirs(p); free(p); return 0; }
  if (!strcmp(op, "file")) { size_t n; char *p = tokstr(ARG(1), NULL); char *d = tokstr(ARG(2), &n);
    unlink(p); int r = wfile(p, d ? d : "", n); if (r) fprintf(o, "{\"op\":\"file\",\"oserr\":%d}\n", errno); free(p); free(d); return 0; }
  if (!strcmp(op, "filerep")) { /* file <path> <prefix> <fillchar> <count> <suffix> : long content without long scripts */
    size_t np, ns; char *p = tokstr(ARG(1), NULL); char *pre = tokstr(ARG(2), &np); char fc = tokchr(ARG(3));
    size_t cnt = (size_t)strtoull(ARG(4), NULL, 10); char *suf = tokstr(ARG(5), &ns);
    char *buf = malloc(np + cnt + ns + 1); memcpy(buf, pre ? pre : "", np); memset(buf + np, fc, cnt); memcpy(buf + np + cnt, suf ? suf : "", ns);
    unlink(p); wfile(p, buf, np + cnt + ns); free(buf); free(p); free(pre); free(suf); return 0; }
  if (!strcmp(op, "symlink")) { char *tg = tokstr(ARG(1), NULL), *p = tokstr(ARG(2), NULL); mkparent(p); unlink(p);
    if (symlink(tg, p)) fprintf(o, "{\"op\":\"symlink\",\"oserr\":%d}\n", errno); free(tg); free(p); return 0; }
  if (!strcmp(op, "chown")) { char *p = tokstr(ARG(1), NULL);
    if (lchown(p, (uid_t)atol(ARG(2)), (gid_t)atol(ARG(3)))) fprintf(o, "{\"op\":\"chown\",\"oserr\":%d}\n", errno); free(p); return 0; }
  if (!strcmp(op, "chmod")) { char *p = tokstr(ARG(1), NULL); chmod(p, (mode_t)strtol(ARG(2), NULL, 8)); free(p); return 0; }
  if (!strcmp(op, "rm")) { char *p = tokstr(ARG(1), NULL); rmtree(p); free(p); return 0; }
  if (!strcmp(op, "chdir")) { char *p = tokstr(ARG(1), NULL); if (chdir(p)) fprintf(o, "{\"op\":\"chdir\",\"oserr\":%d}\n", errno); free(p); return 0; }
  if (!strcmp(op, "cat")) { /* cat <path> : bytes of a file (C07/C10: what a write produced) */
    char *p = tokstr(ARG(1), NULL); FILE *f = fopen(p, "rb");
    fputs("{\"op\":\"cat\",\"data\":", o);
    if (!f) fputs("null", o); else { fputc('"', o); int ch; while ((ch = fgetc(f)) != EOF) {
        if (ch == '"' || ch == '\\') { fputc('\\', o); fputc(ch, o); } else if (ch < 32 || ch > 126) fprintf(o, "\\u%04x", ch); else fputc(ch, o); }
      fputc('"', o); fclose(f); }
    fputs("}\n", o); free(p); return 0; }
  if (!strcmp(op, "statlen")) { char *p = tokstr(ARG(1), NULL); struct stat sb; long n = stat(p, &sb) ? -1 : (long)sb.st_size;
    fprintf(o, "{\"op\":\"statlen\",\"len\":%ld}\n", n); free(p); return 0; }

  /* ----- callback configuration ----- */
  if (!strcmp(op, "cbreaddirs")) { for (int i = 0; i < 4; i++) { free(c->cb_rd[i]); c->cb_rd[i] = tokstr(ARG(1 + i), NULL); } return 0; }
  if (!strcmp(op, "cbread")) { free(c->cb_read_path); c->cb_read_path = tokstr(ARG(1), NULL); return 0; }
  if (!strcmp(op, "cbreset")) { cb_reset(c); return 0; }
  if (!strcmp(op, "cbopenfd")) { c->cb_openfd = atoi(ARG(1)); return 0; }
  if (!strcmp(op, "fdcount")) {   /* number of open descriptors of the process (a call that fails must not leave one behind) */
    int n = 0; DIR *d = opendir("/proc/self/fd"); if (d) { struct dirent *de; while ((de = readdir(d))) if (de->d_name[0] != '.') n++; closedir(d); n--; }
    fprintf(o, "{\"op\":\"fdcount\",\"n\":%d}\n", n); return 0; }
  if (!strcmp(op, "fdcheck")) {   /* every descriptor the callback opened is still open and still the same file; they are closed here */
    int bad = 0; struct stat sn, sb; int have = stat("/dev/null", &sn) == 0;
    for (int i = 0; i < c->cb_nfds; i++) {
      if (fstat(c->cb_fds[i], &sb) != 0 || !have || !S_ISCHR(sb.st_mode) || sb.st_rdev != sn.st_rdev) bad++;
      else close(c->cb_fds[i]); }
    bad += stale_closes; stale_closes = 0;       /* ... and nothing closed a descriptor that was not open */
    fprintf(o, "{\"op\":\"fdcheck\",\"n\":%d,\"bad\":%d}\n", c->cb_nfds, bad); c->cb_nfds = 0; return 0; }
  if (!strcmp(op, "cbrejectk")) { c->cb_reject_mask = strtoull(ARG(1), NULL, 10); return 0; }
  if (!strcmp(op, "cbrejectpath")) { free(c->cb_reject_path); c->cb_reject_path = tokstr(ARG(1), NULL); return 0; }
  if (!strcmp(op, "cbdel")) { if (c->cb_ndel < 8) { int i = c->cb_ndel++; c->cb_del_trigger[i] = tokstr(ARG(1), NULL); c->cb_del_victim[i] = tokstr(ARG(2), NULL); } return 0; }
  if (!strcmp(op, "cblate")) { if (c->cb_nlate < 32) { int i = c->cb_nlate++; c->cb_late_path[i] = tokstr(ARG(1), NULL);
      c->cb_late_data[i] = tokstr(ARG(2), &c->cb_late_len[i]); if (!c->cb_late_data[i]) c->cb_late_data[i] = strdup(""); } return 0; }

  /* ----- constructors ----- */
  if (!strcmp(op, "newkf")) { int h = HND(1); e = econf_newKeyFile(&c->H[h], tokchr(ARG(2)), tokchr(ARG(3)));
    fprintf(o, "{\"op\":\"newkf\",\"h\":%d", h); jrc(o, e); fprintf(o, ",\"obj\":%s}\n", c->H[h] ? "true" : "false"); return 0; }
  if (!strcmp(op, "newini")) { int h = HND(1); e = econf_newIniFile(&c->H[h]);
    fprintf(o, "{\"op\":\"newini\",\"h\":%d", h); jrc(o, e); fprintf(o, ",\"obj\":%s}\n", c->H[h] ? "true" : "false"); return 0; }
  if (!strcmp(op, "newopt")) { int h = HND(1); char *s = tokstr(ARG(2), NULL); e = econf_newKeyFile_with_options(&c->H[h], s);
    fprintf(o, "{\"op\":\"newopt\",\"h\":%d", h); jrc(o, e); fprintf(o, ",\"obj\":%s}\n", c->H[h] ? "true" : "false"); free(s); return 0; }

  /* ----- reads ----- */
  if (!strcmp(op, "readfile") || !strcmp(op, "readfilecb") || !strcmp(op, "readfilecby")) {
    int h = HND(1), cb = op[8] == 'c'; char *p = tokstr(ARG(2), NULL), *d = tokstr(ARG(3), NULL), *cm = tokstr(ARG(4), NULL);
    c->cb_yield = op[strlen(op) - 1] == 'y';
    if (cb) e = econf_readFileWithCallback(&c->H[h], p, DARG(d), CARG(cm), the_callback, c); else e = econf_readFile(&c->H[h], p, DARG(d), CARG(cm));
    c->cb_yield = 0;
    fprintf(o, "{\"op\":\"%s\",\"h\":%d", op, h); jrc(o, e); fprintf(o, ",\"obj\":%s", c->H[h] ? "true" : "false");
    if (cb) jcblog(c);
    fputs("}\n", o); free(p); free(d); free(cm); return 0; }
  if (!strcmp(op, "readdirs") || !strcmp(op, "readdirscb") || !strcmp(op, "readdirscby")) {
    int h = HND(1), cb = op[8] == 'c'; char *a[6]; for (int i = 0; i < 6; i++) a[i] = tokstr(ARG(2 + i), NULL);
    c->cb_yield = op[strlen(op) - 1] == 'y';
    if (cb) e = econf_readDirsWithCallback(&c->H[h], a[0], a[1], a[2], a[3], DARG(a[4]), CARG(a[5]), the_callback, c);
    else e = econf_readDirs(&c->H[h], a[0], a[1], a[2], a[3], DARG(a[4]), CARG(a[5]));
    c->cb_yield = 0;
    fprintf(o, "{\"op\":\"%s\",\"h\":%d", op, h); jrc(o, e); fprintf(o, ",\"obj\":%s", c->H[h] ? "true" : "false");
    if (cb) jcblog(c);
    fputs("}\n", o); for (int i = 0; i < 6; i++) free(a[i]); return 0; }
  if (!strcmp(op, "readconfig") || !strcmp(op, "readconfigcb")) {
    /* readconfig h project usr_subdir name suffix delim comment   (H[h] is used as given: NULL or option object) */
    int h = HND(1), cb = op[10] == 'c'; char *a[6]; for (int i = 0; i < 6; i++) a[i] = tokstr(ARG(2 + i), NULL);
    econf_file *before = c->H[h];
    if (cb) e = econf_readConfigWithCallback(&c->H[h], a[0], a[1], a[2], a[3], DARG(a[4]), CARG(a[5]), the_callback, c);
    else e = econf_readConfig(&c->H[h], a[0], a[1], a[2], a[3], DARG(a[4]), CARG(a[5]));
    fprintf(o, "{\"op\":\"%s\",\"h\":%d", op, h); jrc(o, e);
    fprintf(o, ",\"obj\":%s,\"same\":%s", c->H[h] ? "true" : "false", (c->H[h] == before) ? "true" : "false");
    if (cb) jcblog(c);
    fputs("}\n", o); for (int i = 0; i < 6; i++) free(a[i]); return 0; }
  if (!strcmp(op, "readhist") || !strcmp(op, "readhistcb")) {
    /* readhist h0 dist etc name suffix delim comment : members land in H[h0..h0+n-1] */
    int h = HND(1), cb = op[8] == 'c'; char *a[6]; for (int i = 0; i < 6; i++) a[i] = tokstr(ARG(2 + i), NULL);
    econf_file **kfs = NULL; size_t n = 0;
    if (cb) e = econf_readDirsHistoryWithCallback(&kfs, &n, a[0], a[1], a[2], a[3], DARG(a[4]), CARG(a[5]), the_callback, c);
    else e = econf_readDirsHistory(&kfs, &n, a[0], a[1], a[2], a[3], DARG(a[4]), CARG(a[5]));
    fprintf(o, "{\"op\":\"%s\",\"h\":%d", op, h); jrc(o, e);
    fprintf(o, ",\"arr\":%s,\"n\":%zu", kfs ? "true" : "false", e == ECONF_SUCCESS ? n : 0);
    if (e == ECONF_SUCCESS && kfs) { for (size_t i = 0; i < n && h + (int)i < NH; i++) c->H[h + i] = kfs[i]; free(kfs); }
    if (cb) jcblog(c);
    fputs("}\n", o); for (int i = 0; i < 6; i++) free(a[i]); return 0; }

  /* ----- merge / write / free ----- */
  if (!strcmp(op, "merge")) { int h = HND(1); e = econf_mergeFiles(&c->H[h], c->H[HND(2)], c->H[HND(3)]);
    fprintf(o, "{\"op\":\"merge\",\"h\":%d", h); jrc(o, e); fprintf(o, ",\"obj\":%s}\n", c->H[h] ? "true" : "false"); return 0; }
  if (!strcmp(op, "write")) { int h = HND(1); char *d = tokstr(ARG(2), NULL), *n = tokstr(ARG(3), NULL);
    e = econf_writeFile(c->H[h], d, n); fprintf(o, "{\"op\":\"write\",\"h\":%d", h); jrc(o, e);
    /* the permission bits the written file ends up with belong to the result of the call (process umask 022 in every run) */
    { char *wp = NULL; struct stat wst; if (!e && d && n && asprintf(&wp, "%s/%s", d, n) >= 0 && stat(wp, &wst) == 0) fprintf(o, ",\"mode\":%o", (unsigned)(wst.st_mode & 0777)); free(wp); }
    fputs("}\n", o); free(d); free(n); return 0; }
  /* writeslow h dir name : econf_writeFile to a name that is a FIFO nobody reads from yet - the call stays inside the opening of
     the file for about 0.3 s (a reader thread then drains and removes the pipe); other threads' calls happen meanwhile */
  if (!strcmp(op, "writeslow")) { int h = HND(1); char *d = tokstr(ARG(2), NULL), *n = tokstr(ARG(3), NULL); char *fp = NULL; pthread_t rt; int have = 0;
    if (asprintf(&fp, "%s/%s", d, n) < 0) fp = NULL; mkparent(fp); unlink(fp);
    struct drain dr = { fp, 0 };
    if (fp && mkfifo(fp, 0600) == 0 && pthread_create(&rt, NULL, fifo_drain, &dr) == 0) have = 1;
    e = have ? econf_writeFile(c->H[h], d, n) : ECONF_ERROR; dr.done = 1; if (have) pthread_join(rt, NULL);
    fprintf(o, "{\"op\":\"writeslow\",\"h\":%d", h); jrc(o, e); fputs("}\n", o); if (fp) unlink(fp); free(fp); free(d); free(n); return 0; }
  if (!strcmp(op, "free")) { int h = HND(1); econf_file *r = econf_freeFile(c->H[h]); c->H[h] = NULL;
    fprintf(o, "{\"op\":\"free\",\"h\":%d,\"ret_null\":%s}\n", h, r == NULL ? "true" : "false"); return 0; }
  if (!strcmp(op, "forget")) { c->H[HND(1)] = NULL; return 0; }
  if (!strcmp(op, "freenull")) { econf_file *r = econf_freeFile(NULL); char **a = econf_freeArray(NULL); econf_freeExtValue(NULL);
    fprintf(o, "{\"op\":\"freenull\",\"ret_null\":%s}\n", (r == NULL && a == NULL) ? "true" : "false"); return 0; }

  /* ----- listings ----- */
  if (!strcmp(op, "dump") || !strcmp(op, "dumpx") || !strcmp(op, "dumpt")) { int h = HND(1);
    fprintf(o, "{\"op\":\"dump\",\"h\":%d,\"st\":", h);
    if (c->H[h]) dump_obj(o, c->H[h], op[4] == 'x' ? 1 : op[4] == 't' ? 2 : 0); else fputs("null", o);
    fputs("}\n", o); return 0; }
  if (!strcmp(op, "groups")) { int h = HND(1); size_t n = 0; char **g = NULL; e = econf_getGroups(c->H[h], &n, &g);
    fprintf(o, "{\"op\":\"groups\",\"h\":%d", h); jrc(o, e); fputs(",\"out\":", o); jarr(o, e ? NULL : g); fprintf(o, ",\"n\":%zu}\n", e ? 0 : n);
    if (!e) econf_freeArray(g); return 0; }
  if (!strcmp(op, "keys")) { int h = HND(1); char *g = tokstr(ARG(2), NULL); size_t n = 0; char **k = NULL; e = econf_getKeys(c->H[h], g, &n, &k);
    fprintf(o, "{\"op\":\"keys\",\"h\":%d", h); jrc(o, e); fputs(",\"out\":", o); jarr(o, e ? NULL : k); fprintf(o, ",\"n\":%zu}\n", n);
    if (!e) econf_freeArray(k); free(g); return 0; }
  if (!strcmp(op, "path")) { int h = HND(1); char *p = c->H[h] ? econf_getPath(c->H[h]) : NULL;   /* no object: nothing to ask */ fprintf(o, "{\"op\":\"path\",\"h\":%d,\"out\":", h); js(o, p); fputs("}\n", o); free(p); return 0; }
  if (!strcmp(op, "tags")) { int h = HND(1); fprintf(o, "{\"op\":\"tags\",\"h\":%d,\"dtag\":%d,\"ctag\":%d}\n", h,
      (unsigned char)econf_delimiter_tag(c->H[h]), (unsigned char)econf_comment_tag(c->H[h])); return 0; }
  if (!strcmp(op, "settags")) { int h = HND(1); econf_set_delimiter_tag(c->H[h], tokchr(ARG(2))); econf_set_comment_tag(c->H[h], tokchr(ARG(3)));
    fprintf(o, "{\"op\":\"settags\",\"h\":%d}\n", h); return 0; }
  if (!strcmp(op, "ext")) { int h = HND(1); char *g = tokstr(ARG(2), NULL), *k = tokstr(ARG(3), NULL); econf_ext_value *x = NULL;
    e = econf_getExtValue(c->H[h], g, k, &x);
    fprintf(o, "{\"op\":\"ext\",\"h\":%d", h); jrc(o, e);
    if (!e && x) { fprintf(o, ",\"line\":%" PRIu64 ",\"file\":", x->line_number); js(o, x->file); fputs(",\"cb\":", o); js(o, x->comment_before_key);
      fputs(",\"ca\":", o); js(o, x->comment_after_value); fputs(",\"vals\":", o); jarr(o, x->values);
      size_t tl = 0; for (char **p = x->values; *p; p++) tl += strlen(*p); fprintf(o, ",\"vlen\":%zu", tl);
      econf_freeExtValue(x); }
    fputs("}\n", o); free(g); free(k); return 0; }

  /* ----- typed getters:  get <T> h group key   /  getdef <T> h group key def ----- */
  if (!strcmp(op, "get") || !strcmp(op, "getdef")) {
    int def = op[3] == 'd'; const char *T = ARG(1); int h = HND(2); char *g = tokstr(ARG(3), NULL), *k = tokstr(ARG(4), NULL);
    fprintf(o, "{\"op\":\"%s\",\"T\":\"%s\",\"h\":%d", op, T, h);
    if (!strcmp(T, "String")) { char *v = (char *)0x1; char *d = def ? tokstr(ARG(5), NULL) : NULL;
      e = def ? econf_getStringValueDef(c->H[h], g, k, &v, d) : econf_getStringValue(c->H[h], g, k, &v);
      jrc(o, e); int has = (e == ECONF_SUCCESS) || (def && e == ECONF_NOKEY);
      fputs(",\"out\":", o); js(o, has ? v : NULL); if (has && v) fprintf(o, ",\"len\":%zu", strlen(v)); if (has) free(v); free(d); }
    else if (!strcmp(T, "Int")) { int32_t v = 77777; e = def ? econf_getIntValueDef(c->H[h], g, k, &v, (int32_t)strtoll(ARG(5), NULL, 10)) : econf_getIntValue(c->H[h], g, k, &v);
      jrc(o, e); fprintf(o, ",\"out\":%" PRId32, v); }
    else if (!strcmp(T, "Int64")) { int64_t v = 77777; e = def ? econf_getInt64ValueDef(c->H[h], g, k, &v, (int64_t)strtoll(ARG(5), NULL, 10)) : econf_getInt64Value(c->H[h], g, k, &v);
      jrc(o, e); fprintf(o, ",\"out\":%" PRId64, v); }
    else if (!strcmp(T, "UInt")) { uint32_t v = 77777; e = def ? econf_getUIntValueDef(c->H[h], g, k, &v, (uint32_t)strtoull(ARG(5), NULL, 10)) : econf_getUIntValue(c->H[h], g, k, &v);
      jrc(o, e); fprintf(o, ",\"out\":%" PRIu32, v); }
    else if (!strcmp(T, "UInt64")) { uint64_t v = 77777; e = def ? econf_getUInt64ValueDef(c->H[h], g, k, &v, (uint64_t)strtoull(ARG(5), NULL, 10)) : econf_getUInt64Value(c->H[h], g, k, &v);
      jrc(o, e); fprintf(o, ",\"out\":%" PRIu64, v); }
    else if (!strcmp(T, "Float")) { float v = 7.5f, d = 0; if (def) { uint32_t b = (uint32_t)strtoul(ARG(5), NULL, 16); memcpy(&d, &b, 4); }
      e = def ? econf_getFloatValueDef(c->H[h], g, k, &v, d) : econf_getFloatValue(c->H[h], g, k, &v);
      jrc(o, e); fputs(",\"out\":", o); jfloatbits(o, v); }
    else if (!strcmp(T, "Double")) { double v = 7.5, d = 0; if (def) { uint64_t b = strtoull(ARG(5), NULL, 16); memcpy(&d, &b, 8); }
      e = def ? econf_getDoubleValueDef(c->H[h], g, k, &v, d) : econf_getDoubleValue(c->H[h], g, k, &v);
      jrc(o, e); fputs(",\"out\":", o); jdoublebits(o, v); }
    else if (!strcmp(T, "Bool")) { bool v = false; unsigned char raw = 2; memcpy(&v, &raw, 1);
      e = def ? econf_getBoolValueDef(c->H[h], g, k, &v, atoi(ARG(5)) != 0) : econf_getBoolValue(c->H[h], g, k, &v);
      jrc(o, e); memcpy(&raw, &v, 1); fprintf(o, ",\"out\":%d", raw); }
    fputs("}\n", o); free(g); free(k); return 0; }

  /* ----- typed setters:  set <T> h group key value ----- */
  if (!strcmp(op, "set")) {
    const char *T = ARG(1); int h = HND(2); char *g = tokstr(ARG(3), NULL), *k = tokstr(ARG(4), NULL);
    if (!strcmp(T, "String")) { char *v = tokstr(ARG(5), NULL); e = econf_setStringValue(c->H[h], g, k, v); free(v); }
    else if (!strcmp(T, "Bool")) { char *v = tokstr(ARG(5), NULL); e = econf_setBoolValue(c->H[h], g, k, v); free(v); }
    else if (!strcmp(T, "Int")) e = econf_setIntValue(c->H[h], g, k, (int32_t)strtoll(ARG(5), NULL, 10));
    else if (!strcmp(T, "Int64")) e = econf_setInt64Value(c->H[h], g, k, (int64_t)strtoll(ARG(5), NULL, 10));
    else if (!strcmp(T, "UInt")) e = econf_setUIntValue(c->H[h], g, k, (uint32_t)strtoull(ARG(5), NULL, 10));
    else if (!strcmp(T, "UInt64")) e = econf_setUInt64Value(c->H[h], g, k, (uint64_t)strtoull(ARG(5), NULL, 10));
    else if (!strcmp(T, "Float")) { float f; uint32_t b = (uint32_t)strtoul(ARG(5), NULL, 16); memcpy(&f, &b, 4); e = econf_setFloatValue(c->H[h], g, k, f); }
    else if (!strcmp(T, "Double")) { double f; uint64_t b = strtoull(ARG(5), NULL, 16); memcpy(&f, &b, 8); e = econf_setDoubleValue(c->H[h], g, k, f); }
    else e = ECONF_ERROR;
    fprintf(o, "{\"op\":\"set\",\"T\":\"%s\",\"h\":%d", T, h); jrc(o, e); fputs("}\n", o); free(g); free(k); return 0; }

  /* ----- errors, process-wide settings ----- */
  if (!strcmp(op, "errloc")) { char *fn = NULL; uint64_t ln = 0; econf_errLocation(&fn, &ln);
    fputs("{\"op\":\"errloc\",\"file\":", o); js(o, fn); fprintf(o, ",\"line\":%" PRIu64 "}\n", ln); free(fn); return 0; }
  if (!strcmp(op, "errstring")) { int code = atoi(ARG(1)); const char *m = econf_errString((econf_err)code);
    fprintf(o, "{\"op\":\"errstring\",\"code\":%d,\"name\":\"%s\",\"msg\":", code, ename(code)); js(o, m); fputs("}\n", o); return 0; }
  if (!strcmp(op, "requireowner")) { econf_requireOwner((uid_t)atol(ARG(1))); fprintf(o, "{\"op\":\"requireowner\",\"id\":%ld}\n", atol(ARG(1))); return 0; }
  if (!strcmp(op, "requiregroup")) { econf_requireGroup((gid_t)atol(ARG(1))); fprintf(o, "{\"op\":\"requiregroup\",\"id\":%ld}\n", atol(ARG(1))); return 0; }
  if (!strcmp(op, "requireperms")) { econf_requirePermissions((mode_t)strtol(ARG(1), NULL, 8), (mode_t)strtol(ARG(2), NULL, 8));
    fprintf(o, "{\"op\":\"requireperms\",\"file\":%ld,\"dir\":%ld}\n", strtol(ARG(1), NULL, 8), strtol(ARG(2), NULL, 8)); return 0; }
  if (!strcmp(op, "followsymlinks")) { econf_followSymlinks(atoi(ARG(1)) != 0); fprintf(o, "{\"op\":\"followsymlinks\",\"on\":%d}\n", atoi(ARG(1)) != 0); return 0; }
  if (!strcmp(op, "resetsec")) { econf_reset_security_settings(); fputs("{\"op\":\"resetsec\"}\n", o); return 0; }
  if (!strcmp(op, "setconfdirs")) { const char *l[MAXTOK]; char *own[MAXTOK]; int n = 0;
    for (int i = 1; i < nt; i++) { own[n] = tokstr(t[i], NULL); l[n] = own[n]; n++; } l[n] = NULL;
    e = econf_set_conf_dirs(l); fputs("{\"op\":\"setconfdirs\"", o); jrc(o, e); fputs("}\n", o); for (int i = 0; i < n; i++) free(own[i]); return 0; }
  if (!strcmp(op, "heap")) {
#if HAVE_HEAP
    fflush(o);
    fprintf(o, "{\"op\":\"heap\",\"bytes\":%zu}\n", __sanitizer_get_current_allocated_bytes());
#else
    fprintf(o, "{\"op\":\"heap\",\"bytes\":-1}\n");
#endif
    return 0; }

  /* ----- typed sweeps (C08): done inside the driver, summary event only -----
     sweep <T> <mode> <lo> <hi> <dir>      mode: direct | file ; lo/hi inclusive as unsigned 64-bit pattern (hex) */
  if (!strcmp(op, "sweep")) {
    const char *T = ARG(1); int viafile = !strcmp(ARG(2), "file"); uint64_t lo = strtoull(ARG(3), NULL, 16), hi = strtoull(ARG(4), NULL, 16);
    uint64_t step = ARG(6) ? strtoull(ARG(6), NULL, 10) : 1; if (!step) step = 1;
    char *dir = tokstr(ARG(5), NULL);
    uint64_t count = 0, bad = 0, firstbad = 0; int badrc = 0;
    econf_file *kf = NULL;
    if (econf_newKeyFile(&kf, '=', '#')) { fprintf(o, "{\"op\":\"sweep\",\"rc\":\"ECONF_NOMEM\"}\n"); free(dir); return 0; }
    for (uint64_t b = lo;; b += step) {
      int ok = 1; econf_file *q = kf, *rd = NULL;
      econf_err es = 0, eg = 0;
#define VIA() do { if (viafile) { es = es ? es : econf_writeFile(kf, dir, "sweep.conf"); char *pp; if (asprintf(&pp, "%s/sweep.conf", dir) < 0) pp = NULL; \
                     if (!es) es = econf_readFile(&rd, pp, "=", "#"); free(pp); q = rd; } } while (0)
      if (!strcmp(T, "Int")) { int32_t v = (int32_t)(uint32_t)b, r = 0; es = econf_setIntValue(kf, "s", "k", v); VIA(); if (!es) eg = econf_getIntValue(q, "s", "k", &r); ok = !es && !eg && r == v; }
      else if (!strcmp(T, "UInt")) { uint32_t v = (uint32_t)b, r = 0; es = econf_setUIntValue(kf, "s", "k", v); VIA(); if (!es) eg = econf_getUIntValue(q, "s", "k", &r); ok = !es && !eg && r == v; }
      else if (!strcmp(T, "Int64")) { int64_t v = (int64_t)b, r = 0; es = econf_setInt64Value(kf, "s", "k", v); VIA(); if (!es) eg = econf_getInt64Value(q, "s", "k", &r); ok = !es && !eg && r == v; }
      else if (!strcmp(T, "UInt64")) { uint64_t v = b, r = 0; es = econf_setUInt64Value(kf, "s", "k", v); VIA(); if (!es) eg = econf_getUInt64Value(q, "s", "k", &r); ok = !es && !eg && r == v; }
      else if (!strcmp(T, "Float")) { float v, r = 0; uint32_t bb = (uint32_t)b, rb; memcpy(&v, &bb, 4); es = econf_setFloatValue(kf, "s", "k", v); VIA(); if (!es) eg = econf_getFloatValue(q, "s", "k", &r);
        memcpy(&rb, &r, 4); ok = !es && !eg && (rb == bb || (v != v && r != r)); }
      else if (!strcmp(T, "Double")) { double v, r = 0; uint64_t rb; memcpy(&v, &b, 8); es = econf_setDoubleValue(kf, "s", "k", v); VIA(); if (!es) eg = econf_getDoubleValue(q, "s", "k", &r);
        memcpy(&rb, &r, 8); ok = !es && !eg && (rb == b || (v != v && r != r)); }
      if (rd) econf_freeFile(rd);
      count++;
      if (!ok) { if (!bad) { firstbad = b; badrc = es ? (int)es : (int)eg; } bad++; }
      if (b == hi || hi - b < step) break;
    }
    econf_freeFile(kf);
    fprintf(o, "{\"op\":\"sweep\",\"T\":\"%s\",\"mode\":\"%s\",\"lo\":\"%" PRIx64 "\",\"hi\":\"%" PRIx64 "\",\"step\":%" PRIu64 ",\"count\":%" PRIu64 ",\"bad\":%" PRIu64 ",\"firstbad\":\"%" PRIx64 "\",\"badrc\":\"%s\"}\n",
            T, ARG(2), lo, hi, step, count, bad, firstbad, ename(badrc));
    free(dir); return 0; }

  /* ----- envelope <path> <delim> <comment> <optmode 0|1|2> <dir> : C04 — read an arbitrary file; on success exercise
         every listing, every typed / defaulted / extended getter on every listed key, merge with two fixed partners in both
         roles, write + re-read.  One summary event; memory errors are ASan's business. ----- */
  if (!strcmp(op, "envelope")) {
    char *p = tokstr(ARG(1), NULL), *d = tokstr(ARG(2), NULL), *cm = tokstr(ARG(3), NULL); int mode = atoi(ARG(4)); char *dir = tokstr(ARG(5), NULL);
    econf_file *kf = NULL, *A = NULL, *B = NULL; int rcs_ok = 1; size_t nkeys = 0, ncalls = 0; econf_err rr = ECONF_SUCCESS, wr = ECONF_SUCCESS;
#define INENUM(x) do { int _e = (int)(x); ncalls++; if (_e < 0 || _e >= NERR) rcs_ok = 0; } while (0)
    if (mode == 0) e = econf_readFile(&kf, p, d, cm);
    else { char *opt; char *root = strdup(p); char *sl = strrchr(root, '/'); if (sl) *sl = 0; sl = strrchr(root, '/'); if (sl) *sl = 0;  /* <root>/etc/<name>.conf */
      if (asprintf(&opt, "%s;ROOT_PREFIX=%s", mode == 1 ? "JOIN_SAME_ENTRIES=1" : "PYTHON_STYLE=1", root) < 0) opt = NULL;
      e = econf_newKeyFile_with_options(&kf, opt); free(opt); free(root);
      if (!e) { char *base = strdup(strrchr(p, '/') + 1); char *dot = strrchr(base, '.'); if (dot) *dot = 0;
        e = econf_readConfig(&kf, NULL, NULL, base, dot ? dot + 1 : NULL, d, cm); free(base); if (e) { econf_freeFile(kf); kf = NULL; } } }
    INENUM(e);
    if (!e && kf) {
      econf_newKeyFile(&A, '=', '#'); econf_setStringValue(A, NULL, "a", "1"); econf_setStringValue(A, "S", "k", "v"); econf_setStringValue(A, "a", "a", "x");
      econf_newKeyFile_with_options(&B, "");
      size_t ng = 0; char **groups = NULL; econf_err ge = econf_getGroups(kf, &ng, &groups); INENUM(ge); if (ge) { groups = NULL; ng = 0; }
      for (size_t gi = 0; gi <= ng; gi++) {
        const char *g = gi ? groups[gi - 1] : NULL; size_t nk = 0; char **keys = NULL;
        econf_err ke = econf_getKeys(kf, g, &nk, &keys); INENUM(ke); if (ke) continue;
        for (size_t ki = 0; ki < nk; ki++) { const char *k = keys[ki]; nkeys++;
          int32_t i32; int64_t i64; uint32_t u32; uint64_t u64; float f; double db; char *str = NULL; bool b; econf_ext_value *x = NULL;
          INENUM(econf_getIntValue(kf, g, k, &i32)); INENUM(econf_getInt64Value(kf, g, k, &i64)); INENUM(econf_getUIntValue(kf, g, k, &u32));
          INENUM(econf_getUInt64Value(kf, g, k, &u64)); INENUM(econf_getFloatValue(kf, g, k, &f)); INENUM(econf_getDoubleValue(kf, g, k, &db));
          econf_err se = econf_getStringValue(kf, g, k, &str); INENUM(se); if (!se) free(str);
          INENUM(econf_getBoolValue(kf, g, k, &b));
          INENUM(econf_getIntValueDef(kf, g, k, &i32, 1)); INENUM(econf_getInt64ValueDef(kf, g, k, &i64, 1)); INENUM(econf_getUIntValueDef(kf, g, k, &u32, 1));
          INENUM(econf_getUInt64ValueDef(kf, g, k, &u64, 1)); INENUM(econf_getFloatValueDef(kf, g, k, &f, 1)); INENUM(econf_getDoubleValueDef(kf, g, k, &db, 1));
          str = NULL; se = econf_getStringValueDef(kf, g, k, &str, "d"); INENUM(se); if (!se || se == ECONF_NOKEY) free(str);
          INENUM(econf_getBoolValueDef(kf, g, k, &b, true));
          econf_err xe = econf_getExtValue(kf, g, k, &x); INENUM(xe); if (!xe) econf_freeExtValue(x);
        }
        econf_freeArray(keys);
      }
      if (!ge) econf_freeArray(groups);
      char *pp = econf_getPath(kf); free(pp);
      econf_file *m = NULL; econf_file *pairs[4][2] = {{kf, A}, {A, kf}, {kf, B}, {B, kf}};
      for (int i = 0; i < 4; i++) { m = NULL; econf_err me = econf_mergeFiles(&m, pairs[i][0], pairs[i][1]); INENUM(me);
        if (!me && m) { size_t n2 = 0; char **g2 = NULL; if (!econf_getGroups(m, &n2, &g2)) econf_freeArray(g2); char **k2 = NULL; if (!econf_getKeys(m, NULL, &n2, &k2)) econf_freeArray(k2); econf_freeFile(m); } }
      mkdirs(dir);
      wr = econf_writeFile(kf, dir, "env.out"); INENUM(wr);
      if (!wr) { char *op2; econf_file *k2 = NULL; if (asprintf(&op2, "%s/env.out", dir) < 0) op2 = NULL;
        char dd[2] = { econf_delimiter_tag(kf) ? econf_delimiter_tag(kf) : '=', 0 };
        rr = econf_readFile(&k2, op2, dd, cm); INENUM(rr); if (!rr) { static FILE *nul = NULL; if (!nul) nul = fopen("/dev/null", "w"); dump_obj(nul, k2, 1); econf_freeFile(k2); } free(op2); }
      econf_freeFile(A); econf_freeFile(B);
    }
    fprintf(o, "{\"op\":\"envelope\",\"rc\":\"%s\",\"obj\":%s,\"nkeys\":%zu,\"ncalls\":%zu,\"rcs_ok\":%s,\"write_rc\":\"%s\",\"reread_rc\":\"%s\"}\n",
            ename(e), kf ? "true" : "false", nkeys, ncalls, rcs_ok ? "true" : "false", ename(wr), ename(rr));
    if (kf) econf_freeFile(kf);
    free(p); free(d); free(cm); free(dir); return 0; }

  /* ----- longprobe <kind> <len> <dir> : C14 — one field of the given length with distinct head and tail markers through
         every API that copies it; one event per (kind, api) ----- */
  if (!strcmp(op, "longprobe")) {
    const char *kind = ARG(1); size_t len = (size_t)strtoull(ARG(2), NULL, 10); char *dir = tokstr(ARG(3), NULL);
    mkdirs(dir);
    char *field = malloc(len + 1); memset(field, 'm', len); field[len] = 0;
    if (len >= 1) field[0] = 'H'; if (len >= 2) field[len - 1] = 'T';
    char *path; if (asprintf(&path, "%s/long.conf", dir) < 0) path = NULL;
#define LEV(api, rcv, s) do { const char *_s = (s); size_t _l = _s ? strlen(_s) : 0; \
      fprintf(o, "{\"op\":\"long\",\"kind\":\"%s\",\"len\":%zu,\"api\":\"%s\",\"rc\":\"%s\",\"out_len\":%zu,\"head_ok\":%s,\"tail_ok\":%s}\n", kind, len, api, ename(rcv), _l, \
              (_s && _l && (len < 1 || _s[0] == 'H')) ? "true" : "false", (_s && _l && (len < 2 || _s[_l - 1] == 'T')) ? "true" : "false"); } while (0)
    FILE *f = fopen(path, "w");
    const char *g = NULL, *k = "k";
    if (!strcmp(kind, "value")) fprintf(f, "k=%s\n", field);
    else if (!strcmp(kind, "key")) { fprintf(f, "%s=v\n", field); k = field; }
    else if (!strcmp(kind, "section")) { fprintf(f, "[%s]\nk=v\n", field); g = field; }
    else if (!strcmp(kind, "contline")) fprintf(f, "k=v\n %s\n", field);
    else if (!strcmp(kind, "cbefore")) fprintf(f, "#%s\nk=v\n", field);
    else if (!strcmp(kind, "cafter")) fprintf(f, "k=v #%s\n", field);
    /* a comment of SEVERAL lines (the field cut in three): a block above the key / one piece behind each line of a three-line value */
    else if (!strcmp(kind, "cbefore3")) fprintf(f, "#%.*s\n#%.*s\n#%s\nk=v\n", (int)(len / 3), field, (int)(len / 3), field + len / 3, field + 2 * (len / 3));
    else if (!strcmp(kind, "cafter3")) fprintf(f, "k=v #%.*s\n w #%.*s\n x #%s\n", (int)(len / 3), field, (int)(len / 3), field + len / 3, field + 2 * (len / 3));
    else if (!strcmp(kind, "quoted")) fprintf(f, "k=\"%s\"\n", field);
    else if (!strcmp(kind, "joined")) fprintf(f, "k=v\nk=%s\n", field);
    else if (!strcmp(kind, "lastline")) fprintf(f, "j=1\nk=%s", field);        /* the LAST line of a file that does not end with a newline */
    else if (!strcmp(kind, "lastcont")) fprintf(f, "k=v\n %s", field);         /* ... as a continuation line */
    else fprintf(f, "k=v\n");
    fclose(f);
    econf_file *kf = NULL, *kf2 = NULL, *m = NULL, *other = NULL; char *str = NULL; econf_ext_value *x = NULL;
    if (!strcmp(kind, "joined")) {              /* JOIN_SAME_ENTRIES=1: the second definition is appended to the first */
      char *opt; if (asprintf(&opt, "JOIN_SAME_ENTRIES=1;PARSING_DIRS=%s", dir) < 0) opt = NULL;
      e = econf_newKeyFile_with_options(&kf, opt); free(opt);
      if (!e) e = econf_readConfig(&kf, NULL, NULL, "long", "conf", "=", "#");
      if (e) { econf_freeFile(kf); kf = NULL; }
      LEV("readConfig", e, e ? NULL : "HT");
    } else {
    e = econf_readFile(&kf, path, "=", "#");
    LEV("readFile", e, e ? NULL : "HT");
    }
    if (!e) {
      econf_file *kfl = NULL;
      for (int round = 0; round < 5; round++) {
        econf_file *q = kf; const char *tag = round == 0 ? "" : round == 1 ? "merge+" : round == 2 ? "write+read+" : round == 3 ? "symlink+" : "written+";
        /* round 4: the object itself once more AFTER it has been written (round 2) */
        char api[64];
        if (round == 3) {   /* the same file reached through a symbolic link (followed by default) */
          if (!strcmp(kind, "joined")) continue;
          char *lp; if (asprintf(&lp, "%s/long.link.conf", dir) < 0) lp = NULL; unlink(lp);
          if (symlink(path, lp) != 0) { free(lp); continue; }
          econf_err le = econf_readFile(&kfl, lp, "=", "#"); free(lp);
          if (le) { LEV("symlink+readFile", le, NULL); continue; } q = kfl; }
        if (round == 1) { econf_newKeyFile(&other, '=', '#'); econf_setStringValue(other, "zz", "o", "1"); econf_err me = econf_mergeFiles(&m, kf, other); if (me) { LEV("merge", me, NULL); break; } q = m; }
        /* (comment pieces behind the lines of a multi-line value: the writer puts them all behind the last line, each on a line of
           its own - what reading that back gives is the writer's layout, not a question of length: C07 speaks of single-line
           entries only.  The object is written all the same - round 4 looks at it afterwards.) */
        if (round == 2 && !strcmp(kind, "cafter3")) { econf_err we = econf_writeFile(kf, dir, "long.out"); if (we) LEV("writeFile", we, NULL); continue; }
        if (round == 2) { econf_err we = econf_writeFile(kf, dir, "long.out"); if (we) { LEV("writeFile", we, NULL); break; }
          char *p2; if (asprintf(&p2, "%s/long.out", dir) < 0) p2 = NULL; econf_err re = econf_readFile(&kf2, p2, "=", "#"); free(p2); if (re) { LEV("write+readFile", re, NULL); break; } q = kf2; }
        if (!strcmp(kind, "value") || !strcmp(kind, "quoted") || !strcmp(kind, "lastline")) {
          snprintf(api, sizeof api, "%sgetStringValue", tag); e = econf_getStringValue(q, g, k, &str); LEV(api, e, e ? NULL : str); if (!e) free(str);
          snprintf(api, sizeof api, "%sgetExtValue.values", tag); e = econf_getExtValue(q, g, k, &x); LEV(api, e, (e || !x->values[0]) ? NULL : x->values[0]); if (!e) econf_freeExtValue(x);
        } else if (!strcmp(kind, "joined")) {
          snprintf(api, sizeof api, "%sgetStringValue", tag); e = econf_getStringValue(q, g, k, &str); LEV(api, e, e ? NULL : (strchr(str, '\n') ? strchr(str, '\n') + 1 : NULL)); if (!e) free(str);
        } else if (!strcmp(kind, "contline") || !strcmp(kind, "lastcont")) {
          snprintf(api, sizeof api, "%sgetStringValue", tag); e = econf_getStringValue(q, g, k, &str); LEV(api, e, e ? NULL : (strchr(str, '\n') ? strchr(str, '\n') + 2 : NULL)); if (!e) free(str);
          snprintf(api, sizeof api, "%sgetExtValue.values", tag); e = econf_getExtValue(q, g, k, &x); LEV(api, e, (e || !x->values[0] || !x->values[1]) ? NULL : x->values[1]); if (!e) econf_freeExtValue(x);
        } else if (!strcmp(kind, "key")) {
          size_t n = 0; char **keys = NULL; snprintf(api, sizeof api, "%sgetKeys", tag); e = econf_getKeys(q, NULL, &n, &keys); LEV(api, e, (e || !n) ? NULL : keys[0]); if (!e) econf_freeArray(keys);
          snprintf(api, sizeof api, "%sgetStringValue(by key)", tag); e = econf_getStringValue(q, NULL, k, &str); LEV(api, e, e ? NULL : "HT"); if (!e) free(str);
        } else if (!strcmp(kind, "section")) {
          size_t n = 0; char **gs = NULL; snprintf(api, sizeof api, "%sgetGroups", tag); e = econf_getGroups(q, &n, &gs); LEV(api, e, (e || !n) ? NULL : gs[0]); if (!e) econf_freeArray(gs);
          snprintf(api, sizeof api, "%sgetStringValue(by section)", tag); e = econf_getStringValue(q, g, "k", &str); LEV(api, e, e ? NULL : "HT"); if (!e) free(str);
        } else if (!strcmp(kind, "cbefore3") || !strcmp(kind, "cafter3")) {
          snprintf(api, sizeof api, "%sgetExtValue.comment", tag); e = econf_getExtValue(q, g, k, &x);
          const char *c = e ? NULL : (!strcmp(kind, "cbefore3") ? x->comment_before_key : x->comment_after_value);
          char *j = NULL;        /* the pieces without the line ends between them: the field again */
          if (c) { j = malloc(strlen(c) + 1); size_t w = 0; for (const char *r = c; *r; r++) if (*r != '\n') j[w++] = *r; j[w] = 0; }
          LEV(api, e, j); free(j); if (!e) econf_freeExtValue(x);
        } else if (!strcmp(kind, "cbefore") || !strcmp(kind, "cafter")) {
          snprintf(api, sizeof api, "%sgetExtValue.comment", tag); e = econf_getExtValue(q, g, k, &x);
          const char *c = e ? NULL : (!strcmp(kind, "cbefore") ? x->comment_before_key : x->comment_after_value);
          LEV(api, e, c); if (!e) econf_freeExtValue(x);
        }
      }
      econf_freeFile(kfl);
      /* setter path */
      if (!strcmp(kind, "value")) { econf_file *s2 = NULL; econf_newKeyFile(&s2, '=', '#'); e = econf_setStringValue(s2, "g", "k", field); if (!e) e = econf_getStringValue(s2, "g", "k", &str); LEV("setStringValue+getStringValue", e, e ? NULL : str); if (!e) free(str); econf_freeFile(s2); }
      if (!strcmp(kind, "key")) { econf_file *s2 = NULL; econf_newKeyFile(&s2, '=', '#'); e = econf_setStringValue(s2, NULL, field, "v"); size_t n = 0; char **keys = NULL; if (!e) e = econf_getKeys(s2, NULL, &n, &keys); LEV("setStringValue+getKeys", e, (e || !n) ? NULL : keys[0]); if (!e) econf_freeArray(keys); econf_freeFile(s2); }
      if (!strcmp(kind, "section")) { econf_file *s2 = NULL; econf_newKeyFile(&s2, '=', '#'); e = econf_setStringValue(s2, field, "k", "v"); size_t n = 0; char **gs = NULL; if (!e) e = econf_getGroups(s2, &n, &gs); LEV("setStringValue+getGroups", e, (e || !n) ? NULL : gs[0]); if (!e) econf_freeArray(gs); econf_freeFile(s2); }
    }
    econf_freeFile(kf); econf_freeFile(kf2); econf_freeFile(m); econf_freeFile(other);
    free(field); free(path); free(dir); return 0; }

  /* ----- longname <what> <len> <dir> : C14 — file / directory names up to the OS limits ----- */
  if (!strcmp(op, "longname")) {
    const char *what = ARG(1); size_t len = (size_t)strtoull(ARG(2), NULL, 10); char *dir = tokstr(ARG(3), NULL);
    mkdirs(dir);
    const char *kind = what;
    if (!strcmp(what, "mainname")) {            /* a MAIN file whose name (with its suffix) is exactly len bytes, read through the layered entry points */
      size_t nl = len > 5 ? len - 5 : 1; char *name = malloc(nl + 1); memset(name, 'm', nl); name[nl] = 0;
      char *etc; if (asprintf(&etc, "%s/etc", dir) < 0) etc = NULL;
      char *pth; if (asprintf(&pth, "%s/%s.conf", etc, name) < 0) pth = NULL; mkparent(pth);
      int w = wfile(pth, "k=1\n", 4);
      for (int variant = 0; variant < 3; variant++) {
        econf_file *kf = NULL, **kfs = NULL; size_t n = 0; char *v = NULL; econf_err ge;
        if (variant == 0) { e = econf_readDirs(&kf, "/nonexistent-verif", etc, name, "conf", "=", "#"); }
        else if (variant == 1) { char *opt; if (asprintf(&opt, "PARSING_DIRS=%s", etc) < 0) opt = NULL; e = econf_newKeyFile_with_options(&kf, opt); free(opt);
          if (!e) e = econf_readConfig(&kf, NULL, NULL, name, ".conf", "=", "#"); if (e) { econf_freeFile(kf); kf = NULL; } }
        else { e = econf_readDirsHistory(&kfs, &n, "/nonexistent-verif", etc, name, "conf", "=", "#"); if (!e && n >= 1) { kf = kfs[0]; for (size_t i = 1; i < n; i++) econf_freeFile(kfs[i]); } free(kfs); }
        ge = e ? e : econf_getStringValue(kf, NULL, "k", &v);
        fprintf(o, "{\"op\":\"long\",\"kind\":\"%s\",\"len\":%zu,\"api\":\"%s\",\"rc\":\"%s\",\"out_len\":%zu,\"head_ok\":%s,\"tail_ok\":%s,\"os_ok\":%s}\n", kind, len,
                variant == 0 ? "readDirs(main file)" : variant == 1 ? "readConfig(main file)" : "readDirsHistory(main file)", ename(ge),
                len, (v && !strcmp(v, "1")) ? "true" : "false", (v && !strcmp(v, "1")) ? "true" : "false", w == 0 ? "true" : "false");
        free(v); econf_freeFile(kf);
      }
      free(etc); free(pth); free(name);
    } else if (!strcmp(what, "filename")) {            /* a file name of exactly len bytes ending in .conf, read directly and as a drop-in */
      char *name = malloc(len + 1); memset(name, 'n', len); name[len] = 0; if (len > 5) memcpy(name + len - 5, ".conf", 5);
      char *pth; if (asprintf(&pth, "%s/p.conf.d/%s", dir, name) < 0) pth = NULL; mkparent(pth);
      int w = wfile(pth, "k=1\n", 4);
      econf_file *kf = NULL; e = econf_readFile(&kf, pth, "=", "#"); char *gp = e ? NULL : econf_getPath(kf);
      fprintf(o, "{\"op\":\"long\",\"kind\":\"%s\",\"len\":%zu,\"api\":\"readFile+getPath\",\"rc\":\"%s\",\"out_len\":%zu,\"head_ok\":%s,\"tail_ok\":%s,\"os_ok\":%s}\n", kind, len, ename(e),
              gp ? strlen(gp) - strlen(dir) - strlen("/p.conf.d/") : 0, (gp && !strcmp(gp, pth)) ? "true" : "false", (gp && !strcmp(gp, pth)) ? "true" : "false", w == 0 ? "true" : "false");
      free(gp);
      /* ... and WRITTEN under a name of that length into another directory, then read back */
      if (kf) { char *wd; if (asprintf(&wd, "%s/written", dir) < 0) wd = NULL; mkdirs(wd);
        econf_err we = econf_writeFile(kf, wd, name); char *wp; if (asprintf(&wp, "%s/%s", wd, name) < 0) wp = NULL;
        econf_file *k2 = NULL; char *v2 = NULL; econf_err re = we ? we : econf_readFile(&k2, wp, "=", "#"); econf_err g2 = re ? re : econf_getStringValue(k2, NULL, "k", &v2);
        fprintf(o, "{\"op\":\"long\",\"kind\":\"%s\",\"len\":%zu,\"api\":\"writeFile+readFile\",\"rc\":\"%s\",\"out_len\":%zu,\"head_ok\":%s,\"tail_ok\":%s,\"os_ok\":%s}\n", kind, len, ename(g2),
                len, (v2 && !strcmp(v2, "1")) ? "true" : "false", (v2 && !strcmp(v2, "1")) ? "true" : "false", w == 0 ? "true" : "false");
        free(v2); econf_freeFile(k2); free(wp); free(wd); }
      econf_freeFile(kf); kf = NULL;
      char *etc; if (asprintf(&etc, "%s", dir) < 0) etc = NULL;
      e = econf_readDirs(&kf, "/nonexistent-verif", etc, "p", "conf", "=", "#"); char *v = NULL; econf_err ge = e ? e : econf_getStringValue(kf, NULL, "k", &v);
      fprintf(o, "{\"op\":\"long\",\"kind\":\"%s\",\"len\":%zu,\"api\":\"readDirs(drop-in)\",\"rc\":\"%s\",\"out_len\":%zu,\"head_ok\":%s,\"tail_ok\":%s,\"os_ok\":%s}\n", kind, len, ename(ge),
              len, (v && !strcmp(v, "1")) ? "true" : "false", (v && !strcmp(v, "1")) ? "true" : "false", w == 0 ? "true" : "false");
      free(v); econf_freeFile(kf); free(etc); free(pth); free(name);
    } else if (!strcmp(what, "dropins")) {        /* two drop-ins whose names of len bytes differ only in the LAST byte, no suffix */
      char *n1 = malloc(len + 1), *n2 = malloc(len + 1); memset(n1, 'n', len); n1[len] = 0; memcpy(n2, n1, len + 1); n1[len - 1] = '1'; n2[len - 1] = '2';
      char *p0, *p1, *p2; if (asprintf(&p0, "%s/p", dir) < 0 || asprintf(&p1, "%s/p.d/%s", dir, n1) < 0 || asprintf(&p2, "%s/p.d/%s", dir, n2) < 0) return 0;
      int w = wfile(p0, "M=0\n", 4) | wfile(p1, "A=1\n", 4) | wfile(p2, "B=2\n", 4);
      econf_file *kf = NULL; e = econf_readDirs(&kf, "/nonexistent-verif", dir, "p", NULL, "=", "#");
      char *va = NULL, *vb = NULL; econf_err ea = e ? e : econf_getStringValue(kf, NULL, "A", &va), eb = e ? e : econf_getStringValue(kf, NULL, "B", &vb);
      int both = !ea && !eb && va && vb && !strcmp(va, "1") && !strcmp(vb, "2");
      fprintf(o, "{\"op\":\"long\",\"kind\":\"dropins\",\"len\":%zu,\"api\":\"readDirs(two names differing in the last byte)\",\"rc\":\"%s\",\"out_len\":%zu,\"head_ok\":%s,\"tail_ok\":%s,\"os_ok\":%s}\n",
              len, ename(e ? e : (ea ? ea : eb)), both ? len : 0, both ? "true" : "false", both ? "true" : "false", w == 0 ? "true" : "false");
      free(va); free(vb); econf_freeFile(kf); free(p0); free(p1); free(p2); free(n1); free(n2);
    } else {                                      /* a path of exactly len bytes built from nested directories */
      size_t base = strlen(dir); if (base + 24 > len) { free(dir); return 0; }      /* (the scratch root alone is longer than that) */
      char *pth = malloc(len + 16); strcpy(pth, dir); size_t cur = base; int w = 0;
      while (cur + 2 + 6 < len) { size_t seg = len - cur - 1 - 7; if (seg > 200) seg = 200; if (seg < 1) break; pth[cur++] = '/'; memset(pth + cur, 'd', seg); cur += seg; pth[cur] = 0; }
      w = 0; { char *q = strdup(pth); mkdirs(q); free(q); }
      /* final component pads to the exact length */
      size_t rest = len - cur - 1; pth[cur++] = '/'; memset(pth + cur, 'f', rest); cur += rest; pth[cur] = 0; if (rest > 5) memcpy(pth + cur - 5, ".conf", 5);
      /* the kernel refuses paths of PATH_MAX bytes and more in one call: create the file relative to its directory */
      char *slash = strrchr(pth, '/'); *slash = 0; int dfd = open(dir, O_RDONLY); (void)dfd;
      { char cwd[8192]; if (!getcwd(cwd, sizeof cwd)) cwd[0] = 0; char *walk = strdup(pth); 
        if (chdir(dir) == 0) { char *rel = walk + base; int okc = 1; char *sv = NULL; for (char *c2 = strtok_r(rel, "/", &sv); c2; c2 = strtok_r(NULL, "/", &sv)) if (chdir(c2)) { okc = 0; break; }
          if (okc) { int fd = open(slash + 1, O_WRONLY | O_CREAT | O_TRUNC, 0644); if (fd >= 0) { if (write(fd, "k=1\n", 4) != 4) w = -1; close(fd); } else w = -1; } else w = -1; }
        else w = -1;
        if (chdir(cwd[0] ? cwd : "/")) w = w; free(walk); }
      if (dfd >= 0) close(dfd);
      *slash = '/';
      econf_file *kf = NULL; e = econf_readFile(&kf, pth, "=", "#"); char *gp = e ? NULL : econf_getPath(kf);
      fprintf(o, "{\"op\":\"long\",\"kind\":\"%s\",\"len\":%zu,\"api\":\"readFile+getPath\",\"rc\":\"%s\",\"out_len\":%zu,\"head_ok\":%s,\"tail_ok\":%s,\"os_ok\":%s}\n", kind, len, ename(e),
              gp ? strlen(gp) : 0, (gp && !strcmp(gp, pth)) ? "true" : "false", (gp && !strcmp(gp, pth)) ? "true" : "false", w == 0 ? "true" : "false");
      char *fn = NULL; uint64_t ln = 0; econf_errLocation(&fn, &ln); free(fn);
      free(gp); econf_freeFile(kf);
      /* the same file by a RELATIVE name (the process stands in the scratch directory): the absolute path the library makes of it
         has the same len bytes */
      { char cwd0[PATH_MAX]; if (getcwd(cwd0, sizeof cwd0) && chdir(dir) == 0) {
          const char *rel = pth + strlen(dir) + 1; kf = NULL; e = econf_readFile(&kf, rel, "=", "#"); gp = e ? NULL : econf_getPath(kf);
          fprintf(o, "{\"op\":\"long\",\"kind\":\"%s\",\"len\":%zu,\"api\":\"readFile by relative name+getPath\",\"rc\":\"%s\",\"out_len\":%zu,\"head_ok\":%s,\"tail_ok\":%s,\"os_ok\":%s}\n", kind, len, ename(e),
                  gp ? strlen(gp) : 0, (gp && !strcmp(gp, pth)) ? "true" : "false", (gp && !strcmp(gp, pth)) ? "true" : "false", w == 0 ? "true" : "false");
          free(gp); econf_freeFile(kf); if (chdir(cwd0)) {} } }
      free(pth);
    }
    free(dir); return 0; }

  /* ----- boolsweep <alphabet> <maxlen> : every string over the alphabet up to maxlen through setString + getBool ----- */
  if (!strcmp(op, "boolsweep")) {
    size_t na; char *alpha = tokstr(ARG(1), &na); int maxlen = atoi(ARG(2));
    econf_file *kf = NULL; uint64_t count = 0; int first = 1;
    if (econf_newKeyFile(&kf, '=', '#') || na == 0 || maxlen > 8) { fprintf(o, "{\"op\":\"boolsweep\",\"rc\":\"ECONF_ERROR\"}\n"); free(alpha); return 0; }
    fprintf(o, "{\"op\":\"boolsweep\",\"maxlen\":%d,\"accepted\":[", maxlen);
    for (int len = 0; len <= maxlen; len++) {
      int idx[8] = {0}; char buf[9];
      for (;;) {
        for (int i = 0; i < len; i++) buf[i] = alpha[idx[i]];
        buf[len] = 0;
        bool v = false; econf_err es = econf_setStringValue(kf, "s", "k", buf), eg = es ? es : econf_getBoolValue(kf, "s", "k", &v);
        count++;
        if (!eg) { if (!first) fputc(',', o); first = 0; fputs("{\"s\":", o); js(o, buf); fprintf(o, ",\"v\":%s}", v ? "true" : "false"); }
        int p = len - 1; while (p >= 0 && ++idx[p] == (int)na) { idx[p] = 0; p--; }
        if (p < 0) break;
      }
    }
    fprintf(o, "],\"count\":%" PRIu64 "}\n", count);
    econf_freeFile(kf); free(alpha); return 0; }

  /* ----- rtmatrix <T> <mode> <dir> <hex>... : the listed values are set under keys k<i> of three sections used ALTERNATELY (and two
         group-less keys), then every one is read back (directly / after write + read): a setter must reach the key it was called
         for, wherever that key sits among the entries ----- */
  if (!strcmp(op, "rtmatrix")) {
    const char *T = ARG(1); int viafile = strstr(ARG(2), "file") != NULL, parsed = ARG(2)[0] == 'p'; char *dir = tokstr(ARG(3), NULL);
    uint64_t count = 0, bad = 0, firstbad = 0; econf_file *kf = NULL, *rd = NULL;
    /* origin of the object the values are set on (letter in front of direct / file, behind the optional o): p = parsed from a file
       that begins with a section header, e = parsed from a file WITHOUT any key (comment and blank lines only), u = parsed from a file that defines keys twice, n = made by
       econf_newKeyFile_with_options (no tags: direct only), i = econf_newIniFile; none = econf_newKeyFile */
    { const char *m = ARG(2); if (*m == 'o') m++;
      parsed = *m == 'p';
      if (*m == 'e' || *m == 'n' || *m == 'i' || *m == 'u') {
        econf_err be = 0;
        if (*m == 'u') {          /* parsed from a file that defines the first keys of the matrix TWICE each (the setter and the getter of a key
                                     defined twice both mean its first definition) */
          char *bp; if (asprintf(&bp, "%s/rtm-dup.conf", dir) < 0) bp = NULL; mkparent(bp);
          const char *txt = "k3=1\nk3=2\n[a]\nk0=1\nk0=2\n[g1]\nk1=5\nk1=6\n[grp22]\nk2=1\nk2=2\n";
          wfile(bp, txt, strlen(txt)); be = econf_readFile(&kf, bp, "=", "#"); free(bp); }
        else if (*m == 'e') { char *bp; if (asprintf(&bp, "%s/rtm-empty.conf", dir) < 0) bp = NULL; mkparent(bp);
          wfile(bp, "# nothing but a comment\n\n", 25); be = econf_readFile(&kf, bp, "=", "#"); free(bp); }
        else if (*m == 'n') be = econf_newKeyFile_with_options(&kf, "");
        else be = econf_newIniFile(&kf);
        if (be) { fprintf(o, "{\"op\":\"rtlist\",\"T\":\"%s\",\"mode\":\"%s+matrix\",\"count\":0,\"bad\":1,\"firstbad\":\"0\"}\n", T, ARG(2)); free(dir); return 0; }
        parsed = 0; goto have_obj; } }
    if (parsed) {       /* the object the values are set on stems from a file that BEGINS with a section header */
      char *bp; if (asprintf(&bp, "%s/rtm-base.conf", dir) < 0) bp = NULL; mkparent(bp);
      wfile(bp, "[g1]\nseed=1\n[other]\nx=y\n", 24);
      econf_err be = econf_readFile(&kf, bp, "=", "#"); free(bp);
      if (be) { free(dir); return 0; }
    } else if (econf_newKeyFile(&kf, '=', '#')) { free(dir); return 0; }
  have_obj:;
    int nv = nt - 4; econf_err es = 0;
    /* mode with 'o' in front ("odirect", "ofile", "opdirect", "opfile"): every key is set a SECOND time before the reading round,
       to a value whose decimal text is a proper prefix of the first one's where there is one (v / 100, v / 10): a setter
       replaces whatever the key held */
    int ow = ARG(2)[0] == 'o';
    for (int ph = 0; ph < 3; ph++) {            /* phase 0: set all; phase 1: set all again (overwrite mode); phase 2: get all */
      if (ph == 1 && !ow) continue;
      int round = ph == 2;
      econf_file *q = kf;
      if (round == 1 && viafile) { es = econf_writeFile(kf, dir, "rtm.conf"); char *pp; if (asprintf(&pp, "%s/rtm.conf", dir) < 0) pp = NULL;
        if (!es) es = econf_readFile(&rd, pp, "=", "#"); free(pp); q = rd; }
      for (int a = 0; a < nv; a++) {
        uint64_t b = strtoull(t[4 + a], NULL, 16); char g[16], k[16]; const char *gp = g; int ok = 1; econf_err e2 = 0;
        if (ow && ph >= 1) {       /* the second value of this key */
          if (!strcmp(T, "Int")) b = (uint64_t)(uint32_t)((int32_t)(uint32_t)b / 100);
          else if (!strcmp(T, "UInt")) b = (uint32_t)b / 100;
          else if (!strcmp(T, "Int64")) b = (uint64_t)((int64_t)b / 100);
          else if (!strcmp(T, "UInt64")) b = b / 100;
          else if (!strcmp(T, "Float")) { float v; uint32_t bb = (uint32_t)b; memcpy(&v, &bb, 4); if (v == v && v - v == 0) { v = (v > -1e9f && v < 1e9f) ? (float)(long)v : v / 10; memcpy(&bb, &v, 4); b = bb; } }
          else if (!strcmp(T, "Double")) { double v; memcpy(&v, &b, 8); if (v == v && v - v == 0) { v = (v > -1e15 && v < 1e15) ? (double)(long)v : v / 10; memcpy(&b, &v, 8); } }
          else if (!strcmp(T, "Bool")) b = !(b & 1);
        }
        /* section names of 1, 2 and 5 characters; the setter and the getter each use the bare or the bracketed form ("[a]"), in all
           four combinations: both forms name the same section whatever its length */
        /* (the fourth name differs from the second in letter case only: another section) */
        { static const char *const gn[4] = { "a", "g1", "grp22", "G1" }; int br = round ? (a / 4) % 4 < 2 : (a / 4) % 2 == 0;
          snprintf(g, sizeof g, br ? "[%s]" : "%s", gn[a % 4]); }
        snprintf(k, sizeof k, "k%d", a); if (a % 7 == 3) gp = (a % 14 == 3) ? NULL : "";      /* no section: NULL and "" in turn */
        if (a == 5 || a == 10) snprintf(k, sizeof k, "_none_");      /* a key like any other (two sections; a == 10: group-less) */
        if (!strcmp(T, "Int")) { int32_t v = (int32_t)(uint32_t)b, r = 0; if (!round) e2 = econf_setIntValue(kf, gp, k, v); else { e2 = es ? es : econf_getIntValue(q, gp, k, &r); ok = !e2 && r == v; } }
        else if (!strcmp(T, "UInt")) { uint32_t v = (uint32_t)b, r = 0; if (!round) e2 = econf_setUIntValue(kf, gp, k, v); else { e2 = es ? es : econf_getUIntValue(q, gp, k, &r); ok = !e2 && r == v; } }
        else if (!strcmp(T, "Int64")) { int64_t v = (int64_t)b, r = 0; if (!round) e2 = econf_setInt64Value(kf, gp, k, v); else { e2 = es ? es : econf_getInt64Value(q, gp, k, &r); ok = !e2 && r == v; } }
        else if (!strcmp(T, "UInt64")) { uint64_t v = b, r = 0; if (!round) e2 = econf_setUInt64Value(kf, gp, k, v); else { e2 = es ? es : econf_getUInt64Value(q, gp, k, &r); ok = !e2 && r == v; } }
        else if (!strcmp(T, "Float")) { float v, r = 0; uint32_t bb = (uint32_t)b, rb; memcpy(&v, &bb, 4); if (!round) e2 = econf_setFloatValue(kf, gp, k, v); else { e2 = es ? es : econf_getFloatValue(q, gp, k, &r); memcpy(&rb, &r, 4); ok = !e2 && (rb == bb || (v != v && r != r)); } }
        else if (!strcmp(T, "Double")) { double v, r = 0; uint64_t rb; memcpy(&v, &b, 8); if (!round) e2 = econf_setDoubleValue(kf, gp, k, v); else { e2 = es ? es : econf_getDoubleValue(q, gp, k, &r); memcpy(&rb, &r, 8); ok = !e2 && (rb == b || (v != v && r != r)); } }
        else if (!strcmp(T, "Bool")) { bool v = b & 1, r = !v; if (!round) e2 = econf_setBoolValue(kf, gp, k, v ? "yes" : "No"); else { e2 = es ? es : econf_getBoolValue(q, gp, k, &r); ok = !e2 && r == v; } }
        if (!round && e2) ok = 0;
        if (round || !ok) { if (round) count++; if (!ok) { if (!bad) firstbad = b; bad++; } }
      }
    }
    econf_freeFile(kf); econf_freeFile(rd);
    fprintf(o, "{\"op\":\"rtlist\",\"T\":\"%s\",\"mode\":\"%s+matrix\",\"count\":%" PRIu64 ",\"bad\":%" PRIu64 ",\"firstbad\":\"%" PRIx64 "\"}\n", T, ARG(2), count, bad, firstbad);
    free(dir); return 0; }

  /* ----- rtlist <T> <mode> <dir> <hex>... : typed round trip of listed bit patterns (C08) ----- */
  if (!strcmp(op, "rtlist")) {
    const char *T = ARG(1); int viafile = !strcmp(ARG(2), "file"); char *dir = tokstr(ARG(3), NULL);
    uint64_t count = 0, bad = 0, firstbad = 0; econf_file *kf = NULL;
    if (econf_newKeyFile(&kf, '=', '#')) { free(dir); return 0; }
    for (int a = 4; a < nt; a++) {
      uint64_t b = strtoull(t[a], NULL, 16); int ok = 1; econf_file *q = kf, *rd = NULL; econf_err es = 0, eg = 0;
#define VIA2() do { if (viafile) { es = es ? es : econf_writeFile(kf, dir, "rt.conf"); char *pp; if (asprintf(&pp, "%s/rt.conf", dir) < 0) pp = NULL; \
                     if (!es) es = econf_readFile(&rd, pp, "=", "#"); free(pp); q = rd; } } while (0)
      if (!strcmp(T, "Int")) { int32_t v = (int32_t)(uint32_t)b, r = 0; es = econf_setIntValue(kf, "s", "k", v); VIA2(); if (!es) eg = econf_getIntValue(q, "s", "k", &r); ok = !es && !eg && r == v; }
      else if (!strcmp(T, "UInt")) { uint32_t v = (uint32_t)b, r = 0; es = econf_setUIntValue(kf, "s", "k", v); VIA2(); if (!es) eg = econf_getUIntValue(q, "s", "k", &r); ok = !es && !eg && r == v; }
      else if (!strcmp(T, "Int64")) { int64_t v = (int64_t)b, r = 0; es = econf_setInt64Value(kf, "s", "k", v); VIA2(); if (!es) eg = econf_getInt64Value(q, "s", "k", &r); ok = !es && !eg && r == v; }
      else if (!strcmp(T, "UInt64")) { uint64_t v = b, r = 0; es = econf_setUInt64Value(kf, "s", "k", v); VIA2(); if (!es) eg = econf_getUInt64Value(q, "s", "k", &r); ok = !es && !eg && r == v; }
      else if (!strcmp(T, "Float")) { float v, r = 0; uint32_t bb = (uint32_t)b, rb; memcpy(&v, &bb, 4); es = econf_setFloatValue(kf, "s", "k", v); VIA2(); if (!es) eg = econf_getFloatValue(q, "s", "k", &r);
        memcpy(&rb, &r, 4); ok = !es && !eg && (rb == bb || (v != v && r != r)); }
      else if (!strcmp(T, "Double")) { double v, r = 0; uint64_t rb; memcpy(&v, &b, 8); es = econf_setDoubleValue(kf, "s", "k", v); VIA2(); if (!es) eg = econf_getDoubleValue(q, "s", "k", &r);
        memcpy(&rb, &r, 8); ok = !es && !eg && (rb == b || (v != v && r != r)); }
      if (rd) econf_freeFile(rd);
      count++; if (!ok) { if (!bad) firstbad = b; bad++; }
    }
    econf_freeFile(kf);
    fprintf(o, "{\"op\":\"rtlist\",\"T\":\"%s\",\"mode\":\"%s\",\"count\":%" PRIu64 ",\"bad\":%" PRIu64 ",\"firstbad\":\"%" PRIx64 "\"}\n", T, ARG(2), count, bad, firstbad);
    free(dir); return 0; }

  /* ----- threads (C18):  threads <n> <file1> ... : each file is a script run by its own thread with a private ctx;
         outputs go to <file>.out ----- */
  if (!strcmp(op, "threads")) {   /* threads <n> <schedule|-> <script1> ... : schedule = x<hex> string of thread digits */
    int n = atoi(ARG(1)); pthread_t th[64]; struct thr_arg *a = calloc((size_t)n, sizeof *a);
    char *sc = tokstr(ARG(2), NULL); free(sched); sched = NULL; sched_len = 0; sched_pos = 0;
    if (sc && *sc) { sched_len = (int)strlen(sc); sched = malloc(sizeof(int) * (size_t)sched_len); for (int i = 0; i < sched_len; i++) sched[i] = sc[i] - '0'; }
    free(sc);
    for (int i = 0; i < n && i < 64; i++) {
      a[i].id = i;
      char *p = tokstr(ARG(3 + i), NULL); FILE *f = fopen(p, "rb"); size_t cap = 1 << 16, len = 0; char *buf = malloc(cap);
      if (f) { size_t r; while ((r = fread(buf + len, 1, cap - len - 1, f)) > 0) { len += r; if (cap - len < 2) { cap *= 2; buf = realloc(buf, cap); } } fclose(f); }
      buf[len] = 0; a[i].script = buf; a[i].c.cookie = 0x5eed; a[i].c.tid = i;
      char *op2; if (asprintf(&op2, "%s.out", p) < 0) op2 = NULL; a[i].c.out = fopen(op2, "w"); free(op2); free(p);
    }
    for (int i = 0; i < n && i < 64; i++) pthread_create(&th[i], NULL, thr_main, &a[i]);
    for (int i = 0; i < n && i < 64; i++) { pthread_join(th[i], NULL); cb_reset(&a[i].c); fclose(a[i].c.out); free(a[i].script); }
    free(a); fprintf(o, "{\"op\":\"threads\",\"n\":%d}\n", n); return 0; }

  fprintf(o, "{\"op\":\"unknown\",\"cmd\":\"%s\"}\n", op);
  return 0;
}

static void on_alarm(int sig) {
  (void)sig;
  const char *m = "\n{\"op\":\"timeout\"}\n"; ssize_t r = write(1, m, strlen(m)); (void)r; _exit(3);
}

static void *interp(void *unused) {
  (void)unused;
  char *line = NULL; size_t cap = 0; ssize_t n;
  while ((n = getline(&line, &cap, stdin)) > 0) {
    if (line[n - 1] == '\n') line[n - 1] = 0;
    char *t[MAXTOK]; int nt = 0; char *save = NULL;
    for (char *tk = strtok_r(line, " \t", &save); tk && nt < MAXTOK; tk = strtok_r(NULL, " \t", &save)) t[nt++] = tk;
    if (!nt || t[0][0] == '#') continue;
    if (run_cmd(&main_ctx, t, nt)) break;
  }
  free(line); free(watch_case); cb_reset(&main_ctx);
  return NULL;
}

int main(int argc, char **argv) {
  (void)argc; (void)argv;
  static char obuf[1 << 16];
  setvbuf(stdout, obuf, _IOLBF, sizeof obuf);
  signal(SIGALRM, on_alarm);
  umask(022);
  main_ctx.out = stdout; main_ctx.cookie = 0x5eed;
  if (getenv("DRV_ROOT")) { drv_root = getenv("DRV_ROOT"); mkdirs(drv_root); }
  if (getenv("DRV_STACK_KB")) {
    /* the whole script is interpreted by a thread with a SMALL stack: what the library puts on the stack must not grow with the
       length of its input (a daemon's worker threads have stacks of a few hundred KiB) */
    pthread_attr_t at; pthread_t th; pthread_attr_init(&at);
    pthread_attr_setstacksize(&at, (size_t)atol(getenv("DRV_STACK_KB")) * 1024);
    if (pthread_create(&th, &at, interp, NULL)) { perror("pthread_create"); return 3; }
    pthread_join(th, NULL);
    return 0;
  }
  interp(NULL);
  return 0;
}
