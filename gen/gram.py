"""Random generator of CONVENTIONAL configuration files (DESIGN.md 5.1 / 5.2) as ABSTRACT lines
in the record format of spec/Grammar.tla.  It only proposes inputs: whether a line is
conventional (AbsOk), what it renders to (Render1) and what it means (MStep) is decided by
TLC in Trace_Parser.tla; a proposal outside the grammar is reported as a tool failure, never
as a violation."""
import random

BL = " \t"
DELIMS = ["=", ":=", " ", " \t", " =", "\t =", ""]
COMMENTS = ["#", ";", "#;"]
PRINT = [chr(c) for c in range(33, 127)]


def cds(s):
    return [ord(c) for c in s]


def dclass(D):
    if D == "":
        return "NONE"
    w = any(c in BL for c in D)
    n = any(c not in BL for c in D)
    return "MIXED" if (w and n) else ("BLANK" if w else "NONBLANK")


def rblanks(r, lo=0, hi=3):
    return "".join(r.choice(BL) for _ in range(r.randint(lo, hi)))


def rtext(r, pool, lo, hi):
    return "".join(r.choice(pool) for _ in range(r.randint(lo, hi)))


def line(t, ind="", key="", sep="", val="", q=False, tw="", tcc="", tct=""):
    return {"t": t, "ind": cds(ind), "key": cds(key) if t != "bad" else key, "sep": cds(sep), "val": cds(val),
            "q": q, "tw": cds(tw), "tcc": cds(tcc), "tct": cds(tct)}


def render(l):
    t = l["t"]
    u = lambda x: "".join(chr(c) for c in x)
    if t == "blank":
        return u(l["ind"])
    if t == "comment":
        return u(l["ind"]) + u(l["tcc"]) + u(l["tct"])
    if t == "header":
        return u(l["ind"]) + "[" + u(l["key"]) + "]" + u(l["tw"])
    if t == "entry":
        v = u(l["val"])
        return u(l["ind"]) + u(l["key"]) + u(l["sep"]) + ('"' + v + '"' if l["q"] else v) + u(l["tw"]) + u(l["tcc"]) + u(l["tct"])
    if t == "cont":
        return u(l["ind"]) + u(l["val"]) + u(l["tw"]) + u(l["tcc"]) + u(l["tct"])
    if t == "keyonly":
        return u(l["ind"]) + u(l["key"]) + u(l["tw"])
    if t == "bad":
        return u(l["val"])
    raise ValueError(t)


class Gen:
    def __init__(s, r, D, C, python=False, join=False):
        s.r, s.D, s.C, s.cls, s.python, s.join = r, D, C, dclass(D), python, join
        s.keypool = [c for c in PRINT if c not in D and c not in C and c not in '"[]']
        s.valpool = [c for c in PRINT if c not in C] + [" ", " ", "\t"]
        s.compool = PRINT + [" ", " ", "\t"]
        s.tcompool = [c for c in PRINT if c not in C and c != '"'] + [" "]
        s.secpool = [c for c in PRINT if c not in C and c not in '[]"'] + [" "]
        s.keys = None

    def key(s):
        r = s.r
        if s.keys and r.random() < 0.6:
            return r.choice(s.keys)
        if s.cls == "NONE" and r.random() < 0.3:
            return rtext(r, s.keypool, 1, 4) + " " + rtext(r, s.keypool, 1, 4)
        return rtext(r, s.keypool, 1, 6)

    def sep(s):
        r, D = s.r, s.D
        if s.cls == "NONBLANK":
            return rblanks(r) + r.choice(D) + rblanks(r)
        if s.cls == "BLANK":
            n = r.randint(1, 3)
            t = [r.choice(BL) for _ in range(n)]
            if not any(c in D for c in t):
                t[r.randrange(n)] = r.choice([c for c in D])
            return "".join(t)
        nb = [c for c in D if c not in BL]
        if r.random() < 0.5:
            return rblanks(r) + r.choice(nb) + rblanks(r)
        return rblanks(r, 1, 3)

    def value(s, sep):
        """(text, quoted)"""
        r = s.r
        x = r.random()
        if x < 0.15:
            return "", False
        if x < 0.19:
            # a text the library itself uses as a marker or word: an ordinary value like any other (plain and quoted)
            return r.choice(["_none_", "(null)", "true", "NULL", "100%", "%s", "%%", "%n%d"]), (r.random() < 0.3 and not s.join)
        if x < 0.45 and not s.join:
            pool = s.valpool + list(s.C)
            if s.python:
                pool = [c for c in pool if c != '"']
            inner = rtext(r, pool, 0, 6)
            if r.random() < 0.3:
                inner = " " + inner + "  "
            return inner, True
        pool = s.valpool + (list(s.C) if s.python else [])
        nb = [c for c in s.D if c not in BL]
        for _ in range(200):
            t = rtext(r, pool, 1, 8).strip(BL)
            if t == "" or t[0] == '"':
                continue
            if s.cls == "MIXED" and sep.strip(BL) == "" and t[0] in nb:
                continue
            if s.python and t[0] in s.D:
                continue
            return t, False
        return "v", False

    def tcomment(s):
        r = s.r
        if s.python or s.cls == "NONE" or r.random() < 0.6:
            return "", ""
        return r.choice(s.C), rtext(r, s.tcompool, 0, 6)

    def conttext(s):
        r = s.r
        if s.python:
            pool = s.valpool + list(s.C) + [c for c in s.D if c not in BL]
        elif s.cls == "NONBLANK":
            pool = [c for c in s.valpool if c not in s.D]
        else:
            pool = [c for c in s.valpool if c not in s.D and c not in BL] + [c for c in BL if c not in s.D]
        for _ in range(200):
            t = rtext(r, pool, 1, 8).strip(BL)
            if t == "" or t[0] == '[' or t[0] in s.C or (s.join and t[0] == '"'):
                continue
            if r.random() < 0.12 and not s.python and not s.join:
                t = '"' + t           # a quoted text that starts on a continuation line (the JOIN grammar has unquoted values only)
            return t
        return "w"


BADS = [("[abc", "ECONF_MISSING_BRACKET"), ("[abc] x", "ECONF_TEXT_AFTER_SECTION"), ("[]", "ECONF_EMPTY_SECTION_NAME"),
        ("[ ]x", "ECONF_TEXT_AFTER_SECTION"), ("  [ab cd", "ECONF_MISSING_BRACKET"),
        ("[a]]b", "ECONF_TEXT_AFTER_SECTION"),
        # a carriage return in the MIDDLE of a line is a blank like any other: what follows it is still part of the line
        ("[abc]\rx=1", "ECONF_TEXT_AFTER_SECTION"), ("[ab\rcd", "ECONF_MISSING_BRACKET")]


def random_file(r, maxlines, opt="none", bad_rate=0.0, single_line=False, comment_heavy=False, D=None, C=None):
    python = opt == "python"
    join = opt == "join"
    if D is None:
        D = r.choice(["=", ":=", " "]) if python else (r.choice(["=", ":="]) if join else r.choice(DELIMS))
    if C is None:
        C = r.choice(COMMENTS)
    g = Gen(r, D, C, python, join)
    if join:
        g.keys = ["k%d" % i for i in range(3)]
    n = r.randint(1, maxlines)
    abs_ = []
    bad_at = r.randrange(n) if r.random() < bad_rate else -1
    prev = None
    used_secs = []
    pc = 0.45 if comment_heavy else 0.2
    while len(abs_) < n:
        if len(abs_) == bad_at:
            cand = list(BADS)
            if g.cls == "NONBLANK" and (prev is None or prev["t"] not in ("entry", "cont")):
                cand.append(("key text", "ECONF_MISSING_DELIMITER"))
                cand.append(("key\rtext", "ECONF_MISSING_DELIMITER"))
            raw, code = r.choice(cand)
            # text after the header of the section that is OPEN at this point (a header that re-opens the current section
            # is a header like any other)
            if used_secs and r.random() < 0.3:
                raw, code = "[%s]%s" % (used_secs[-1], r.choice([" oops", "x", " = 1"])), "ECONF_TEXT_AFTER_SECTION"
            if any(c in raw for c in C):
                raw, code = "[abc", "ECONF_MISSING_BRACKET"
            l = line("bad", key=code, val=raw)
            abs_.append(l); prev = l
            continue
        x = r.random()
        if x < 0.12:
            l = line("blank", ind=rblanks(r))
        elif x < 0.12 + pc:
            l = line("comment", ind=rblanks(r), tcc=r.choice(C), tct=rtext(r, g.compool, 0, 10))
        elif x < 0.12 + pc + 0.12:
            name = rtext(r, [c for c in g.secpool if c != "\t"], 1, 5).strip(BL) or "s"
            if join:
                name = r.choice(["A", "B"])
            elif r.random() < 0.3:
                name = r.choice(["A", "B", "AB", "C c", "az", "bY"])     # the names the API histories ask for (one a prefix of another; az / bY: equal djb2 hashes)
            elif used_secs and r.random() < 0.5:
                name = r.choice(used_secs)          # re-open an earlier section
            used_secs.append(name)
            l = line("header", ind=rblanks(r), key=name, tw=rblanks(r))
        elif g.cls == "NONE":
            l = line("keyonly", ind=rblanks(r), key=g.key(), tw=rblanks(r))
        else:
            can_cont = (not single_line) and g.cls in ("NONBLANK", "BLANK") and prev is not None and \
                (prev["t"] == "cont" or (prev["t"] == "entry" and not prev["q"]))
            if can_cont and r.random() < 0.45:
                tcc, tct = g.tcomment() if g.cls == "NONBLANK" else ("", "")
                tw = "" if (g.cls == "BLANK") else rblanks(r, 0, 2)
                l = line("cont", ind=rblanks(r, 1, 3), val=g.conttext(), tw=tw, tcc=tcc, tct=tct)
            else:
                sp = g.sep()
                v, q = g.value(sp)
                tcc, tct = g.tcomment()
                l = line("entry", ind="" if python else rblanks(r), key=g.key(), sep=sp, val=v, q=q, tw=rblanks(r), tcc=tcc, tct=tct)
        abs_.append(l); prev = l
    return {"par": {"delim": cds(D), "comment": cds(C), "python": python, "join": join},
            "abs": abs_, "lines": [cds(render(l)) for l in abs_]}


def comment_is_hard(a, par):
    t = "".join(chr(c) for c in a["tct"])
    D = "".join(chr(c) for c in par["delim"])
    C = "".join(chr(c) for c in par["comment"])
    return bool(a["ind"]) or any(c in t for c in C + D + '"[]')
