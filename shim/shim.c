/* Trace shim for the repository's own test programs (DESIGN.md 4.4): the test is linked with
 *   -Wl,--wrap=<every public function below>
 * against ONE pre-linked relocatable object of /repo/lib/*.c, so that only the calls the TEST makes go
 * through the wrappers (calls inside the library are already resolved).  Every wrapper logs one ndjson
 * record at the public call's return - the linearisation point of a sequential library - with the
 * arguments, the result and, after calls that create or change an object, the object's full projection
 * through the (real, unlogged) public getters.  Before a reading call the files it may consult are
 * snapshotted as they are on disk at that moment, so the specification predicts the result from the
 * same bytes.  Nothing in /repo is changed; the trace goes to $ECONF_TRACE (append).
 * Strings are logged as hex ("x6162"), NULL as null. */
#define _GNU_SOURCE
#include <dirent.h>
#include <inttypes.h>
#include <limits.h>
#include <stdbool.h>
#include <stdio.h>
#include <stdlib.h>
#include <string.h>
#include <sys/stat.h>
#include <unistd.h>
#include "libeconf.h"
#include "libeconf_ext.h"

#define R(ret, name, ...) extern ret __real_##name(__VA_ARGS__)
R(econf_err, econf_readFile, econf_file **, const char *, const char *, const char *);
R(econf_err, econf_readFileWithCallback, econf_file **, const char *, const char *, const char *, bool (*)(const char *, const void *), const void *);
R(econf_err, econf_mergeFiles, econf_file **, econf_file *, econf_file *);
R(econf_err, econf_readConfig, econf_file **, const char *, const char *, const char *, const char *, const char *, const char *);
R(econf_err, econf_readConfigWithCallback, econf_file **, const char *, const char *, const char *, const char *, const char *, const char *, bool (*)(const char *, const void *), const void *);
R(econf_err, econf_readDirs, econf_file **, const char *, const char *, const char *, const char *, const char *, const char *);
R(econf_err, econf_readDirsWithCallback, econf_file **, const char *, const char *, const char *, const char *, const char *, const char *, bool (*)(const char *, const void *), const void *);
R(econf_err, econf_readDirsHistory, econf_file ***, size_t *, const char *, const char *, const char *, const char *, const char *, const char *);
R(econf_err, econf_readDirsHistoryWithCallback, econf_file ***, size_t *, const char *, const char *, const char *, const char *, const char *, const char *, bool (*)(const char *, const void *), const void *);
R(econf_err, econf_newKeyFile, econf_file **, char, char);
R(econf_err, econf_newKeyFile_with_options, econf_file **, const char *);
R(econf_err, econf_newIniFile, econf_file **);
R(void, econf_set_comment_tag, econf_file *, const char);
R(void, econf_set_delimiter_tag, econf_file *, const char);
R(econf_err, econf_writeFile, econf_file *, const char *, const char *);
R(econf_err, econf_getGroups, econf_file *, size_t *, char ***);
R(econf_err, econf_getKeys, econf_file *, const char *, size_t *, char ***);
R(econf_err, econf_getStringValue, econf_file *, const char *, const char *, char **);
R(econf_err, econf_getStringValueDef, econf_file *, const char *, const char *, char **, char *);
R(econf_err, econf_getIntValue, econf_file *, const char *, const char *, int32_t *);
R(econf_err, econf_getInt64Value, econf_file *, const char *, const char *, int64_t *);
R(econf_err, econf_getUIntValue, econf_file *, const char *, const char *, uint32_t *);
R(econf_err, econf_getUInt64Value, econf_file *, const char *, const char *, uint64_t *);
R(econf_err, econf_getBoolValue, econf_file *, const char *, const char *, bool *);
R(econf_err, econf_getFloatValue, econf_file *, const char *, const char *, float *);
R(econf_err, econf_getDoubleValue, econf_file *, const char *, const char *, double *);
R(econf_err, econf_setStringValue, econf_file *, const char *, const char *, const char *);
R(econf_err, econf_setIntValue, econf_file *, const char *, const char *, int32_t);
R(econf_err, econf_setInt64Value, econf_file *, const char *, const char *, int64_t);
R(econf_err, econf_setUIntValue, econf_file *, const char *, const char *, uint32_t);
R(econf_err, econf_setUInt64Value, econf_file *, const char *, const char *, uint64_t);
R(econf_err, econf_setBoolValue, econf_file *, const char *, const char *, const char *);
R(econf_err, econf_setFloatValue, econf_file *, const char *, const char *, float);
R(econf_err, econf_setDoubleValue, econf_file *, const char *, const char *, double);
R(econf_err, econf_getExtValue, econf_file *, const char *, const char *, econf_ext_value **);
R(econf_file *, econf_freeFile, econf_file *);
R(void, econf_errLocation, char **, uint64_t *);
R(econf_err, econf_set_conf_dirs, const char **);
R(void, econf_requireOwner, uid_t);
R(void, econf_requireGroup, gid_t);
R(void, econf_requirePermissions, mode_t, mode_t);
R(void, econf_followSymlinks, bool);
R(void, econf_reset_security_settings, void);

static FILE *tf;
static void tinit(void) {
  if (tf) return;
  const char *p = getenv("ECONF_TRACE");
  tf = fopen(p ? p : "/dev/null", "a");
  if (!tf) tf = fopen("/dev/null", "a");
  setvbuf(tf, NULL, _IOLBF, 1 << 16);
}
static void hx(const char *s) {
  if (!s) { fputs("null", tf); return; }
  fputs("\"x", tf);
  for (const unsigned char *p = (const unsigned char *)s; *p; p++) fprintf(tf, "%02x", *p);
  fputc('"', tf);
}
static void hxn(const unsigned char *s, size_t n) {
  fputs("\"x", tf);
  for (size_t i = 0; i < n; i++) fprintf(tf, "%02x", s[i]);
  fputc('"', tf);
}
static const char *ename(econf_err e) {
  static const char *n[] = {"ECONF_SUCCESS", "ECONF_ERROR", "ECONF_NOMEM", "ECONF_NOFILE", "ECONF_NOGROUP", "ECONF_NOKEY", "ECONF_EMPTYKEY",
    "ECONF_WRITEERROR", "ECONF_PARSE_ERROR", "ECONF_MISSING_BRACKET", "ECONF_MISSING_DELIMITER", "ECONF_EMPTY_SECTION_NAME", "ECONF_TEXT_AFTER_SECTION",
    "ECONF_FILE_LIST_IS_NULL", "ECONF_WRONG_BOOLEAN_VALUE", "ECONF_KEY_HAS_NULL_VALUE", "ECONF_WRONG_OWNER", "ECONF_WRONG_GROUP", "ECONF_WRONG_FILE_PERMISSION",
    "ECONF_WRONG_DIR_PERMISSION", "ECONF_ERROR_FILE_IS_SYM_LINK", "ECONF_PARSING_CALLBACK_FAILED", "ECONF_ARGUMENT_IS_NULL_VALUE", "ECONF_OPTION_NOT_FOUND", "ECONF_VALUE_CONVERSION_ERROR"};
  return ((unsigned)e < sizeof n / sizeof *n) ? n[e] : "ECONF_?";
}

/* ---- handles: object pointer -> small integer ---- */
#define NH 64
static econf_file *hp[NH];
static int hid(econf_file *p) { if (!p) return 0; for (int i = 1; i < NH; i++) if (hp[i] == p) return i; return -1; }
static int hnew(econf_file *p) {
  if (!p) return 0;
  int i = hid(p); if (i > 0) return i;
  for (i = 1; i < NH; i++) if (!hp[i]) { hp[i] = p; return i; }
  return -1;
}
static void hdrop(econf_file *p) { int i = hid(p); if (i > 0) hp[i] = NULL; }

/* ---- projection of an object through the real getters ---- */
static void dump(int h, econf_file *kf) {
  if (!kf || h <= 0) return;
  size_t ng = 0; char **groups = NULL;
  econf_err e = __real_econf_getGroups(kf, &ng, &groups);
  if (e) { ng = 0; groups = NULL; }
  fprintf(tf, "{\"e\":\"dump\",\"h\":%d,\"groups\":[", h);
  for (size_t i = 0; i < ng; i++) { if (i) fputc(',', tf); hx(groups[i]); }
  fputs("],\"ents\":[", tf);
  int first = 1;
  for (size_t gi = 0; gi <= ng; gi++) {
    const char *g = gi == 0 ? NULL : groups[gi - 1];
    size_t nk = 0; char **keys = NULL;
    if (__real_econf_getKeys(kf, g, &nk, &keys)) continue;
    for (size_t k = 0; k < nk; k++) {
      char *v = NULL; econf_err ev = __real_econf_getStringValue(kf, g, keys[k], &v);
      if (!first) fputc(',', tf);
      first = 0;
      fputs("{\"g\":", tf); hx(g); fputs(",\"k\":", tf); hx(keys[k]); fputs(",\"v\":", tf); hx(ev ? NULL : v); fputc('}', tf);
      free(v);
    }
    econf_freeArray(keys);
  }
  char *p = econf_getPath(kf);
  fputs("],\"path\":", tf); hx(p); free(p);
  fputs("}\n", tf);
  if (groups) econf_freeArray(groups);
}

/* ---- snapshots of what is on disk ---- */
static void snap_file(const char *path) {
  struct stat st;
  if (!path) return;
  if (stat(path, &st) != 0 || !(S_ISREG(st.st_mode) || S_ISCHR(st.st_mode))) {
    struct stat ls; int dangling = lstat(path, &ls) == 0 && S_ISLNK(ls.st_mode);
    fputs("{\"e\":\"nofile\",\"path\":", tf); hx(path); fprintf(tf, ",\"isdir\":%s,\"dangling\":%s}\n", (stat(path, &st) == 0 && S_ISDIR(st.st_mode)) ? "true" : "false", dangling ? "true" : "false");
    return;
  }
  unsigned char *buf = NULL; size_t len = 0;
  if (S_ISREG(st.st_mode)) {
    FILE *f = fopen(path, "rb");
    if (f) { buf = malloc((size_t)st.st_size + 1); len = buf ? fread(buf, 1, (size_t)st.st_size, f) : 0; fclose(f); }
  }
  fputs("{\"e\":\"file\",\"path\":", tf); hx(path); fputs(",\"data\":", tf); hxn(buf ? buf : (const unsigned char *)"", len); fputs("}\n", tf);
  free(buf);
}
static void snap_dir(const char *dir) {            /* every entry directly inside dir (the suffix rule is the specification's business) */
  fputs("{\"e\":\"dirsnap\",\"dir\":", tf); hx(dir); fputs("}\n", tf);
  struct dirent **de; int n = scandir(dir, &de, NULL, alphasort);
  for (int i = 0; i < n; i++) {
    if (strcmp(de[i]->d_name, ".") && strcmp(de[i]->d_name, "..")) {
      char *p; if (asprintf(&p, "%s/%s", dir, de[i]->d_name) >= 0) { struct stat st; if (stat(p, &st) == 0 && !S_ISDIR(st.st_mode)) snap_file(p); free(p); }
    }
    free(de[i]);
  }
  if (n >= 0) free(de);
}
static void snap_tree(const char *dir, int depth) {      /* every regular file below dir */
  struct dirent **de; int n = scandir(dir, &de, NULL, alphasort);
  for (int i = 0; i < n; i++) {
    if (strcmp(de[i]->d_name, ".") && strcmp(de[i]->d_name, "..")) {
      char *p; if (asprintf(&p, "%s/%s", dir, de[i]->d_name) >= 0) {
        struct stat st;
        if (stat(p, &st) == 0 && S_ISDIR(st.st_mode)) { if (depth < 3) snap_tree(p, depth + 1); }
        else snap_file(p);
        free(p); }
    }
    free(de[i]);
  }
  if (n >= 0) free(de);
}
/* everything in dir whose name starts with name: the main file <name><.suffix> and whatever drop-in directories
   (<name><.suffix>.d, <name>.d, <name>/conf.d ... - which of them count is the specification's business) */
static void snap_prefix(const char *dir, const char *name) {
  if (!dir || !name || !*name) return;
  char *pre; if (asprintf(&pre, "%s/%s", dir, name) < 0) return;
  fputs("{\"e\":\"forget\",\"prefix\":", tf); hx(pre); fputs("}\n", tf); free(pre);
  struct dirent **de; int n = scandir(dir, &de, NULL, alphasort);
  size_t ln = strlen(name);
  for (int i = 0; i < n; i++) {
    if (!strncmp(de[i]->d_name, name, ln)) {
      char *p; if (asprintf(&p, "%s/%s", dir, de[i]->d_name) >= 0) {
        struct stat st;
        if (stat(p, &st) == 0 && S_ISDIR(st.st_mode)) snap_tree(p, 0); else snap_file(p);
        free(p); }
    }
    free(de[i]);
  }
  if (n >= 0) free(de);
}
static char *hopt[64];        /* option string an object was created with (econf_newKeyFile_with_options) */
/* econf_readConfig*: candidate directories = every PARSING_DIRS element and <root>/<usr>, <root>/run, <root>/etc
   (with and without the project subdirectory) for every ROOT_PREFIX given and for no prefix: a superset of what the
   library consults; which of them it is allowed to consult is decided by the specification */
static void snap_config(const char *opt, const char *prj, const char *usr, const char *name) {
  const char *roots[8] = {""}; int nr = 1; char *copy = opt ? strdup(opt) : NULL, *in = copy, *it;
  while (copy && (it = strsep(&in, ";")) != NULL) {
    if (!strncmp(it, "ROOT_PREFIX=", 12) && nr < 8) roots[nr++] = it + 12;
    if (!strncmp(it, "PARSING_DIRS=", 13)) { char *c2 = strdup(it + 13), *i2 = c2, *d; while ((d = strsep(&i2, ":")) != NULL) { snap_prefix(d, name); snap_prefix(d, prj); } free(c2); }
  }
  const char *subs[3] = {usr ? usr : "", "/run", "/etc"};
  for (int r = 0; r < nr; r++) for (int k = 0; k < 3; k++) {
    char *d;
    if (asprintf(&d, "%s%s%s", roots[r], (*roots[r] && subs[k][0] != '/') ? "/" : "", subs[k]) < 0) continue;
    if (*d) { snap_prefix(d, name); snap_prefix(d, prj); }
    if (prj) { char *dp; if (asprintf(&dp, "%s/%s", d, prj) >= 0) { snap_prefix(dp, name); free(dp); } }
    free(d);
  }
  free(copy);
}

/* ---------------------------------------------------------------------------------- */
#define RC(e) fprintf(tf, ",\"rc\":\"%s\"", ename(e))

econf_err __wrap_econf_newKeyFile(econf_file **r, char d, char c) {
  tinit(); econf_err e = __real_econf_newKeyFile(r, d, c);
  fprintf(tf, "{\"e\":\"new\",\"h\":%d,\"d\":%d,\"c\":%d", (!e && r) ? hnew(*r) : 0, (unsigned char)d, (unsigned char)c); RC(e); fputs("}\n", tf); return e; }
econf_err __wrap_econf_newIniFile(econf_file **r) {
  tinit(); econf_err e = __real_econf_newIniFile(r);
  fprintf(tf, "{\"e\":\"new\",\"h\":%d,\"d\":61,\"c\":35", (!e && r) ? hnew(*r) : 0); RC(e); fputs("}\n", tf); return e; }
econf_err __wrap_econf_newKeyFile_with_options(econf_file **r, const char *o) {
  tinit(); econf_err e = __real_econf_newKeyFile_with_options(r, o);
  int h = (!e && r) ? hnew(*r) : 0;
  if (h > 0) { free(hopt[h]); hopt[h] = o ? strdup(o) : NULL; }
  fprintf(tf, "{\"e\":\"newopt\",\"h\":%d,\"opt\":", h); hx(o); RC(e); fputs("}\n", tf); return e; }

static econf_err readfile_common(econf_file **r, const char *f, const char *d, const char *c, int cb, bool (*fn)(const char *, const void *), const void *data) {
  tinit();
  econf_file *in = r ? *r : NULL;
  snap_file(f);
  econf_err e = cb ? __real_econf_readFileWithCallback(r, f, d, c, fn, data) : __real_econf_readFile(r, f, d, c);
  if (r && in && *r != in) hdrop(in);
  int h = (!e && r) ? hnew(*r) : 0;
  fprintf(tf, "{\"e\":\"readfile\",\"h\":%d,\"cb\":%s,\"path\":", h, cb ? "true" : "false"); hx(f); fputs(",\"delim\":", tf); hx(d); fputs(",\"comment\":", tf); hx(c); RC(e); fputs("}\n", tf);
  if (!e && r) dump(h, *r);
  return e;
}
econf_err __wrap_econf_readFile(econf_file **r, const char *f, const char *d, const char *c) { return readfile_common(r, f, d, c, 0, NULL, NULL); }
econf_err __wrap_econf_readFileWithCallback(econf_file **r, const char *f, const char *d, const char *c, bool (*fn)(const char *, const void *), const void *data) { return readfile_common(r, f, d, c, 1, fn, data); }

static econf_err readdirs_common(econf_file **r, const char *u, const char *etc, const char *n, const char *s, const char *d, const char *c, int cb, bool (*fn)(const char *, const void *), const void *data) {
  tinit();
  econf_file *in = r ? *r : NULL;
  snap_prefix(u, n); snap_prefix(etc, n);
  econf_err e = cb ? __real_econf_readDirsWithCallback(r, u, etc, n, s, d, c, fn, data) : __real_econf_readDirs(r, u, etc, n, s, d, c);
  if (r && in && *r != in) hdrop(in);
  int h = (!e && r) ? hnew(*r) : 0;
  fprintf(tf, "{\"e\":\"readdirs\",\"h\":%d,\"cb\":%s,\"usr\":", h, cb ? "true" : "false"); hx(u); fputs(",\"etc\":", tf); hx(etc); fputs(",\"name\":", tf); hx(n); fputs(",\"sfx\":", tf); hx(s);
  fputs(",\"delim\":", tf); hx(d); fputs(",\"comment\":", tf); hx(c); RC(e); fputs("}\n", tf);
  if (!e && r) dump(h, *r);
  return e;
}
econf_err __wrap_econf_readDirs(econf_file **r, const char *u, const char *etc, const char *n, const char *s, const char *d, const char *c) { return readdirs_common(r, u, etc, n, s, d, c, 0, NULL, NULL); }
econf_err __wrap_econf_readDirsWithCallback(econf_file **r, const char *u, const char *etc, const char *n, const char *s, const char *d, const char *c, bool (*fn)(const char *, const void *), const void *data) {
  return readdirs_common(r, u, etc, n, s, d, c, 1, fn, data); }

/* econf_readConfig*: which directories are consulted depends on the object's options; logged with the call, the object is
   dumped afterwards (the trace specification decides how much of it it predicts) */
static econf_err readconfig_common(econf_file **r, const char *prj, const char *u, const char *n, const char *s, const char *d, const char *c, int cb, bool (*fn)(const char *, const void *), const void *data) {
  tinit();
  econf_file *in = r ? *r : NULL; int hin = hid(in);
  snap_config(hin > 0 ? hopt[hin] : NULL, prj, u, n);
  econf_err e = cb ? __real_econf_readConfigWithCallback(r, prj, u, n, s, d, c, fn, data) : __real_econf_readConfig(r, prj, u, n, s, d, c);
  if (r && in && *r != in) hdrop(in);
  int h = (!e && r) ? hnew(*r) : 0;
  fprintf(tf, "{\"e\":\"readconfig\",\"h\":%d,\"hin\":%d,\"cb\":%s,\"project\":", h, hin > 0 ? hin : 0, cb ? "true" : "false"); hx(prj); fputs(",\"usr\":", tf); hx(u); fputs(",\"name\":", tf); hx(n); fputs(",\"sfx\":", tf); hx(s);
  fputs(",\"delim\":", tf); hx(d); fputs(",\"comment\":", tf); hx(c); RC(e); fputs("}\n", tf);
  if (!e && r) dump(h, *r);
  return e;
}
econf_err __wrap_econf_readConfig(econf_file **r, const char *prj, const char *u, const char *n, const char *s, const char *d, const char *c) { return readconfig_common(r, prj, u, n, s, d, c, 0, NULL, NULL); }
econf_err __wrap_econf_readConfigWithCallback(econf_file **r, const char *prj, const char *u, const char *n, const char *s, const char *d, const char *c, bool (*fn)(const char *, const void *), const void *data) {
  return readconfig_common(r, prj, u, n, s, d, c, 1, fn, data); }

static void hist_common(econf_file ***kfs, size_t *size, econf_err e, const char *u, const char *etc, const char *n, const char *s, const char *d, const char *c, int cb) {
  fprintf(tf, "{\"e\":\"readhist\",\"cb\":%s,\"usr\":", cb ? "true" : "false"); hx(u); fputs(",\"etc\":", tf); hx(etc); fputs(",\"name\":", tf); hx(n); fputs(",\"sfx\":", tf); hx(s);
  fputs(",\"delim\":", tf); hx(d); fputs(",\"comment\":", tf); hx(c);
  fprintf(tf, ",\"n\":%zu", (!e && size) ? *size : (size_t)0); RC(e); fputs(",\"hs\":[", tf);
  if (!e && kfs && *kfs && size) for (size_t i = 0; i < *size; i++) fprintf(tf, "%s%d", i ? "," : "", hnew((*kfs)[i]));
  fputs("]}\n", tf);
  if (!e && kfs && *kfs && size) for (size_t i = 0; i < *size; i++) dump(hid((*kfs)[i]), (*kfs)[i]);
}
econf_err __wrap_econf_readDirsHistory(econf_file ***kfs, size_t *size, const char *u, const char *etc, const char *n, const char *s, const char *d, const char *c) {
  tinit(); snap_prefix(u, n); snap_prefix(etc, n);
  econf_err e = __real_econf_readDirsHistory(kfs, size, u, etc, n, s, d, c); hist_common(kfs, size, e, u, etc, n, s, d, c, 0); return e; }
econf_err __wrap_econf_readDirsHistoryWithCallback(econf_file ***kfs, size_t *size, const char *u, const char *etc, const char *n, const char *s, const char *d, const char *c, bool (*fn)(const char *, const void *), const void *data) {
  tinit(); snap_prefix(u, n); snap_prefix(etc, n);
  econf_err e = __real_econf_readDirsHistoryWithCallback(kfs, size, u, etc, n, s, d, c, fn, data); hist_common(kfs, size, e, u, etc, n, s, d, c, 1); return e; }

econf_err __wrap_econf_mergeFiles(econf_file **m, econf_file *a, econf_file *b) {
  tinit(); econf_err e = __real_econf_mergeFiles(m, a, b);
  int h = (!e && m) ? hnew(*m) : 0;
  fprintf(tf, "{\"e\":\"merge\",\"h\":%d,\"a\":%d,\"b\":%d", h, hid(a) > 0 ? hid(a) : 0, hid(b) > 0 ? hid(b) : 0); RC(e); fputs("}\n", tf);
  if (!e && m) dump(h, *m);
  return e; }

econf_err __wrap_econf_writeFile(econf_file *kf, const char *dir, const char *name) {
  tinit(); econf_err e = __real_econf_writeFile(kf, dir, name);
  char *p = NULL; if (asprintf(&p, "%s/%s", dir ? dir : "", name ? name : "") < 0) p = NULL;
  struct stat dst; int dir_ok = dir && stat(dir, &dst) == 0 && S_ISDIR(dst.st_mode) && access(dir, W_OK) == 0;
  fprintf(tf, "{\"e\":\"write\",\"dir_ok\":%s,\"h\":%d,\"path\":", dir_ok ? "true" : "false", hid(kf) > 0 ? hid(kf) : 0); hx(p); RC(e); fputs("}\n", tf);
  if (!e && p) snap_file(p);
  free(p); return e; }

void __wrap_econf_set_comment_tag(econf_file *kf, const char c) { tinit(); __real_econf_set_comment_tag(kf, c); fprintf(tf, "{\"e\":\"settag\",\"h\":%d,\"which\":\"c\",\"tag\":%d}\n", hid(kf) > 0 ? hid(kf) : 0, (unsigned char)c); }
void __wrap_econf_set_delimiter_tag(econf_file *kf, const char c) { tinit(); __real_econf_set_delimiter_tag(kf, c); fprintf(tf, "{\"e\":\"settag\",\"h\":%d,\"which\":\"d\",\"tag\":%d}\n", hid(kf) > 0 ? hid(kf) : 0, (unsigned char)c); }

econf_err __wrap_econf_getGroups(econf_file *kf, size_t *len, char ***groups) {
  tinit(); econf_err e = __real_econf_getGroups(kf, len, groups);
  fprintf(tf, "{\"e\":\"groups\",\"rnull\":%s,\"h\":%d", (len && groups) ? "false" : "true", hid(kf) > 0 ? hid(kf) : 0); RC(e); fputs(",\"out\":[", tf);
  if (!e && groups && *groups && len) for (size_t i = 0; i < *len; i++) { if (i) fputc(',', tf); hx((*groups)[i]); }
  fputs("]}\n", tf); return e; }
econf_err __wrap_econf_getKeys(econf_file *kf, const char *g, size_t *len, char ***keys) {
  tinit(); econf_err e = __real_econf_getKeys(kf, g, len, keys);
  fprintf(tf, "{\"e\":\"keys\",\"rnull\":%s,\"h\":%d,\"g\":", (len && keys) ? "false" : "true", hid(kf) > 0 ? hid(kf) : 0); hx(g); RC(e); fputs(",\"out\":[", tf);
  if (!e && keys && *keys && len) for (size_t i = 0; i < *len; i++) { if (i) fputc(',', tf); hx((*keys)[i]); }
  fputs("]}\n", tf); return e; }

#define GETHEAD(T) tinit(); fprintf(tf, "{\"e\":\"get\",\"T\":\"" T "\",\"rnull\":%s,\"h\":%d,\"g\":", r ? "false" : "true", hid(kf) > 0 ? hid(kf) : 0); hx(g); fputs(",\"k\":", tf); hx(k)
econf_err __wrap_econf_getStringValue(econf_file *kf, const char *g, const char *k, char **r) {
  econf_err e = __real_econf_getStringValue(kf, g, k, r); GETHEAD("String"); RC(e); fputs(",\"out\":", tf); hx((!e && r) ? *r : NULL); fputs("}\n", tf); return e; }
econf_err __wrap_econf_getStringValueDef(econf_file *kf, const char *g, const char *k, char **r, char *def) {
  econf_err e = __real_econf_getStringValueDef(kf, g, k, r, def); GETHEAD("String"); RC(e); fputs(",\"def\":", tf); hx(def); fputs(",\"isdef\":true,\"out\":", tf); hx((r && (!e || e == ECONF_NOKEY)) ? *r : NULL); fputs("}\n", tf); return e; }
#define GETNUM(NAME, T, CT, FMT, CAST) \
econf_err __wrap_econf_get##NAME##Value(econf_file *kf, const char *g, const char *k, CT *r) { \
  econf_err e = __real_econf_get##NAME##Value(kf, g, k, r); GETHEAD(T); RC(e); \
  if (!e && r) fprintf(tf, ",\"num\":\"" FMT "\"", (CAST)*r); else fputs(",\"num\":null", tf); fputs("}\n", tf); return e; }
GETNUM(Int, "Int", int32_t, "%" PRId64, int64_t)
GETNUM(Int64, "Int64", int64_t, "%" PRId64, int64_t)
GETNUM(UInt, "UInt", uint32_t, "%" PRIu64, uint64_t)
GETNUM(UInt64, "UInt64", uint64_t, "%" PRIu64, uint64_t)
GETNUM(Float, "Float", float, "%.9g", double)
GETNUM(Double, "Double", double, "%.17g", double)
econf_err __wrap_econf_getBoolValue(econf_file *kf, const char *g, const char *k, bool *r) {
  econf_err e = __real_econf_getBoolValue(kf, g, k, r); GETHEAD("Bool"); RC(e); fprintf(tf, ",\"num\":%s}\n", (!e && r) ? (*r ? "\"1\"" : "\"0\"") : "null"); return e; }

#define SETHEAD(T) tinit(); fprintf(tf, "{\"e\":\"set\",\"T\":\"" T "\",\"h\":%d,\"g\":", hid(kf) > 0 ? hid(kf) : 0); hx(g); fputs(",\"k\":", tf); hx(k)
econf_err __wrap_econf_setStringValue(econf_file *kf, const char *g, const char *k, const char *v) {
  econf_err e = __real_econf_setStringValue(kf, g, k, v); SETHEAD("String"); fputs(",\"v\":", tf); hx(v); RC(e); fputs("}\n", tf); if (!e) dump(hid(kf), kf); return e; }
econf_err __wrap_econf_setBoolValue(econf_file *kf, const char *g, const char *k, const char *v) {
  econf_err e = __real_econf_setBoolValue(kf, g, k, v); SETHEAD("Bool"); fputs(",\"v\":", tf); hx(v); RC(e); fputs("}\n", tf); if (!e) dump(hid(kf), kf); return e; }
#define SETNUM(NAME, T, CT, FMT, CAST) \
econf_err __wrap_econf_set##NAME##Value(econf_file *kf, const char *g, const char *k, CT v) { \
  econf_err e = __real_econf_set##NAME##Value(kf, g, k, v); SETHEAD(T); fprintf(tf, ",\"num\":\"" FMT "\"", (CAST)v); RC(e); fputs("}\n", tf); if (!e) dump(hid(kf), kf); return e; }
SETNUM(Int, "Int", int32_t, "%" PRId64, int64_t)
SETNUM(Int64, "Int64", int64_t, "%" PRId64, int64_t)
SETNUM(UInt, "UInt", uint32_t, "%" PRIu64, uint64_t)
SETNUM(UInt64, "UInt64", uint64_t, "%" PRIu64, uint64_t)
SETNUM(Float, "Float", float, "%.9g", double)
SETNUM(Double, "Double", double, "%.17g", double)

econf_err __wrap_econf_getExtValue(econf_file *kf, const char *g, const char *k, econf_ext_value **r) {
  tinit(); econf_err e = __real_econf_getExtValue(kf, g, k, r);
  fprintf(tf, "{\"e\":\"ext\",\"h\":%d,\"g\":", hid(kf) > 0 ? hid(kf) : 0); hx(g); fputs(",\"k\":", tf); hx(k); RC(e);
  if (!e && r && *r) {
    fprintf(tf, ",\"line\":%" PRIu64 ",\"file\":", (*r)->line_number); hx((*r)->file); fputs(",\"cb\":", tf); hx((*r)->comment_before_key); fputs(",\"ca\":", tf); hx((*r)->comment_after_value);
    fputs(",\"vals\":[", tf); for (char **p = (*r)->values; p && *p; p++) { if (p != (*r)->values) fputc(',', tf); hx(*p); } fputs("]", tf);
  }
  fputs("}\n", tf); return e; }

econf_file *__wrap_econf_freeFile(econf_file *kf) {
  tinit(); int h = hid(kf);
  if (h > 0) dump(h, kf);              /* the object's last state: whatever the test did not assert is checked here */
  econf_file *r = __real_econf_freeFile(kf);
  fprintf(tf, "{\"e\":\"free\",\"h\":%d,\"ret_null\":%s}\n", h > 0 ? h : 0, r ? "false" : "true");
  if (h > 0) { free(hopt[h]); hopt[h] = NULL; }
  hdrop(kf); return r; }

void __wrap_econf_errLocation(char **f, uint64_t *l) {
  tinit(); __real_econf_errLocation(f, l);
  fputs("{\"e\":\"errloc\",\"file\":", tf); hx(f ? *f : NULL); fprintf(tf, ",\"line\":%" PRIu64 "}\n", l ? *l : 0); }

econf_err __wrap_econf_set_conf_dirs(const char **dirs) {
  tinit(); econf_err e = __real_econf_set_conf_dirs(dirs);
  fputs("{\"e\":\"setconfdirs\",\"dirs\":[", tf); for (const char **p = dirs; p && *p; p++) { if (p != dirs) fputc(',', tf); hx(*p); } fputs("]", tf); RC(e); fputs("}\n", tf); return e; }
void __wrap_econf_requireOwner(uid_t u) { tinit(); __real_econf_requireOwner(u); fputs("{\"e\":\"secflag\",\"which\":\"owner\"}\n", tf); }
void __wrap_econf_requireGroup(gid_t g) { tinit(); __real_econf_requireGroup(g); fputs("{\"e\":\"secflag\",\"which\":\"group\"}\n", tf); }
void __wrap_econf_requirePermissions(mode_t a, mode_t b) { tinit(); __real_econf_requirePermissions(a, b); fputs("{\"e\":\"secflag\",\"which\":\"perms\"}\n", tf); }
void __wrap_econf_followSymlinks(bool b) { tinit(); __real_econf_followSymlinks(b); fprintf(tf, "{\"e\":\"secflag\",\"which\":\"%s\"}\n", b ? "follow" : "nofollow"); }
void __wrap_econf_reset_security_settings(void) { tinit(); __real_econf_reset_security_settings(); fputs("{\"e\":\"secreset\"}\n", tf); }
