-------------------------------- MODULE Cfg --------------------------------
(* Abstract configuration = sequence of entries [g, k, v] (g = <<>>: group-less), and the
   projections the public listing/lookup API imposes on it. *)
EXTENDS Chars

Ent(g, k, v) == [g |-> g, k |-> k, v |-> v]
NoG == <<>>

\* order of first appearance without repetition
RECURSIVE Dedup(_)
Dedup(s) == IF s = <<>> THEN <<>>
            ELSE LET r == Dedup(SubSeq(s, 1, Len(s) - 1))  x == s[Len(s)] IN
                 IF \E i \in 1..Len(r) : r[i] = x THEN r ELSE Append(r, x)
SeqMinus(s, t) == SelectSeq(s, LAMBDA x : ~\E i \in 1..Len(t) : t[i] = x)
Has(s, x) == \E i \in 1..Len(s) : s[i] = x

GroupsOf(c)   == Dedup([i \in 1..Len(c) |-> c[i].g])               \* incl. NoG if present
SectionsOf(c) == SelectSeq(GroupsOf(c), LAMBDA g : g # NoG)         \* key-bearing sections
KeysOf(c, g)  == LET es == SelectSeq(c, LAMBDA e : e.g = g) IN [i \in 1..Len(es) |-> es[i].k]
Defines(c, g, k) == \E i \in 1..Len(c) : c[i].g = g /\ c[i].k = k
Lookup(c, g, k)  == c[MinOf({i \in 1..Len(c) : c[i].g = g /\ c[i].k = k})].v     \* first match
DupFree(c) == \A i, j \in 1..Len(c) : (c[i].g = c[j].g /\ c[i].k = c[j].k) => i = j

\* what the listing getters show: group-less keys, then each section in order, values by lookup
ListingOf(c) == LET gs == <<NoG>> \o SectionsOf(c) IN
                Cat([n \in 1..Len(gs) |->
                       LET ks == KeysOf(c, gs[n]) IN [i \in 1..Len(ks) |-> Ent(gs[n], ks[i], Lookup(c, gs[n], ks[i]))]])
ObsOf(c) == [groups |-> SectionsOf(c), ents |-> ListingOf(c)]
\* unordered meaning: (g,k) -> v
MapOf(c) == [p \in {<<c[i].g, c[i].k>> : i \in 1..Len(c)} |-> Lookup(c, p[1], p[2])]
=============================================================================
