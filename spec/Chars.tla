------------------------------- MODULE Chars -------------------------------
(* Strings that the library inspects are sequences of character codes (0..255).  This
   module holds the character classes and the few string operations the C code uses. *)
EXTENDS Naturals, Sequences, FiniteSets

SP == 32   TAB == 9   NLc == 10   QUOTE == 34   LBR == 91   RBR == 93
NL == <<10>>

IsSp(c)     == c \in {32, 9, 10, 11, 12, 13}          \* isspace() in the C locale
IsBlank(c)  == c \in {32, 9}
InStr(c, s) == \E i \in 1..Len(s) : s[i] = c          \* strchr(s, c) != NULL  (c # 0)

MinOf(S) == CHOOSE x \in S : \A y \in S : x <= y
MaxOf(S) == CHOOSE x \in S : \A y \in S : x >= y

StrChr(s, c)  == LET I == {i \in 1..Len(s) : s[i] = c} IN IF I = {} THEN 0 ELSE MinOf(I)
StrRChr(s, c) == LET I == {i \in 1..Len(s) : s[i] = c} IN IF I = {} THEN 0 ELSE MaxOf(I)
From(s, i) == IF i > Len(s) THEN <<>> ELSE SubSeq(s, i, Len(s))
Upto(s, i) == IF i < 1 THEN <<>> ELSE SubSeq(s, 1, i)

SkipSp(s)  == LET I == {i \in 1..Len(s) : ~IsSp(s[i])} IN IF I = {} THEN <<>> ELSE From(s, MinOf(I))
RTrimSp(s) == LET I == {i \in 1..Len(s) : ~IsSp(s[i])} IN IF I = {} THEN <<>> ELSE Upto(s, MaxOf(I))
TrimSp(s)  == RTrimSp(SkipSp(s))

HasWsp(d)    == \E i \in 1..Len(d) : IsSp(d[i])
HasNonWsp(d) == \E i \in 1..Len(d) : ~IsSp(d[i])

RECURSIVE Cat(_)
Cat(ss) == IF ss = <<>> THEN <<>> ELSE Head(ss) \o Cat(Tail(ss))

RECURSIVE JoinWith(_, _)
JoinWith(ss, sep) == IF ss = <<>> THEN <<>> ELSE IF Len(ss) = 1 THEN ss[1]
                     ELSE ss[1] \o sep \o JoinWith(Tail(ss), sep)

\* split at every occurrence of character c (strsep semantics: n separators give n+1 items)
RECURSIVE SplitAt(_, _)
SplitAt(s, c) == LET p == StrChr(s, c) IN
                 IF p = 0 THEN <<s>> ELSE <<Upto(s, p-1)>> \o SplitAt(From(s, p+1), c)

\* byte-wise order of names (strcmp < 0)
RECURSIVE ByteLess(_, _)
ByteLess(a, b) == IF b = <<>> THEN FALSE ELSE IF a = <<>> THEN TRUE
                  ELSE IF a[1] # b[1] THEN a[1] < b[1] ELSE ByteLess(Tail(a), Tail(b))

EndsWith(s, suf) == Len(suf) <= Len(s) /\ SubSeq(s, Len(s) - Len(suf) + 1, Len(s)) = suf

Lower(c)  == IF c >= 65 /\ c <= 90 THEN c + 32 ELSE c
LowerS(s) == [i \in 1..Len(s) |-> Lower(s[i])]

\* optional strings (JSON has no null in the Json module): <<>> = absent, <<s>> = present
None    == [has |-> FALSE, t |-> <<>>]
Some(t) == [has |-> TRUE, t |-> t]
OptSeq(o) == IF o.has THEN <<o.t>> ELSE <<>>
AppendOpt(o, t) == IF o.has THEN Some(o.t \o NL \o t) ELSE Some(t)
=============================================================================
