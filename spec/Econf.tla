-------------------------------- MODULE Econf --------------------------------
(* ROOT SPECIFICATION: libeconf as one state machine over

     fs      path |-> physical lines of a regular file (what the harness or econf_writeFile put there)
     objs    handle |-> configuration object  [ents, secs, path, d, c]  or Null
     errloc  [file, line]  the process-wide last-error-location record
     flags   the process-wide restrictions (Security.tla) - not exercised by this module's traces yet

   with ONE ACTION PER PUBLIC CALL.  The pure functions come from the operator modules:
   Parser (text -> entries), Writer (object -> text), Merge (override), KeyFile (lookup / set).
   Composition is the point of this module: a value set through the API, written by econf_writeFile,
   read back by econf_readFile (or found by a two-directory layered read), merged and queried is
   predicted end to end by the specification - Trace_Econf.tla validates such mixed histories
   recorded from the real library.

   Entries are the full records of Writer.tla  [g, k, v, hasv, quoted, cb, ca]  extended by `line`: the
   1-based number of the physical line on which a parsed entry ends (0 for an entry created by a setter;
   copied by a merge).  econf_getExtValue reports it together with the object's path (C17).        *)
EXTENDS Writer, Typed, FiniteSetsExt, SequencesExt

Null == [null |-> TRUE]
IsObj(o) == o # Null
\* the options an object carries (econf_newKeyFile_with_options): parsing flags, explicit parsing directories, drop-in
\* directory postfixes, root prefix (optional: <<>> or <<string>>)
DefaultOpt == [join |-> FALSE, python |-> FALSE, pdirs |-> <<>>, cdirs |-> <<>>, root |-> <<>>]
NewObject(d, c) == [ents |-> <<>>, secs |-> <<>>, path |-> <<>>, d |-> d, c |-> c, opt |-> DefaultOpt]
WithLine(e, n) == [g |-> e.g, k |-> e.k, v |-> e.v, hasv |-> e.hasv, quoted |-> e.quoted, cb |-> e.cb, ca |-> e.ca, line |-> n]

\* ---------- option strings (lib/libeconf.c econf_newKeyFile_with_options) ----------
\* items as tokenised by the harness: [name, arg] with name \in {"JOIN","PYTHON","PDIRS","CDIRS","ROOT","BAD"};
\* every item acts as documented, an item given twice acts as its last occurrence, an unknown item refuses the string
ApplyOpt(o, it) ==
  CASE it.name = "JOIN"   -> [o EXCEPT !.join = (it.arg = 1)]
    [] it.name = "PYTHON" -> [o EXCEPT !.python = (it.arg = 1)]
    [] it.name = "PDIRS"  -> [o EXCEPT !.pdirs = it.arg]
    [] it.name = "CDIRS"  -> [o EXCEPT !.cdirs = it.arg]
    [] it.name = "ROOT"   -> [o EXCEPT !.root = <<it.arg>>]
    [] OTHER -> o
RECURSIVE FoldOpt(_, _)
FoldOpt(o, items) == IF items = <<>> THEN o ELSE FoldOpt(ApplyOpt(o, Head(items)), Tail(items))
OptResult(items) == IF \E i \in 1..Len(items) : items[i].name = "BAD"
                    THEN [rc |-> "ECONF_OPTION_NOT_FOUND", obj |-> Null]
                    ELSE [rc |-> "ECONF_SUCCESS", obj |-> [NewObject(0, 0) EXCEPT !.opt = FoldOpt(DefaultOpt, items)]]

\* ---------- lookup / set (lib/helpers.c find_key, setKeyValue) ----------
StripB(s) == IF Len(s) >= 2 /\ s[1] = LBR /\ s[Len(s)] = RBR
             THEN LET p == StrChr(Tail(s), RBR) IN SubSeq(s, 2, p) ELSE s
GroupArg(go) == IF go = <<>> THEN NoGrp ELSE StripB(go[1])           \* NULL, "" = group-less; "[A]" = "A"
FindE(o, g, k) == LET I == {i \in 1..Len(o.ents) : o.ents[i].g = g /\ o.ents[i].k = k} IN IF I = {} THEN 0 ELSE MinOf(I)
AddSecE(secs, g) == IF g = NoGrp \/ (\E i \in 1..Len(secs) : secs[i] = g) THEN secs ELSE Append(secs, g)
SetE(o, g, k, text) ==
  LET i == FindE(o, g, k) IN
  IF i = 0 THEN [o EXCEPT !.ents = Append(@, WithLine(WEnt(g, k, text, TRUE, FALSE, None, None), 0)), !.secs = AddSecE(@, g)]
  ELSE [o EXCEPT !.ents[i].v = text, !.ents[i].hasv = TRUE]

\* ---------- listing as the getters show it ----------
KeysE(o, g) == LET es == SelectSeq(o.ents, LAMBDA e : e.g = g) IN [i \in 1..Len(es) |-> es[i].k]
DumpE(o) == [groups |-> o.secs,
             ents |-> LET gs == <<NoGrp>> \o o.secs IN
                      Cat([n \in 1..Len(gs) |-> LET ks == KeysE(o, gs[n]) IN
                             [i \in 1..Len(ks) |-> LET e == o.ents[FindE(o, gs[n], ks[i])] IN
                                                   [g |-> gs[n], k |-> ks[i], v |-> IF e.hasv THEN e.v ELSE <<>>,
                                                    \* comments as econf_getExtValue reports them (NULL and "" alike)
                                                    cb |-> IF e.cb.has THEN e.cb.t ELSE <<>>, ca |-> IF e.ca.has THEN e.ca.t ELSE <<>>]]])]

\* ---------- econf_readFile ----------
ParArgs(delim, comment, py, jn) == [delim |-> delim, comment |-> IF comment = <<>> THEN <<35>> ELSE comment, python |-> py, join |-> jn]
ObjectOfParse(st, path, delim, comment) ==
  [ents |-> [i \in 1..Len(st.ents) |-> WithLine(EntsOfParse(st)[i], st.ents[i].line)], secs |-> st.groups, path |-> path,
   d |-> IF delim = <<>> THEN 0 ELSE delim[1], c |-> IF comment = <<>> THEN 35 ELSE comment[1], opt |-> DefaultOpt]
ReadResultOpt(fs, path, delim, comment, py, jn) ==
  IF path \notin DOMAIN fs THEN [rc |-> "ECONF_NOFILE", obj |-> Null, errline |-> 0]
  ELSE LET st == ParseFile(fs[path], ParArgs(delim, comment, py, jn)) IN
       \* (the object remembers that it was parsed with JOIN_SAME_ENTRIES: how the comments of the joined definitions are combined is
       \* not specified, see Trace_Econf!TExt)
       IF st.err = "ok" THEN [rc |-> "ECONF_SUCCESS", obj |-> [ObjectOfParse(st, path, delim, comment) EXCEPT !.opt.join = jn], errline |-> st.line]
       ELSE [rc |-> st.err, obj |-> Null, errline |-> st.line]
ReadResult(fs, path, delim, comment) == ReadResultOpt(fs, path, delim, comment, FALSE, FALSE)

\* ---------- econf_getExtValue (C17): for an entry of a PARSED FILE the line it ends on, the object's path, the comment block
\* directly before it, its trailing comment, its value split into blank-trimmed lines (a value starting with a quote: one item)
ExtOf(o, i) == LET e == o.ents[i] IN
  [line |-> e.line, file |-> o.path, vals |-> NonEmpty(ExtValues(e)),
   cb |-> IF e.cb.has THEN e.cb.t ELSE <<>>, ca |-> IF e.ca.has THEN e.ca.t ELSE <<>>]

\* ---------- econf_mergeFiles on full entries (lib/mergefiles.c merge_entries, cpy_file_entry) ----------
HasGrpE(es, g) == \E i \in 1..Len(es) : es[i].g = g
DefinesE(es, g, k) == \E i \in 1..Len(es) : es[i].g = g /\ es[i].k = k
FirstE(es, g, k) == es[MinOf({i \in 1..Len(es) : es[i].g = g /\ es[i].k = k})]
CopyE(e) == [e EXCEPT !.quoted = FALSE]                                      \* the quote flag is not copied
OnlyOverE(o, b, g) == LET es == SelectSeq(o, LAMBDA e : e.g = g /\ ~DefinesE(b, e.g, e.k)) IN [i \in 1..Len(es) |-> CopyE(es[i])]
LastOfGrpE(b, i) == \A k \in (i+1)..Len(b) : b[k].g # b[i].g
RECURSIVE MergeLoopE(_, _, _, _)
MergeLoopE(out, b, o, i) ==
  IF i > Len(b) THEN out ELSE
  LET e == b[i]
      e2 == IF DefinesE(o, e.g, e.k)
            THEN LET ov == FirstE(o, e.g, e.k) IN [CopyE(e) EXCEPT !.v = IF ov.hasv THEN ov.v ELSE <<>>, !.hasv = TRUE]
            ELSE CopyE(e)
      o1 == Append(out, e2)
      o2 == IF LastOfGrpE(b, i) THEN o1 \o OnlyOverE(o, b, e.g) ELSE o1 IN
  MergeLoopE(o2, b, o, i + 1)
MergeEnts(b, o) ==
  LET pre0 == SelectSeq(o, LAMBDA e : e.g = NoGrp)
      pre  == IF HasGrpE(b, NoGrp) THEN <<>> ELSE [i \in 1..Len(pre0) |-> CopyE(pre0[i])]
      post0 == SelectSeq(o, LAMBDA e : e.g # NoGrp /\ ~HasGrpE(b, e.g))
      post == [i \in 1..Len(post0) |-> CopyE(post0[i])] IN
  MergeLoopE(pre, b, o, 1) \o post
SecsOfEnts(es) == LET gs == [i \in 1..Len(es) |-> es[i].g] IN SelectSeq(Dedup0(gs), LAMBDA g : g # NoGrp)
MergeObjects(b, o) == [ents |-> MergeEnts(b.ents, o.ents), secs |-> SecsOfEnts(MergeEnts(b.ents, o.ents)),
                       path |-> <<>>, d |-> b.d, c |-> b.c, opt |-> DefaultOpt]

\* ---------- econf_writeFile ----------
WriteLines(o) == RenderCfg(o, o.d, o.c)

\* ---------- two-directory layered read over the concrete file system (econf_readDirs) ----------
Slash == <<47>>
IsPrefixOf(p, s) == Len(p) <= Len(s) /\ SubSeq(s, 1, Len(p)) = p
\* names of the regular files directly inside directory dir
NamesIn(fs, dir) == {SubSeq(p, Len(dir) + 2, Len(p)) : p \in {q \in DOMAIN fs : IsPrefixOf(dir \o Slash, q) /\ ~InStr(47, SubSeq(q, Len(dir) + 2, Len(q)))}}
DotSuffix(sfx) == IF sfx = <<>> THEN <<>> ELSE IF sfx[1] = 46 THEN sfx ELSE <<46>> \o sfx
DropinsIn(fs, dir, sfx) == SetToSortSeq({n \in NamesIn(fs, dir) : Len(sfx) < Len(n) /\ EndsWith(n, sfx)}, ByteLess)
\* collapse repeated slashes (the library composes "<root>/<sub>/<project>" with sub = "/run": "//" means "/")
RECURSIVE NormP(_)
NormP(p) == IF Len(p) < 2 THEN p
            ELSE IF p[1] = 47 /\ p[2] = 47 THEN NormP(Tail(p)) ELSE <<p[1]>> \o NormP(Tail(p))
\* posts: the drop-in directory postfixes in force (object's CONFIG_DIRS, else the process-wide econf_set_conf_dirs list);
\* <<>> = the default "<suffix>.d".  A postfix is appended to "<dir>/<name>": ".d" -> <name>.d, "/conf.d" -> <name>/conf.d
ConsultedFsC(fs, dirs, name, sfx, posts) ==
  LET s == DotSuffix(sfx)
      ps == IF posts = <<>> THEN <<s \o <<46, 100>>>> ELSE posts
      mains == SelectSeq([i \in 1..Len(dirs) |-> NormP(dirs[Len(dirs) + 1 - i] \o Slash \o name \o s)], LAMBDA p : p \in DOMAIN fs)   \* highest first
      main == IF mains = <<>> THEN <<>> ELSE <<mains[1]>>
      drops == Cat([i \in 1..Len(dirs) |->
                 Cat([q \in 1..Len(ps) |->
                      LET dd == NormP(dirs[i] \o Slash \o name \o ps[q])        \* "<dir>/<name><postfix>"
                          ns == DropinsIn(fs, dd, s) IN
                      [j \in 1..Len(ns) |-> dd \o Slash \o ns[j]]])]) IN
  main \o drops
ConsultedFs(fs, dirs, name, sfx) == ConsultedFsC(fs, dirs, name, sfx, <<>>)
BaseName(p) == LET I == {i \in 1..Len(p) : p[i] = 47} IN IF I = {} THEN p ELSE SubSeq(p, Max(I) + 1, Len(p))
\* masking as the library does it: every element but the first is dropped when a later one has the same base name
\* (the first element is the merge base and is never dropped - known finding F4 when there is no main file)
MaskedFs(K, j) == j > 1 /\ \E j2 \in (j+1)..Len(K) : BaseName(K[j2]) = BaseName(K[j])
RECURSIVE FoldObjs(_)
FoldObjs(os) == IF Len(os) = 1 THEN os[1] ELSE MergeObjects(FoldObjs(SubSeq(os, 1, Len(os) - 1)), os[Len(os)])
\* the parsing options of the object (PYTHON_STYLE, JOIN_SAME_ENTRIES) apply to EVERY file of a layered read
ReadDirsResultC(fs, dirs, name, sfx, delim, comment, py, jn, posts) ==
  LET K == ConsultedFsC(fs, dirs, name, sfx, posts)
      rs == [j \in 1..Len(K) |-> ReadResultOpt(fs, K[j], delim, comment, py, jn)]
      bad == {j \in 1..Len(K) : rs[j].rc # "ECONF_SUCCESS"} IN
  IF K = <<>> THEN [rc |-> "ECONF_NOFILE", obj |-> Null, errfile |-> <<>>, errline |-> 0]
  ELSE IF bad # {} THEN [rc |-> rs[Min(bad)].rc, obj |-> Null, errfile |-> K[Min(bad)], errline |-> rs[Min(bad)].errline]
  ELSE LET idx == SelectSeq([j \in 1..Len(K) |-> j], LAMBDA j : ~MaskedFs(K, j)) IN
       [rc |-> "ECONF_SUCCESS", errfile |-> K[Len(K)], errline |-> rs[Len(K)].errline,
        obj |-> IF Len(K) = 1 THEN rs[1].obj                 \* a single file keeps its own path (Dev_SingleFileKeepsPath)
                ELSE FoldObjs([n \in 1..Len(idx) |-> rs[idx[n]].obj])]
ReadDirsResultOpt(fs, dirs, name, sfx, delim, comment, py, jn) == ReadDirsResultC(fs, dirs, name, sfx, delim, comment, py, jn, <<>>)
ReadDirsResult(fs, dirs, name, sfx, delim, comment) == ReadDirsResultOpt(fs, dirs, name, sfx, delim, comment, FALSE, FALSE)

\* ---------- econf_readConfig (lib/libeconf.c econf_readConfigWithCallback) ----------
\* opt: the options of the object handed in (DefaultOpt for a NULL object); prj, usr, name: optional strings;
\* gposts: the process-wide drop-in postfix list.  Which directories are read:
\*   explicit PARSING_DIRS, else <root>/<usr>/<project>, <root>/run/<project>, <root>/etc/<project>;
\*   no config name: the project name takes its place, there is no project subdirectory and the drop-in directory is <name>.d
RunSub == <<47, 114, 117, 110>>   EtcSub == <<47, 101, 116, 99>>
ConfigDirsOf(opt, prj, usr, noname) ==
  LET pj == IF noname THEN <<>> ELSE prj
      u  == IF usr = <<>> THEN <<>> ELSE usr[1]
      base(sub) == IF opt.root # <<>>
                   THEN (IF pj # <<>> THEN opt.root[1] \o Slash \o sub \o Slash \o pj[1] ELSE opt.root[1] \o sub)
                   ELSE (IF pj # <<>> THEN sub \o Slash \o pj[1] ELSE sub) IN
  IF opt.pdirs # <<>> THEN opt.pdirs ELSE <<NormP(base(u)), NormP(base(RunSub)), NormP(base(EtcSub))>>
ReadConfigResult(fs, opt, prj, usr, name, sfx, delim, comment, gposts) ==
  LET noname == name = <<>> \/ name = <<<<>>>> IN
  IF noname /\ prj = <<>> THEN [rc |-> "ECONF_ARGUMENT_IS_NULL_VALUE", obj |-> Null, errfile |-> <<>>, errline |-> 0]
  ELSE LET nm == IF noname THEN prj[1] ELSE name[1]
           posts == IF noname THEN <<<<46, 100>>>> ELSE IF opt.cdirs # <<>> THEN opt.cdirs ELSE gposts IN
       ReadDirsResultC(fs, ConfigDirsOf(opt, prj, usr, noname), nm, sfx, delim, comment, opt.python, opt.join, posts)

\* ---------- history variants: every consulted file as its own object ----------
HistoryResult(fs, dirs, name, sfx, delim, comment, posts) ==
  LET K == ConsultedFsC(fs, dirs, name, sfx, posts)
      rs == [j \in 1..Len(K) |-> ReadResult(fs, K[j], delim, comment)]
      bad == {j \in 1..Len(K) : rs[j].rc # "ECONF_SUCCESS"} IN
  IF K = <<>> THEN [rc |-> "ECONF_NOFILE", objs |-> <<>>]
  ELSE IF bad # {} THEN [rc |-> rs[Min(bad)].rc, objs |-> <<>>]
  ELSE [rc |-> "ECONF_SUCCESS", objs |-> [j \in 1..Len(K) |-> rs[j].obj]]

\* ---------- typed access on top of the stored text (Typed.tla) ----------
\* a stored text as an integer literal: optional sign, 0x / 0 prefix, digits of the base, nothing else
DigitVal(c) == IF c >= 48 /\ c <= 57 THEN c - 48 ELSE IF c >= 97 /\ c <= 102 THEN c - 87 ELSE IF c >= 65 /\ c <= 70 THEN c - 55 ELSE 99
LitOfText(t) ==
  LET sg == IF t # <<>> /\ t[1] = 45 THEN "-" ELSE IF t # <<>> /\ t[1] = 43 THEN "+" ELSE ""
      r1 == IF sg = "" THEN t ELSE Tail(t)
      hex == Len(r1) >= 3 /\ r1[1] = 48 /\ r1[2] \in {120, 88}
      oct == ~hex /\ Len(r1) >= 2 /\ r1[1] = 48
      b  == IF hex THEN 16 ELSE IF oct THEN 8 ELSE 10
      ds == IF hex THEN SubSeq(r1, 3, Len(r1)) ELSE IF oct THEN Tail(r1) ELSE r1
      dv == [i \in 1..Len(ds) |-> DigitVal(ds[i])] IN
  [ok |-> ds # <<>> /\ \A i \in 1..Len(dv) : dv[i] < b, lit |-> [sign |-> sg, base |-> b, digits |-> dv]]
\* text stored by the integer setters / by econf_setBoolValue
IntText(neg, mag) == LitText(CanonLit(neg, mag))
BoolText(v) == IF v THEN Wtrue ELSE Wfalse
=============================================================================
