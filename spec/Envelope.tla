------------------------------ MODULE Envelope ------------------------------
(* C04 / C14: what the specification says about inputs OUTSIDE the conventional grammar - an
   envelope only: every call terminates and answers with a documented code; after a successful
   read every listing, getter, merge, write and re-read answers with a documented code as well.
   Memory safety itself is observed by AddressSanitizer/UBSan on the executions that this
   trace specification consumes (a crashed or hung driver leaves no End event: rejected).

   Event classes are aggregated by the harness (same code combination = one event with a count),
   the check is stateless per event.

   C14 events: a field of length len with distinct head/tail markers went through an API:
   no truncation = out_len = len and both markers intact; names beyond the OS limits: the OS
   refuses them, the library answers with an error code.                                       *)
EXTENDS Naturals, Sequences, FiniteSets, Json, IOUtils, TLC
Tr == ndJsonDeserialize(IOEnv.TRACE)
VARIABLE l
Ev == Tr[l]
ParseCodes == {"ECONF_MISSING_BRACKET", "ECONF_MISSING_DELIMITER", "ECONF_EMPTY_SECTION_NAME", "ECONF_TEXT_AFTER_SECTION", "ECONF_PARSE_ERROR"}
ReadCodes == {"ECONF_SUCCESS", "ECONF_NOFILE", "ECONF_NOMEM"} \cup ParseCodes
WriteCodes == {"ECONF_SUCCESS", "ECONF_NOFILE", "ECONF_WRITEERROR", "ECONF_ERROR", "ECONF_NOMEM"}
Mismatch(what) == PrintT(ToJson([mismatch |-> l, spec |-> what]))
Chk(c, what) == IF c THEN TRUE ELSE Mismatch(what)

TClass == /\ Ev.e = "class"
          /\ Chk(/\ Ev.rc \in ReadCodes /\ Ev.rcs_ok /\ Ev.ended
                 /\ (Ev.rc = "ECONF_SUCCESS" => Ev.obj /\ Ev.write_rc \in WriteCodes /\ Ev.reread_rc \in ReadCodes)
                 /\ (Ev.rc # "ECONF_SUCCESS" => ~Ev.obj),
                 [rc |-> ReadCodes])
\* C14
OsLimited(kind, len) == (kind \in {"filename", "mainname"} /\ len > 255) \/ (kind = "path" /\ len >= 4096)
TLong == /\ Ev.e = "long"
         /\ IF OsLimited(Ev.kind, Ev.len)
            THEN Chk(Ev.rc # "ECONF_SUCCESS", [refused_by_os |-> TRUE])
            ELSE Chk(Ev.rc = "ECONF_SUCCESS" /\ (Ev.api \in {"readFile", "readConfig"} \/ (Ev.out_len = Ev.len /\ Ev.head_ok /\ Ev.tail_ok)),
                     [out_len |-> Ev.len, head_ok |-> TRUE, tail_ok |-> TRUE])
Init == l = 1
Next == l <= Len(Tr) /\ l' = l + 1 /\ (TClass \/ TLong)
Spec == Init /\ [][Next]_l
Accepted == TLCGet("stats").diameter - 1 = Len(Tr)
=============================================================================
