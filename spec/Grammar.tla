------------------------------ MODULE Grammar ------------------------------
(* Abstract syntax of CONVENTIONAL configuration files (DESIGN.md 5.1/5.2), their rendering
   into physical lines, and their MEANING computed without parsing: the declarative
   reference of properties C02, C05, C13, C15, C17.  Membership in the grammar never has
   to be recognised from text: files are generated from this abstract syntax.

   An abstract line is a record
     [t, ind, key, sep, val, q, tw, tcc, tct]
   t    kind: "blank" | "comment" | "header" | "entry" | "cont" | "keyonly" | "bad"
   ind  leading blanks           key  key / section name        sep  separator text
   val  value text (meaning)     q    value written in quotes   tw   trailing blanks
   tcc  <<>> or <<c>>: (trailing) comment character             tct  comment text
   "bad" lines carry their raw text in val and the expected error code in key (C13).      *)
EXTENDS Parser

Line(t, ind, key, sep, val, q, tw, tcc, tct) ==
  [t |-> t, ind |-> ind, key |-> key, sep |-> sep, val |-> val, q |-> q, tw |-> tw, tcc |-> tcc, tct |-> tct]
E == <<>>
BlankL(ws)            == Line("blank", ws, E, E, E, FALSE, E, E, E)
CommentL(ind, c, txt) == Line("comment", ind, E, E, E, FALSE, E, <<c>>, txt)
HeaderL(ind, nm, tw)  == Line("header", ind, nm, E, E, FALSE, tw, E, E)
EntryL(ind, k, sep, v, q, tw, tcc, tct) == Line("entry", ind, k, sep, v, q, tw, tcc, tct)
ContL(ind, txt, tw, tcc, tct) == Line("cont", ind, E, E, txt, FALSE, tw, tcc, tct)
KeyOnlyL(ind, k, tw)  == Line("keyonly", ind, k, E, E, FALSE, tw, E, E)
BadL(raw, code)       == Line("bad", E, code, E, raw, FALSE, E, E, E)

Render1(l) ==
  CASE l.t = "blank"   -> l.ind
    [] l.t = "comment" -> l.ind \o l.tcc \o l.tct
    [] l.t = "header"  -> l.ind \o <<LBR>> \o l.key \o <<RBR>> \o l.tw
    [] l.t = "entry"   -> l.ind \o l.key \o l.sep \o (IF l.q THEN <<QUOTE>> \o l.val \o <<QUOTE>> ELSE l.val)
                          \o l.tw \o l.tcc \o l.tct
    [] l.t = "cont"    -> l.ind \o l.val \o l.tw \o l.tcc \o l.tct
    [] l.t = "keyonly" -> l.ind \o l.key \o l.tw
    [] l.t = "bad"     -> l.val
Render(f) == [i \in 1..Len(f) |-> Render1(f[i])]

\* ---------------------------------------------------------------------------------------
\* Meaning: sections in order of first appearance; entries in file order, each in the section
\* of the last header before it; value = the written text (quotes removed); a continuation line
\* adds "\n" + the physical line up to its trailing comment (PYTHON_STYLE: without indentation)
\* ---------------------------------------------------------------------------------------
MInit == [groups |-> <<>>, ents |-> <<>>, cur |-> <<>>, pend |-> <<>>, adj |-> TRUE, line |-> 0, err |-> "ok"]

ValueLines(v) == LET t == TrimSp(v) IN
                 IF t # <<>> /\ t[1] = QUOTE THEN <<t>>
                 ELSE LET ls == SplitAt(t, NLc) IN NonEmpty([i \in 1..Len(ls) |-> TrimSp(ls[i])])

MStep(m0, l, par) ==
  IF m0.err # "ok" THEN m0 ELSE
  LET m == [m0 EXCEPT !.line = @ + 1] IN
  CASE l.t = "blank"   -> [m EXCEPT !.adj = (m.pend = <<>>)]
    [] l.t = "comment" -> [m EXCEPT !.pend = Append(@, l.tct)]
    [] l.t = "header"  -> [m EXCEPT !.cur = l.key, !.groups = AddGroup(@, l.key), !.adj = (m.pend = <<>>)]
    [] l.t \in {"entry", "keyonly"} ->
         LET e == [g |-> m.cur, k |-> l.key, v |-> l.val, line |-> m.line,
                   cb |-> IF m.pend = <<>> THEN <<>> ELSE <<JoinWith(m.pend, NL)>>,
                   cbx |-> m.adj,                          \* comment block directly precedes the entry
                   ca |-> NonEmpty(IF l.tcc = <<>> THEN <<>> ELSE <<l.tct>>)] IN
         [m EXCEPT !.ents = Append(@, e), !.pend = <<>>, !.adj = TRUE]
    [] l.t = "cont" ->
         LET n == Len(m.ents)  e == m.ents[n]
             add == IF par.python THEN l.val \o l.tw \o l.tcc \o l.tct ELSE l.ind \o l.val \o l.tw
             e2 == [e EXCEPT !.v = @ \o NL \o add, !.line = m.line,
                             !.ca = @ \o NonEmpty(IF l.tcc = <<>> \/ par.python THEN <<>> ELSE <<l.tct>>)] IN
         [m EXCEPT !.ents = [@ EXCEPT ![n] = e2], !.pend = <<>>, !.adj = TRUE]
    [] l.t = "bad" -> [m EXCEPT !.err = l.key]

RECURSIVE MFold(_, _, _)
MFold(m, f, par) == IF f = <<>> THEN m ELSE MFold(MStep(m, Head(f), par), Tail(f), par)

\* JOIN_SAME_ENTRIES: the value of a key = lines of all its definitions since the last empty one
DefsOf(ents, g, k) == SelectSeq(ents, LAMBDA e : e.g = g /\ e.k = k)
JoinedLines(defs) ==
  LET empties == {i \in 1..Len(defs) : defs[i].v = <<>>}
      from == IF empties = {} THEN 1 ELSE MaxOf(empties) + 1 IN
  Cat([i \in 1..(Len(defs) - from + 1) |-> ValueLines(defs[from + i - 1].v)])

MListing(m) == Cat([i \in 1..(Len(m.groups) + 1) |->
                      IF i = 1 THEN ByGroup(m.ents, <<>>) ELSE ByGroup(m.ents, m.groups[i-1])])
MEntObs(m, e0, par) ==
  LET e == FirstOf(m.ents, e0.g, e0.k) IN                      \* a key defined twice: first definition
  [g |-> e.g, k |-> e.k, v |-> e.v, line |-> e.line, cb |-> e.cb, ca |-> e.ca,
   vals |-> IF par.join THEN JoinedLines(DefsOf(m.ents, e.g, e.k)) ELSE ValueLines(e.v)]
MObs(m, par) ==
  IF m.err # "ok" THEN [rc |-> m.err, errline |-> m.line]
  ELSE LET L == MListing(m) IN
       [rc |-> "ECONF_SUCCESS", groups |-> m.groups, ents |-> [i \in 1..Len(L) |-> MEntObs(m, L[i], par)]]
Meaning(f, par) == MObs(MFold(MInit, f, par), par)
\* for each listed entry: is its comment block exactly the lines directly preceding it (C17)
CbExactM(m) == LET L == MListing(m) IN [i \in 1..Len(L) |-> FirstOf(m.ents, L[i].g, L[i].k).cbx]
CbExact(f, par) == CbExactM(MFold(MInit, f, par))

\* observation of the parser restricted to what Meaning talks about (join: values are compared
\* through the value list only, the joined text keeps separators of empty definitions)
ObsCmp(o, par) == IF o.rc # "ECONF_SUCCESS" THEN o
                  ELSE [o EXCEPT !.ents = [i \in 1..Len(o.ents) |->
                          IF par.join THEN [o.ents[i] EXCEPT !.v = <<>>, !.ca = <<>>, !.cb = <<>>] ELSE o.ents[i]]]

\* ---------------------------------------------------------------------------------------
\* delimiter classes and grammar side conditions
\* ---------------------------------------------------------------------------------------
Class(D) == IF D = <<>> THEN "NONE"
            ELSE IF HasWsp(D) /\ HasNonWsp(D) THEN "MIXED"
            ELSE IF HasWsp(D) THEN "BLANK" ELSE "NONBLANK"
NonBlanksOf(D) == SelectSeq(D, LAMBDA c : ~IsSp(c))
BlanksOf(D)    == SelectSeq(D, LAMBDA c : IsSp(c))

\* a continuation line may only follow an entry with an unquoted value or another continuation
WellFormedAt(f, i, par) ==
  LET l == f[i] IN
  /\ l.t = "cont" => /\ i > 1 /\ Class(par.delim) \in {"NONBLANK", "BLANK"}
                     /\ (f[i-1].t = "cont" \/ (f[i-1].t = "entry" /\ ~f[i-1].q))
  /\ l.t = "entry" => Class(par.delim) # "NONE"
  /\ l.t = "entry" /\ par.python => l.ind = <<>>      \* PYTHON_STYLE: an indented line is a continuation
  /\ l.t = "keyonly" => Class(par.delim) = "NONE"
WellFormed(f, par) == \A i \in 1..Len(f) : WellFormedAt(f, i, par)

\* ---------------------------------------------------------------------------------------
\* character-level side conditions of the grammar (DESIGN.md 5.1, 5.2): used by the trace
\* specification to certify that a randomly generated line is conventional
\* ---------------------------------------------------------------------------------------
AllBlank(s)  == \A i \in 1..Len(s) : IsBlank(s[i])
Printable(s) == \A i \in 1..Len(s) : (s[i] >= 32 /\ s[i] <= 126) \/ s[i] = TAB
NoneOf(s, cs) == \A i \in 1..Len(s) : ~InStr(s[i], cs)
\* CR LF line ends: the carriage return in front of the line feed is one more trailing blank of the line (of its comment text,
\* when the line ends in a comment)
TrailOk(s)     == AllBlank(s) \/ (s # <<>> /\ s[Len(s)] = 13 /\ AllBlank(SubSeq(s, 1, Len(s) - 1)))
PrintableCr(s) == Printable(s) \/ (s # <<>> /\ s[Len(s)] = 13 /\ Printable(SubSeq(s, 1, Len(s) - 1)))
NoOuterBlank(s) == s = <<>> \/ (~IsBlank(s[1]) /\ ~IsBlank(s[Len(s)]))
TcOk(l, par) == \/ l.tcc = <<>> /\ l.tct = <<>>
                \/ /\ Len(l.tcc) = 1 /\ InStr(l.tcc[1], par.comment) /\ ~par.python
                   /\ PrintableCr(l.tct) /\ NoneOf(l.tct, par.comment \o <<QUOTE>>)
SepOk(sep, D) ==
  LET cl == Class(D)  core == TrimSp(sep) IN
  CASE cl = "NONBLANK" -> Len(core) = 1 /\ InStr(core[1], D) /\ AllBlank(SelectSeq(sep, LAMBDA c : c # core[1]))
                          /\ Cardinality({i \in 1..Len(sep) : sep[i] = core[1]}) = 1
    [] cl = "BLANK"    -> sep # <<>> /\ AllBlank(sep) /\ \E i \in 1..Len(sep) : InStr(sep[i], D)
    [] cl = "MIXED"    -> \/ (sep # <<>> /\ AllBlank(sep))
                          \/ (Len(core) = 1 /\ ~IsBlank(core[1]) /\ InStr(core[1], D)
                              /\ Cardinality({i \in 1..Len(sep) : ~IsBlank(sep[i])}) = 1)
    [] OTHER -> FALSE
AbsOk(l, par) ==
  LET D == par.delim  C == par.comment  cl == Class(D) IN
  CASE l.t = "blank"   -> TrailOk(l.ind)
    [] l.t = "comment" -> AllBlank(l.ind) /\ Len(l.tcc) = 1 /\ InStr(l.tcc[1], C) /\ PrintableCr(l.tct)
    [] l.t = "header"  -> /\ AllBlank(l.ind) /\ TrailOk(l.tw) /\ l.key # <<>> /\ Printable(l.key) /\ NoOuterBlank(l.key)
                          /\ NoneOf(l.key, C \o <<LBR, RBR, QUOTE, TAB>>)
    [] l.t = "entry"   -> /\ cl # "NONE" /\ AllBlank(l.ind) /\ TrailOk(l.tw) /\ (par.python => l.ind = <<>>)
                          /\ l.key # <<>> /\ Printable(l.key) /\ NoneOf(l.key, D \o C \o <<SP, TAB, QUOTE, LBR, RBR>>)
                          /\ SepOk(l.sep, D) /\ Printable(l.val) /\ TcOk(l, par)
                          /\ (~l.q => /\ NoOuterBlank(l.val) /\ (l.val # <<>> => l.val[1] # QUOTE)
                                       /\ (~par.python => NoneOf(l.val, C))
                                       /\ (par.python /\ l.val # <<>> => ~InStr(l.val[1], D))
                                       /\ (cl = "MIXED" /\ AllBlank(l.sep) /\ l.val # <<>> => ~InStr(l.val[1], D)))
                          /\ (l.q /\ par.python => NoneOf(l.val, <<QUOTE>>))
    [] l.t = "cont"    -> /\ cl \in {"NONBLANK", "BLANK"} /\ l.ind # <<>> /\ AllBlank(l.ind) /\ TrailOk(l.tw)
                          /\ l.val # <<>> /\ Printable(l.val) /\ NoOuterBlank(l.val)
                          /\ l.val[1] # LBR /\ ~InStr(l.val[1], C) /\ TcOk(l, par)
                          /\ (~par.python => NoneOf(l.val, D \o C))
                          /\ (cl = "BLANK" => l.tw = <<>> /\ l.tcc = <<>>)
                          /\ (par.python => l.tcc = <<>>)
    [] l.t = "keyonly" -> /\ cl = "NONE" /\ AllBlank(l.ind) /\ TrailOk(l.tw) /\ l.key # <<>> /\ Printable(l.key)
                          /\ NoOuterBlank(l.key) /\ NoneOf(l.key, C \o <<QUOTE, LBR, RBR>>)
    [] l.t = "bad"     -> Printable(SelectSeq(l.val, LAMBDA c : c # 13)) /\ NoneOf(l.val, C)    \* (a carriage return inside the line: a blank like any other)
    [] OTHER -> FALSE
=============================================================================
