------------------------------ MODULE KeyFile ------------------------------
(* The configuration object behind econf_file* as the public set/get/list API shows it
   (lib/libeconf.c, lib/helpers.c find_key/new_key/setKeyValue, lib/keyfile.c).

   obj = [ents, secs]
     ents  entries in array order      [g, k, v, hasv]     (g = <<>> : group-less)
     secs  section names in order of first appearance (a parsed file may have sections
           without keys; the setters only ever add key-bearing ones)

   Operational: first-match lookup, append on miss, replace in place on hit.
   Reference (C11): an ordered map (section,key) -> text; RefinesMap ties the two together.
   Optional arguments (NULL) are <<>> / <<x>>.                                            *)
EXTENDS Cfg

NewObj == [ents |-> <<>>, secs |-> <<>>]
KEnt(g, k, v, hasv) == [g |-> g, k |-> k, v |-> v, hasv |-> hasv]

\* stripbrackets(): "[A]" denotes section A (value getters/setters only)
Strip(s) == IF Len(s) >= 2 /\ s[1] = LBR /\ s[Len(s)] = RBR
            THEN LET p == StrChr(Tail(s), RBR) IN SubSeq(s, 2, p)       \* up to the FIRST closing bracket
            ELSE s
\* group argument of value getters/setters: NULL or "" = group-less, brackets optional
NormGV(go) == IF go = <<>> THEN NoG ELSE Strip(go[1])
\* group argument of econf_getKeys: plain name, NULL or "" = group-less
NormGK(go) == IF go = <<>> THEN NoG ELSE go[1]
KeyOk(ko) == ko # <<>> /\ ko[1] # <<>>

Find(o, g, k) == LET I == {i \in 1..Len(o.ents) : o.ents[i].g = g /\ o.ents[i].k = k} IN IF I = {} THEN 0 ELSE MinOf(I)
AddSec(secs, g) == IF g = NoG \/ Has(secs, g) THEN secs ELSE Append(secs, g)

\* econf_set<T>Value with the text the typed setter stores
SetText(o, g, k, v) ==
  LET i == Find(o, g, k) IN
  IF i = 0 THEN [ents |-> Append(o.ents, KEnt(g, k, v, TRUE)), secs |-> AddSec(o.secs, g)]
  ELSE [o EXCEPT !.ents[i].v = v, !.ents[i].hasv = TRUE]

\* listings
KeysIn(o, g)  == LET es == SelectSeq(o.ents, LAMBDA e : e.g = g) IN [i \in 1..Len(es) |-> es[i].k]
Sections(o)   == o.secs
ValueAt(o, i) == IF o.ents[i].hasv THEN <<o.ents[i].v>> ELSE <<>>
Dump(o) == [groups |-> o.secs,
            ents |-> LET gs == <<NoG>> \o o.secs IN
                     Cat([n \in 1..Len(gs) |->
                            LET ks == KeysIn(o, gs[n]) IN
                            [i \in 1..Len(ks) |-> [g |-> gs[n], k |-> ks[i],
                                                   v |-> LET j == Find(o, gs[n], ks[i]) IN IF o.ents[j].hasv THEN o.ents[j].v ELSE <<>>]]])]

\* object obtained by parsing (Parser state -> object)
ObjOfParse(st) == [ents |-> [i \in 1..Len(st.ents) |-> KEnt(st.ents[i].g, st.ents[i].k, st.ents[i].v, st.ents[i].hasv)],
                   secs |-> st.groups]

\* ---------- canonical texts of the typed setters ----------
RECURSIVE NatText(_)
NatText(n) == IF n < 10 THEN <<48 + n>> ELSE NatText(n \div 10) \o <<48 + (n % 10)>>
IntText(n) == IF n < 0 THEN <<45>> \o NatText(0 - n) ELSE NatText(n)
TrueWords  == {<<49>>, <<121,101,115>>, <<116,114,117,101>>}            \* 1 yes true
FalseWords == {<<48>>, <<110,111>>, <<102,97,108,115,101>>}             \* 0 no false
BoolText(w) == IF LowerS(w) \in TrueWords THEN <<116,114,117,101>> ELSE <<102,97,108,115,101>>
BoolWordOk(w) == LowerS(w) \in TrueWords \cup FalseWords

\* ---------- reference ordered map (the sentence of C11) ----------
\* rm = sequence of [g, k, v] without duplicate (g,k), in insertion order
RmSet(rm, g, k, v) == IF \E i \in 1..Len(rm) : rm[i].g = g /\ rm[i].k = k
                      THEN [i \in 1..Len(rm) |-> IF rm[i].g = g /\ rm[i].k = k THEN Ent(g, k, v) ELSE rm[i]]
                      ELSE Append(rm, Ent(g, k, v))
RmOf(o) == LET idx == SelectSeq([i \in 1..Len(o.ents) |-> i], LAMBDA i : Find(o, o.ents[i].g, o.ents[i].k) = i) IN
           [n \in 1..Len(idx) |-> Ent(o.ents[idx[n]].g, o.ents[idx[n]].k, o.ents[idx[n]].v)]
=============================================================================
