------------------------------- MODULE Layers -------------------------------
(* Layered reads (lib/readconfig.c readConfigHistoryWithCallback, lib/mergefiles.c
   check_conf_dir / merge_econf_files) over an abstract tree.

   tree = [main, drop, mshape, dshape]
     main[i]  \in {"absent","regular","empty","devnull"}       main file of layer i (1 = lowest)
              or "dangling": a symbolic link whose target does not exist.  lstat() finds it, so the
              restrictions and the callback see it, but it cannot be opened: the scan for the main
              file goes on below it as if it were absent (fault scenarios of C20 only; the tree
              universes of C01/C12 are generated from MainKinds)
     drop[i]  \subseteq 1..9                                   drop-in names present in layer i
   Names are indices into the pool below, ordered byte-wise by index; whether a name carries the
   suffix ".conf" is computed (Carries): 1 (".conf" itself), 7 ("a.conf.bak") and 8 ("conf") do not.
   A file is identified by f = [l |-> layer, r |-> role]  (r = 0: main file, r > 0: drop-in name).
   Content is a function of identity so that provenance shows in the result.

   faults[f] \subseteq {"reject","owner","group","symlink","malformed"}: what makes the read of
   file f fail (callback verdict, violated restriction, parse error).

   Read(tree, faults)  — operational, in the order of the code: reverse scan for the main file,
                         drop-ins ascending by (layer, byte order), callback before use, stop at the
                         first failure, left fold of MergeImpl over the unmasked files.
   UapiRef(tree)       — the sentence of property C01 as an unordered map.                      *)
EXTENDS Merge, FiniteSetsExt, SequencesExt

NLy(tree) == Len(tree.main)         \* number of layers
MainKinds == {"absent", "regular", "empty", "devnull"}
NameStr == << <<46,99,111,110,102>>,                   \* 1 .conf        (exactly the suffix: NOT longer than it)
              <<46,104,46,99,111,110,102>>,            \* 2 .h.conf      (dot file, carries the suffix)
              <<49,48,45,97,46,99,111,110,102>>,        \* 3 10-a.conf    (byte order # numeric order)
              <<57,45,98,46,99,111,110,102>>,           \* 4 9-b.conf
              <<66,46,99,111,110,102>>,                 \* 5 B.conf       (byte order # case-folding order)
              <<97,46,99,111,110,102>>,                 \* 6 a.conf
              <<97,46,99,111,110,102,46,98,97,107>>,    \* 7 a.conf.bak   (does not end with the suffix)
              <<99,111,110,102>>,                       \* 8 conf         (shorter than the suffix)
              <<195,169,46,99,111,110,102>>,            \* 9 e-acute.conf (UTF-8 bytes >= 0x80 sort AFTER all ASCII names)
              <<43,122,46,99,111,110,102>>,             \* 10 +z.conf    (first byte below '.': listed BEFORE the entries . and ..)
              <<46,45,120,46,99,111,110,102>> >>        \* 11 .-x.conf   (listed between . and ..)
NNames == 11
Suffix == <<46,99,111,110,102>>
\* names 1..9 are numbered in byte order; 10 and 11 were added later and sort in front of them: the order inside a directory is
\* NameLess (byte-wise, what alphasort gives in the C locale), not the number
ASSUME \A i \in 1..8 : ByteLess(NameStr[i], NameStr[i+1])
NameLess(x, y) == ByteLess(NameStr[x], NameStr[y])
\* check_conf_dir: strictly longer than the suffix and ending with it
Carries(n) == Len(Suffix) < Len(NameStr[n]) /\ EndsWith(NameStr[n], Suffix)

File(l, r) == [l |-> l, r |-> r]

\* ---------- content by identity ----------
Digit(n) == IF n < 10 THEN 48 + n ELSE 87 + n        \* 0..9, then a, b, ...
IdVal(f) == <<Digit(f.l), Digit(f.r)>>
UKey(f)  == <<85, Digit(f.l), Digit(f.r)>>               \* "U<l><r>"
KKey     == <<75>>                                        \* "K"
SecS     == <<83>>                                        \* "S"
\* content shapes, named by one letter per role (main file, drop-ins) in the two-letter shape string:
\*   b both (group-less keys and section S)   n group-less keys only   s section S only
\*   h group-less keys followed by a header-only section: the line `[S]` with no key below it (a vendor
\*     file whose section holds only commented-out defaults).  It contributes no entry: keys that other
\*     files define in S must arrive all the same.
MShape(s) == CASE s \in {"bb", "bn", "bs", "bh", "bc"} -> "both" [] s \in {"nb", "nn", "ns", "nh", "nc"} -> "nogroup"
               [] s \in {"hb", "hn", "hs", "hh", "hc"} -> "header" [] OTHER -> "section"
ASSUME \A s \in {"bc", "nc", "sc", "hc", "bh", "hs"} : MShape(s) \in {"both", "nogroup", "section", "header"}
\*   c (drop-ins only) comment lines only: the file is consulted, merged and listed in the history, but sets nothing
DShape(s) == CASE s \in {"bb", "nb", "sb", "hb"} -> "both" [] s \in {"bn", "nn", "sn", "hn"} -> "nogroup"
               [] s \in {"bh", "nh", "sh", "hh"} -> "header" [] s \in {"bc", "nc", "sc", "hc"} -> "comment" [] OTHER -> "section"
Body(f, shape) ==
  (IF shape \in {"both", "nogroup", "header"} THEN <<Ent(NoG, KKey, IdVal(f)), Ent(NoG, UKey(f), <<49>>)>> ELSE <<>>)
  \o (IF shape \in {"both", "section"} THEN <<Ent(SecS, KKey, IdVal(f)), Ent(SecS, UKey(f), <<49>>)>> ELSE <<>>)
\* drop-ins that are symbolic links to /dev/null or empty regular files (the usual ways to switch a vendor drop-in off:
\* the file has the vendor file's name, so it masks it, and contributes nothing itself); optional field of the tree
DNull(tree, i) == IF "dnull" \in DOMAIN tree THEN tree.dnull[i] ELSE {}
Content(tree, f) == IF f.r = 0
                    THEN (IF tree.main[f.l] = "regular" THEN Body(f, tree.mshape) ELSE <<>>)   \* empty, /dev/null
                    ELSE IF f.r \in DNull(tree, f.l) THEN <<>> ELSE Body(f, tree.dshape)

\* ---------- which files are consulted, in processing order ----------
RECURSIVE MainScan(_, _)
MainScan(tree, i) == IF i = 0 THEN <<>>                                 \* reverse scan: highest layer first
                     ELSE IF tree.main[i] = "dangling" THEN <<File(i, 0)>> \o MainScan(tree, i - 1)
                     ELSE IF tree.main[i] # "absent" THEN <<File(i, 0)>> ELSE MainScan(tree, i - 1)
IsDangling(tree, f) == f.r = 0 /\ tree.main[f.l] = "dangling"
\* the consulted files that could be opened
Real(tree, K) == SelectSeq(K, LAMBDA f : ~IsDangling(tree, f))
\* postfix directory of drop-in n in layer i (CONFIG_DIRS / econf_set_conf_dirs lists): 1 unless the tree says otherwise
PdOf(tree, i, n) == IF "pd" \in DOMAIN tree THEN tree.pd[i][n] ELSE 1
\* inside a layer: postfix directories in list order, inside a directory alphasort = byte order of the names
DropsOf(tree, i) == LET s == SetToSortSeq({n \in tree.drop[i] : Carries(n)},
                                          LAMBDA x, y : PdOf(tree, i, x) < PdOf(tree, i, y) \/ (PdOf(tree, i, x) = PdOf(tree, i, y) /\ NameLess(x, y))) IN
                    [j \in 1..Len(s) |-> File(i, s[j])]
RECURSIVE AllDrops(_, _)
AllDrops(tree, i) == IF i > NLy(tree) THEN <<>> ELSE DropsOf(tree, i) \o AllDrops(tree, i + 1)
Consulted(tree) == MainScan(tree, NLy(tree)) \o AllDrops(tree, 1)

\* ---------- one consulted file after the other ----------
\* faults[f] = SET of things that make the read of file f fail:
\*   "symlink" "owner" "group" "fileperm" "dirperm"   a restriction in force that the file violates (checked first, in lstat order)
\*   "reject"                   the caller's callback says no (asked after the restrictions, before parsing)
\*   "malformed"                the content has a malformed line (found last)
\*   "dangling"                 a drop-in that is a symbolic link to nowhere: listed by scandir, accepted by the
\*                              callback, but it cannot be opened: the read fails with ECONF_NOFILE
SecKinds == {"owner", "group", "symlink", "fileperm", "dirperm"}
CodeOf(x) == CASE x = "reject" -> "ECONF_PARSING_CALLBACK_FAILED"
               [] x = "owner" -> "ECONF_WRONG_OWNER" [] x = "group" -> "ECONF_WRONG_GROUP"
               [] x = "symlink" -> "ECONF_ERROR_FILE_IS_SYM_LINK"
               [] x = "fileperm" -> "ECONF_WRONG_FILE_PERMISSION"
               [] x = "dirperm" -> "ECONF_WRONG_DIR_PERMISSION"
               [] x = "malformed" -> "ECONF_MISSING_BRACKET"
               [] x = "dangling" -> "ECONF_NOFILE"
               [] OTHER -> "ECONF_SUCCESS"
\* which codes may be reported for a failing file: a violated restriction wins over the callback, the
\* callback over the content; among several violated restrictions any of their codes is accepted
CodesOf(X) == IF X \cap SecKinds # {} THEN {CodeOf(x) : x \in X \cap SecKinds}
              ELSE IF "reject" \in X THEN {CodeOf("reject")} ELSE {CodeOf(x) : x \in X}
RefusedBeforeCallback(X) == X \cap SecKinds # {}
\* index of the first consulted file that fails (0 = none)
FirstFault(K, faults) == LET B == {j \in 1..Len(K) : faults[K[j]] # {}} IN IF B = {} THEN 0 ELSE Min(B)
\* paths handed to the callback: every consulted file up to the first failure; a file refused by a
\* restriction is refused BEFORE the callback is asked
CallbackLog(K, faults) ==
  LET ff == FirstFault(K, faults) IN
  IF ff = 0 THEN K ELSE IF RefusedBeforeCallback(faults[K[ff]]) THEN SubSeq(K, 1, ff - 1) ELSE SubSeq(K, 1, ff)

\* masking (merge_econf_files): a drop-in is dropped when a LATER consulted file has the same name
Masked(K, j) == K[j].r # 0 /\ \E j2 \in (j+1)..Len(K) : K[j2].r = K[j].r
Unmasked(K) == LET idx == SelectSeq([j \in 1..Len(K) |-> j], LAMBDA j : ~Masked(K, j)) IN [n \in 1..Len(idx) |-> K[idx[n]]]

Read(tree, faults) ==
  LET K == Consulted(tree)  ff == FirstFault(K, faults)  R == Real(tree, K) IN
  IF K = <<>> THEN [rc |-> "ECONF_NOFILE", rcs |-> {"ECONF_NOFILE"}, log |-> <<>>, cfg |-> <<>>, errfile |-> <<>>, hist |-> <<>>]
  ELSE IF ff # 0 THEN LET cs == CodesOf(faults[K[ff]]) IN
                      [rc |-> IF Cardinality(cs) = 1 THEN CHOOSE c \in cs : TRUE ELSE "one-of", rcs |-> cs,
                       log |-> CallbackLog(K, faults), cfg |-> <<>>, errfile |-> <<K[ff]>>, hist |-> <<>>]
  ELSE IF R = <<>> THEN [rc |-> "ECONF_NOFILE", rcs |-> {"ECONF_NOFILE"}, log |-> K, cfg |-> <<>>, errfile |-> <<>>, hist |-> <<>>]
  ELSE LET U == Unmasked(R) IN
       [rc |-> "ECONF_SUCCESS", rcs |-> {"ECONF_SUCCESS"}, log |-> K, errfile |-> <<>>, hist |-> R,
        cfg |-> FoldMerge([j \in 1..Len(U) |-> Content(tree, U[j])])]
AllFiles(tree) == {File(l, r) : l \in 1..NLy(tree), r \in 0..NNames}
NoFaults(tree) == [f \in AllFiles(tree) |-> {}]

\* econf_getPath of the result (C17): a result merged from two or more consulted files has no path of its own
MergedResult(tree, faults) == LET o == Read(tree, faults) IN o.rc = "ECONF_SUCCESS" /\ Len(o.hist) >= 2
PathIsEmpty(tree, faults) == MergedResult(tree, faults)

\* ---------- the sentence of C01 ----------
Override(m1, m2) == [p \in DOMAIN m1 \cup DOMAIN m2 |-> IF p \in DOMAIN m2 THEN m2[p] ELSE m1[p]]
RECURSIVE FoldOv(_)
FoldOv(ms) == IF Len(ms) = 1 THEN ms[1] ELSE Override(FoldOv(SubSeq(ms, 1, Len(ms) - 1)), ms[Len(ms)])
HasMain(tree) == {i \in 1..NLy(tree) : tree.main[i] \notin {"absent", "dangling"}}
RefMain(tree) == IF HasMain(tree) = {} THEN <<>> ELSE <<MapOf(Content(tree, File(Max(HasMain(tree)), 0)))>>
\* effective drop-ins: carry the suffix; no higher layer holds the same name
Effective(tree) == {<<i, n>> \in (1..NLy(tree)) \X (1..NNames) :
                      n \in tree.drop[i] /\ Carries(n) /\ \A j \in (i+1)..NLy(tree) : n \notin tree.drop[j]}
\* ascending by layer, then postfix directory (list order: "the last entry has the highest priority"), then name
EffSeq(tree) == SetToSortSeq(Effective(tree), LAMBDA x, y : x[1] < y[1] \/ (x[1] = y[1] /\
                     (PdOf(tree, x[1], x[2]) < PdOf(tree, y[1], y[2]) \/ (PdOf(tree, x[1], x[2]) = PdOf(tree, y[1], y[2]) /\ NameLess(x[2], y[2])))))
NothingThere(tree) == HasMain(tree) = {} /\ \A i \in 1..NLy(tree) : {n \in tree.drop[i] : Carries(n)} = {}
EmptyMap == [p \in {} |-> <<>>]
UapiRef(tree) == IF NothingThere(tree) THEN [rc |-> "ECONF_NOFILE", map |-> EmptyMap]
                 ELSE LET E == EffSeq(tree)
                          ms == RefMain(tree) \o [j \in 1..Len(E) |-> MapOf(Content(tree, File(E[j][1], E[j][2])))] IN
                      [rc |-> "ECONF_SUCCESS", map |-> FoldOv(ms)]
=============================================================================
