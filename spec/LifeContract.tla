---------------------------- MODULE LifeContract ----------------------------
(* out-pointer contract of the read entry points and constructors (see Lifecycle.tla) *)
EXTENDS Naturals, FiniteSets, Sequences
OutPtrAllowed(call, ok, init) ==
  IF call = "newopt" THEN (IF ok THEN {"valid"} ELSE {"valid", "null"})
  ELSE IF ok THEN {"valid"}
  ELSE IF init = "object" THEN {"unchanged"}
  ELSE {"null"}

=============================================================================
