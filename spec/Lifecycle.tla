----------------------------- MODULE Lifecycle -----------------------------
(* Ownership contract of the public API (C20): what the caller holds after each call on each
   path, and that nothing allocated by the library outlives the handles the caller releases.

   Abstract heap: a set of live blocks, each owned by the "lib" (temporary) or handed to the
   "caller".  A call = Begin (library allocates temporaries: one object per consulted file, the
   file list, option copies), then either Success (result handed to the caller, temporaries
   released) or Fail@k (everything allocated so far released, out-pointer contract below).
   The caller then releases what it holds with the documented free functions.

   Out-pointer after the call, by entry point and initialisation:
     init = "null"    (pointer was NULL / uninitialised out-parameter)
         success -> "valid" ; failure -> "null"
     init = "object"  (econf_readConfig with an option object created by the caller)
         success -> "valid" (the option object has been consumed) ; failure -> "unchanged"
     econf_newKeyFile_with_options with an unknown item -> "valid" (caller frees it; pinned by the
         repository's tst-options) or "null"
     history variant: failure -> array "null" and size 0                                          *)
EXTENDS LifeContract

\* ---------- abstract allocation accounting of one layered read ----------
VARIABLES heap, held, phase, k, nfiles, failat, init
lvars == <<heap, held, phase, k, nfiles, failat, init>>
Block(owner, what, i) == [owner |-> owner, what |-> what, i |-> i]

LInit(n, f, ini) == /\ heap = (IF ini = "object" THEN {Block("caller", "optobj", 0)} ELSE {})
                    /\ held = (IF ini = "object" THEN {Block("caller", "optobj", 0)} ELSE {})
                    /\ phase = "idle" /\ k = 0 /\ nfiles = n /\ failat = f /\ init = ini
LBegin == /\ phase = "idle" /\ phase' = "reading"
          /\ heap' = heap \cup {Block("lib", "filelist", 0)}
          /\ UNCHANGED <<held, k, nfiles, failat, init>>
\* one consulted file: its object is allocated, then the file is checked / parsed
LFile == /\ phase = "reading" /\ k < nfiles /\ (failat = 0 \/ k + 1 <= failat)
         /\ k' = k + 1
         /\ IF failat = k + 1
            THEN \* failure at this file: its object and everything read so far is released, nothing is handed out
                 /\ heap' = {b \in heap : b.owner = "caller"}
                 /\ phase' = "failed"
            ELSE /\ heap' = heap \cup {Block("lib", "fileobj", k + 1)}
                 /\ phase' = "reading"
         /\ UNCHANGED <<held, nfiles, failat, init>>
LEnd == /\ phase = "reading" /\ k = nfiles /\ failat = 0
        /\ phase' = "done"
        /\ LET res == Block("caller", "result", 0) IN
           \* merged result handed to the caller; temporaries and a consumed option object released
           /\ heap' = {res}
           /\ held' = {res}
        /\ UNCHANGED <<k, nfiles, failat, init>>
LRelease == /\ phase \in {"done", "failed"} /\ phase' = "released"
            /\ heap' = heap \ held /\ held' = {}
            /\ UNCHANGED <<k, nfiles, failat, init>>
LNext == LBegin \/ LFile \/ LEnd \/ LRelease

\* the contract
OutPtr == IF phase = "done" THEN "valid"
          ELSE IF phase = "failed" THEN (IF init = "object" THEN "unchanged" ELSE "null") ELSE "n/a"
OutPtrContract == phase \in {"done", "failed"} => OutPtr \in OutPtrAllowed("read", phase = "done", init)
NoLibraryLeftovers == phase \in {"done", "failed"} => \A b \in heap : b.owner = "caller" /\ b \in held
QuiescentEmpty == phase = "released" => heap = {}
=============================================================================
