SPECIFICATION Spec
INVARIANT LogIsPrefix
INVARIANT UsedOnlyIfAccepted
INVARIANT VisibleOnlyIfAccepted
INVARIANT RejectionYieldsNothing
INVARIANT RefinesRead
CHECK_DEADLOCK FALSE
CONSTANTS NLay = 3
 NameSet = {3, 6}
 MaxRej = 2
