---------------------------- MODULE MC_Callback ----------------------------
(* C06 on the model: a layered read with a check callback as a multi-step state machine
       Begin -> Callback(f1) -> Callback(f2) ... -> End
   over every tree (3 layers, 2 drop-in names) and every set of at most MaxRej rejected files.
   Invariants: the callback sees exactly the consulted files in processing order; a file's
   content is used only after the callback accepted it; after the first rejection the call
   ends with ECONF_PARSING_CALLBACK_FAILED, no object and no history; the stepwise machine
   ends exactly where the functional specification Layers!Read says.                        *)
EXTENDS Layers, TLC
CONSTANTS NLay, NameSet, MaxRej
VARIABLES main, drop, stage, rej, run
vars == <<main, drop, stage, rej, run>>

Tree == [main |-> main, drop |-> drop, mshape |-> "both", dshape |-> "both"]
Idle == [phase |-> "idle", K |-> <<>>, pos |-> 0, log |-> <<>>, used |-> {}, failed |-> FALSE,
         rc |-> "none", cfg |-> <<>>, hist |-> <<>>]
Faults == [f \in AllFiles(Tree) |-> IF f \in rej THEN {"reject"} ELSE {}]

Init == main = <<>> /\ drop = <<>> /\ stage = 0 /\ rej = {} /\ run = Idle
Grow == /\ stage < NLay /\ stage' = stage + 1
        /\ \E k \in MainKinds, d \in SUBSET NameSet : main' = Append(main, k) /\ drop' = Append(drop, d)
        /\ UNCHANGED <<rej, run>>
ChooseRej == /\ stage = NLay /\ stage' = NLay + 1
             /\ \E s \in SUBSET {Consulted(Tree)[j] : j \in 1..Len(Consulted(Tree))} :
                  Cardinality(s) <= MaxRej /\ rej' = s
             /\ UNCHANGED <<main, drop, run>>
Begin == /\ stage = NLay + 1 /\ run.phase = "idle"
         /\ run' = [Idle EXCEPT !.phase = "reading", !.K = Consulted(Tree)]
         /\ UNCHANGED <<main, drop, stage, rej>>
\* the library asks the callback about the next consulted file BEFORE using it
Callback == /\ run.phase = "reading" /\ ~run.failed /\ run.pos < Len(run.K)
            /\ LET f == run.K[run.pos + 1]  ok == f \notin rej IN
               run' = [run EXCEPT !.pos = @ + 1, !.log = Append(@, [f |-> f, v |-> ok]),
                                  !.used = IF ok THEN @ \cup {f} ELSE @, !.failed = ~ok]
            /\ UNCHANGED <<main, drop, stage, rej>>
End == /\ run.phase = "reading" /\ (run.failed \/ run.pos = Len(run.K))
       /\ run' = IF run.K = <<>> THEN [run EXCEPT !.phase = "done", !.rc = "ECONF_NOFILE"]
                 ELSE IF run.failed THEN [run EXCEPT !.phase = "done", !.rc = "ECONF_PARSING_CALLBACK_FAILED"]
                 ELSE LET U == Unmasked(run.K) IN
                      [run EXCEPT !.phase = "done", !.rc = "ECONF_SUCCESS", !.hist = run.K,
                                  !.cfg = FoldMerge([j \in 1..Len(U) |-> Content(Tree, U[j])])]
       /\ UNCHANGED <<main, drop, stage, rej>>
Next == Grow \/ ChooseRej \/ Begin \/ Callback \/ End
Spec == Init /\ [][Next]_vars

LogFiles == [j \in 1..Len(run.log) |-> run.log[j].f]
\* (i) the callback sequence is a prefix of the consulted files, in processing order
LogIsPrefix == run.phase # "idle" => LogFiles = SubSeq(run.K, 1, Len(run.log))
\* (ii) nothing of a file is used unless the callback accepted it
UsedOnlyIfAccepted == \A f \in run.used : \E j \in 1..Len(run.log) : run.log[j].f = f /\ run.log[j].v
VisibleOnlyIfAccepted == run.phase = "done" /\ run.rc = "ECONF_SUCCESS" =>
                         \A j \in 1..Len(run.K) : run.K[j] \in run.used
\* (iii) one rejection yields nothing
RejectionYieldsNothing == run.phase = "done" /\ (\E j \in 1..Len(run.log) : ~run.log[j].v) =>
                          run.rc = "ECONF_PARSING_CALLBACK_FAILED" /\ run.cfg = <<>> /\ run.hist = <<>>
\* the stepwise machine ends where the functional specification says
RefinesRead == run.phase = "done" =>
               LET o == Read(Tree, Faults) IN
               o.rc = run.rc /\ o.cfg = run.cfg /\ o.log = LogFiles /\ o.hist = run.hist
=============================================================================
