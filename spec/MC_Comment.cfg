SPECIFICATION Spec
INVARIANT CommentInert
CONSTRAINT ExportCase
CHECK_DEADLOCK FALSE
CONSTANTS MaxLines = 2
 MaxIns = 2
 Export = FALSE
 ExportMaxIns = 1
 Opt = "none"
