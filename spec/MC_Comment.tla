----------------------------- MODULE MC_Comment -----------------------------
(* C05: a line whose first non-blank character is a comment character is inert.
   Universe: every single-line-value conventional file `f` of at most MaxLines lines over a
   base pool, and every way of inserting 1..MaxIns comment lines at any positions; the comment
   text ranges over the structural alphabet: further comment characters, delimiters, quotes,
   brackets, things that look like entries, headers and continuation lines, with and without
   indentation.  g = f with the insertions.
   Model property:  sections/keys/values of Parse(Render(g)) = those of Meaning(f), no error.
   Exported expectation for the library: Meaning(f)  (the file WITHOUT the comment lines).   *)
EXTENDS Pools, TLC, Json, SequencesExt
CONSTANTS MaxLines, MaxIns, Export, ExportMaxIns,
          Opt            \* "none" | "python" | "join": the parsing option in force (a comment line is inert under every option)
VARIABLES par, f, g, ins, phase
vars == <<par, f, g, ins, phase>>

Pars == ParsFor(Opt)

BasePool(p) ==
  LET D == p.delim  s1 == Sep1(D) IN
  {BlankL(E), HeaderL(E, <<83>>, E)}
  \cup (IF Class(D) = "NONE" THEN {KeyOnlyL(E, a, E), KeyOnlyL(sp, b, E)}
        ELSE IF p.python \/ p.join
        THEN {EntryL(E, a, s1, v, FALSE, E, E, E), EntryL(E, b, s1, E, FALSE, E, E, E), EntryL(E, a, s1, v \o sp \o w, FALSE, sp, E, E)}
        ELSE {EntryL(E, a, s1, v, FALSE, E, E, E), EntryL(E, b, s1, E, FALSE, E, E, E),
              EntryL(sp, a, s1, sp \o v \o sp, TRUE, sp, E, E), EntryL(E, b, s1, v \o sp \o w, FALSE, E, <<p.comment[1]>>, cc)})

\* texts of inserted comment lines with their "hard" features
ComTexts(p) ==
  LET D == p.delim  C == p.comment  c1 == C[1]  c2 == C[Len(C)]  s1 == IF D = <<>> THEN sp ELSE Sep1(D) IN
  { [t |-> cc,                                  feat |-> {}],
    [t |-> <<c1>> \o sp \o cc,                  feat |-> {"comment"}],          \* "## c"
    [t |-> a \o s1 \o v,                        feat |-> {"delim"}],            \* "#a=v"
    [t |-> a \o s1 \o v \o sp \o <<c2>> \o cc,  feat |-> {"delim", "comment"}], \* "#a=v #c"
    [t |-> sp \o a \o <<c1>> \o b,              feat |-> {"comment"}],
    [t |-> <<LBR, 83, RBR>>,                    feat |-> {"bracket"}],
    [t |-> <<LBR, 83>>,                         feat |-> {"bracket"}],
    [t |-> <<QUOTE>> \o v,                      feat |-> {"quote"}],
    [t |-> a \o s1 \o <<QUOTE>> \o v \o <<QUOTE>> \o sp \o <<c1>>, feat |-> {"delim", "quote", "comment"}],
    [t |-> E,                                   feat |-> {}] }
InsLines(p) == {[l |-> CommentL(i, c, x.t), feat |-> x.feat \cup (IF i = E THEN {} ELSE {"indent"})] :
                   i \in {E, sp, tb \o sp}, c \in {p.comment[k] : k \in 1..Len(p.comment)}, x \in ComTexts(p)}

\* a second inserted line comes from a small sub-pool (two comment lines next to each other,
\* around an entry, ...), so that pairs stay enumerable
InsLines2(p) == {x \in InsLines(p) : x.l.tcc = <<p.comment[1]>> /\ x.l.ind \in {E, sp}
                                     /\ x.l.tct \in {cc, <<p.comment[1]>> \o sp \o cc, <<LBR, 83, RBR>>}}
InsAt(s, pos, x) == SubSeq(s, 1, pos - 1) \o <<x>> \o SubSeq(s, pos, Len(s))

Init == par \in Pars /\ f = <<>> /\ g = <<>> /\ ins = <<>> /\ phase = "base"
Grow == /\ phase = "base" /\ Len(f) < MaxLines
        /\ \E l \in BasePool(par) : WellFormedAt(Append(f, l), Len(f) + 1, par) /\ f' = Append(f, l) /\ g' = Append(f, l)
        /\ UNCHANGED <<par, ins, phase>>
Insert == /\ f # <<>> /\ Len(ins) < MaxIns
          /\ \E x \in (IF ins = <<>> THEN InsLines(par) ELSE InsLines2(par)), pos \in 1..(Len(g) + 1) :
               \* canonical order: later insertions never go before earlier ones (same multiset = same file)
               /\ (ins # <<>> => pos >= ins[Len(ins)].pos)
               /\ g' = InsAt(g, pos, x.l)
               /\ ins' = Append(ins, [pos |-> pos, feat |-> x.feat \cup
                                       (IF pos > 1 /\ g[pos-1].t \in {"entry", "keyonly"} THEN {"after-entry"} ELSE {})])
          /\ phase' = "ins" /\ UNCHANGED <<par, f>>
Next == Grow \/ Insert
Spec == Init /\ [][Next]_vars

KV(o) == IF o.rc # "ECONF_SUCCESS" THEN o
         ELSE [rc |-> o.rc, groups |-> o.groups,
               ents |-> [i \in 1..Len(o.ents) |-> [g |-> o.ents[i].g, k |-> o.ents[i].k,
                                                   v |-> IF par.join THEN <<>> ELSE o.ents[i].v, vals |-> o.ents[i].vals]]]
\* the property on the model
CommentInert == KV(Obs(ParseFile(Render(g), par))) = KV(Meaning(f, par))

Feats == UNION {ins[i].feat : i \in 1..Len(ins)}
Case == [delim |-> par.delim, comment |-> par.comment, python |-> par.python, join |-> par.join, lines |-> Render(g),
         kinds |-> [i \in 1..Len(g) |-> g[i].t], exp |-> Meaning(f, par), cbx |-> <<>>,
         ins |-> [i \in 1..Len(ins) |-> [pos |-> ins[i].pos, feat |-> SetToSeq(ins[i].feat)]],
         nontrivial |-> Feats # {}]
ExportCase == (Export /\ ins # <<>> /\ Len(ins) <= ExportMaxIns) => PrintT(ToJson(Case))
=============================================================================
