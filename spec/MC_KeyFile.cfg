SPECIFICATION Spec
VIEW view
INVARIANT SetRefines
INVARIANT SetLocal
INVARIANT ListingIsMapOrder
INVARIANT GetIsLookup
INVARIANT SpellingsAgree
CONSTRAINT ExportCase
CHECK_DEADLOCK FALSE
CONSTANTS MaxOps = 4
 Export = FALSE
