---------------------------- MODULE MC_KeyFile ----------------------------
(* C11 on the model: the operational object (entry array, first-match lookup, append on miss,
   separate section list) REFINES an ordered map, for every object reachable by at most MaxOps
   setter calls from each kind of fresh object and from a parsed file with a repeated key, a key
   without value and a section without keys.  Checked at every reachable object, for EVERY next
   call: set = RmSet on the map; listings = insertion order of the map; bracket / NULL / ""
   spellings of the section denote the same section; calls without key are refused.
   Gen: one shortest history per reachable object is exported with the expected result of every
   probe call (gets with all section spellings, defaults, listings).                          *)
EXTENDS KeyFile, Parser, TLC, Json, SequencesExt
CONSTANTS MaxOps, Export
VARIABLES obj, hist, ctor
vars == <<obj, hist, ctor>>
view == <<obj, ctor>>

A == <<65>>  B == <<66>>  x == <<120>>  y == <<121>>  z == <<122>>
v1 == <<118, 49>>  v2 == <<86, 32, 50>>          \* "v1", "V 2"
\* spellings of the section argument:  NULL, "", "A", "[A]", "B", "[B]"
GArgs == {<<>>, <<<<>>>>, <<A>>, <<<<LBR>> \o A \o <<RBR>>>>, <<B>>, <<<<LBR>> \o B \o <<RBR>>>>}
KArgs == {<<x>>, <<y>>}
BadKArgs == {<<>>, <<<<>>>>}                      \* NULL key, empty key

ParsedLines == <<x \o <<61>> \o v1, <<LBR>> \o A \o <<RBR>>, y \o <<61>>, x \o <<61>> \o v2, x \o <<61>> \o v1, <<LBR>> \o B \o <<RBR>>>>
ParsedObj == ObjOfParse(ParseFile(ParsedLines, [delim |-> <<61>>, comment |-> <<35>>, python |-> FALSE, join |-> FALSE]))

Init == /\ ctor \in {"kf", "ini", "opt", "parsed"} /\ hist = <<>>
        /\ obj = IF ctor = "parsed" THEN ParsedObj ELSE NewObj
DoSet == /\ Len(hist) < MaxOps
         /\ \E g \in GArgs, k \in KArgs, v \in {v1, v2} :
              /\ obj' = SetText(obj, NormGV(g), k[1], v)
              /\ hist' = Append(hist, [g |-> g, k |-> k, v |-> v])
         /\ UNCHANGED ctor
Next == DoSet
Spec == Init /\ [][Next]_vars

\* ---- refinement of the ordered map ----
SetRefines == \A g \in GArgs, k \in KArgs, v \in {v1, v2} :
                RmOf(SetText(obj, NormGV(g), k[1], v)) = RmSet(RmOf(obj), NormGV(g), k[1], v)
\* a set changes exactly one entry and nothing else
SetLocal == \A g \in GArgs, k \in KArgs, v \in {v1, v2} :
              LET o2 == SetText(obj, NormGV(g), k[1], v)  rm == RmOf(obj)  rm2 == RmOf(o2) IN
              \A i \in 1..Len(rm) : (rm[i].g = NormGV(g) /\ rm[i].k = k[1]) \/ rm2[i] = rm[i]
\* listings = insertion order of the map
ListingIsMapOrder == LET rm == RmOf(obj) IN
  /\ \A g \in {NoG, A, B} : Dedup(KeysIn(obj, g)) = KeysOf(rm, g)
  /\ SelectSeq(Sections(obj), LAMBDA s : KeysIn(obj, s) # <<>>) = SectionsOf(rm)
\* get = text last set (first match)
GetIsLookup == \A g \in GArgs, k \in KArgs :
                 LET i == Find(obj, NormGV(g), k[1]) IN
                 IF i = 0 THEN ~Defines(RmOf(obj), NormGV(g), k[1])
                 ELSE Lookup(RmOf(obj), NormGV(g), k[1]) = obj.ents[i].v
\* bracket / NULL / "" spellings
SpellingsAgree == /\ NormGV(<<>>) = NormGV(<<<<>>>>)
                  /\ NormGV(<<A>>) = NormGV(<<<<LBR>> \o A \o <<RBR>>>>)

Probe(g, k) == LET i == Find(obj, NormGV(g), k[1]) IN
               [g |-> g, k |-> k, found |-> i # 0, out |-> IF i = 0 THEN <<>> ELSE ValueAt(obj, i)]
Case == [ctor |-> ctor, hist |-> hist, dump |-> Dump(obj),
         gets |-> SetToSeq({Probe(g, k) : g \in GArgs, k \in KArgs \cup {<<z>>}}),
         keys |-> SetToSeq({[g |-> g, out |-> KeysIn(obj, NormGK(g))] : g \in {<<>>, <<<<>>>>, <<A>>, <<B>>}})]
ExportCase == Export => PrintT(ToJson(Case))
=============================================================================
