SPECIFICATION Spec
INVARIANT LayeredIsUapi
INVARIANT HistoryFolds
CONSTRAINT Bound
CONSTRAINT ExportCase
CHECK_DEADLOCK FALSE
CONSTANTS NLay = 3
 NameSet = {3, 4, 6}
 MaxDrops = 9
 Shapes = {"bb"}
 Export = FALSE
 ND = 1
