----------------------------- MODULE MC_Layers -----------------------------
(* C01 / C12 on the model: for EVERY tree of the bounded universe the operational layered read
   equals the UAPI reference; Gen exports each tree with the expected result, the expected
   callback sequence (C06) and history (C12) for replay into the six entry points.            *)
EXTENDS Layers, TLC, Json
CONSTANTS NLay,         \* number of layers
          NameSet,      \* drop-in names in play (subset of 1..9)
          MaxDrops,     \* bound on the total number of drop-in files in a tree
          Shapes,       \* set of two-letter strings: main shape, drop-in shape (b both, n group-less, s section)
          Export,
          ND,           \* number of postfix (drop-in) directories per layer: 1, or 2 for CONFIG_DIRS / econf_set_conf_dirs lists
          MaxNull       \* bound on the number of drop-ins of a tree that are symbolic links to /dev/null
VARIABLES main, drop, shp, stage, pd, dnull
vars == <<main, drop, shp, stage, pd, dnull>>

Tree == [main |-> main, drop |-> drop, mshape |-> MShape(shp), dshape |-> DShape(shp), pd |-> pd, dnull |-> dnull]
NNull == LET RECURSIVE S(_) S(i) == IF i = 0 THEN 0 ELSE Cardinality(dnull[i]) + S(i - 1) IN S(Len(dnull))
NDrops == LET RECURSIVE S(_) S(i) == IF i = 0 THEN 0 ELSE Cardinality(drop[i]) + S(i - 1) IN S(Len(drop))

Init == main = <<>> /\ drop = <<>> /\ stage = 0 /\ shp \in Shapes /\ pd = <<>> /\ dnull = <<>>
Grow == /\ stage < NLay /\ stage' = stage + 1
        /\ \E k \in MainKinds, d \in {s \in SUBSET NameSet : Cardinality(s) + NDrops <= MaxDrops} :
             /\ main' = Append(main, k) /\ drop' = Append(drop, d)
             \* each present drop-in sits in one of the ND postfix directories (never the same name in two of them)
             /\ \E a \in [d -> 1..ND] : pd' = Append(pd, [n \in 1..NNames |-> IF n \in d THEN a[n] ELSE 1])
             /\ \E z \in {s \in SUBSET d : Cardinality(s) + NNull <= MaxNull} : dnull' = Append(dnull, z)
        /\ UNCHANGED shp
Next == Grow
Spec == Init /\ [][Next]_vars
Bound == NDrops <= MaxDrops

Outcome == Read(Tree, NoFaults(Tree))
\* the property on the model
IsUapi(o) == LET ref == UapiRef(Tree) IN
  /\ o.rc = ref.rc
  /\ o.rc = "ECONF_SUCCESS" => MapOf(o.cfg) = ref.map
  /\ (o.rc = "ECONF_NOFILE") = (Consulted(Tree) = <<>>)
\* history folded with masking reproduces the result (C12)
Folds(o) == o.rc = "ECONF_SUCCESS" =>
  LET U == Unmasked(o.hist) IN FoldMerge([j \in 1..Len(U) |-> Content(Tree, U[j])]) = o.cfg
LayeredIsUapi == stage = NLay => IsUapi(Outcome)
HistoryFolds  == stage = NLay => Folds(Outcome)

FileJ(f) == <<f.l, f.r>>
CaseOf(o) == [main |-> main, drop |-> [i \in 1..NLay |-> SetToSeq(drop[i])], shp |-> shp, pd |-> pd,
         dnull |-> [i \in 1..NLay |-> SetToSeq(dnull[i])],
         rc |-> o.rc, exp |-> ObsOf(o.cfg),
         log |-> [j \in 1..Len(o.log) |-> FileJ(o.log[j])],
         hist |-> [j \in 1..Len(o.hist) |-> [f |-> FileJ(o.hist[j]), obs |-> ObsOf(Content(Tree, o.hist[j]))]],
         merged |-> PathIsEmpty(Tree, NoFaults(Tree)),
         masked |-> Cardinality({j \in 1..Len(Consulted(Tree)) : Masked(Consulted(Tree), j)})]
ExportCase == (Export /\ stage = NLay) => PrintT(ToJson(CaseOf(Outcome)))
=============================================================================
