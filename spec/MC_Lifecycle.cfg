SPECIFICATION Spec
INVARIANT OutPtrContract
INVARIANT NoLibraryLeftovers
INVARIANT QuiescentEmpty
CHECK_DEADLOCK FALSE
CONSTANTS MaxFiles = 6
