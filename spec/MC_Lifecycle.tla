---------------------------- MODULE MC_Lifecycle ----------------------------
(* every number of consulted files 0..MaxFiles x failure at each position (0 = none) x
   {NULL-initialised, option-initialised} out-pointer *)
EXTENDS Lifecycle, TLC
CONSTANT MaxFiles
Init == \E n \in 0..MaxFiles : \E f \in 0..n : \E ini \in {"null", "object"} : LInit(n, f, ini)
Spec == Init /\ [][LNext]_lvars
=============================================================================
