SPECIFICATION Spec
INVARIANT MergeIsRef
INVARIANT WithinBounds
INVARIANT Complete
CONSTRAINT ExportCase
CHECK_DEADLOCK FALSE
CONSTANTS MaxLen = 4
 Export = FALSE
 Hdr = FALSE
 NoV = TRUE
