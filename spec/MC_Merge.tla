----------------------------- MODULE MC_Merge -----------------------------
(* C03 on the model: for ALL pairs of duplicate-free entry lists of length <= MaxLen over
   {group-less, A, B} x {x, y} (every interleaving of groups, re-opened sections, empty lists):
   the observable of MergeImpl equals MergeRef, and the output never exceeds Len(b) + Len(o).
   Values identify their origin (b1, b2, ... / o1, o2, ...).  Gen: every pair is exported
   with the expected observable for replay into econf_mergeFiles.                          *)
EXTENDS Merge, TLC, Json
CONSTANTS MaxLen, Export
VARIABLES b, o, phase
vars == <<b, o, phase>>

Gs == {NoG, <<65>>, <<66>>}
Ks == {<<120>>, <<121>>}
BVal(i) == <<98, 48 + i>>
OVal(i) == <<111, 48 + i>>

Init == b = <<>> /\ o = <<>> /\ phase = "b"
GrowB == /\ phase = "b" /\ Len(b) < MaxLen
         /\ \E g \in Gs, k \in Ks : ~Defines(b, g, k) /\ b' = Append(b, Ent(g, k, BVal(Len(b) + 1)))
         /\ UNCHANGED <<o, phase>>
GrowO == /\ Len(o) < MaxLen
         /\ \E g \in Gs, k \in Ks : ~Defines(o, g, k) /\ o' = Append(o, Ent(g, k, OVal(Len(o) + 1)))
         /\ phase' = "o" /\ UNCHANGED b
Next == GrowB \/ GrowO
Spec == Init /\ [][Next]_vars

MergeIsRef   == ObsOf(MergeImpl(b, o)) = MergeRef(b, o)
WithinBounds == Len(MergeImpl(b, o)) <= Len(b) + Len(o)
Complete     == DOMAIN MapOf(MergeImpl(b, o)) = DOMAIN MapOf(b) \cup DOMAIN MapOf(o)

Case == [b |-> b, o |-> o, exp |-> MergeRef(b, o)]
ExportCase == Export => PrintT(ToJson(Case))
=============================================================================
