----------------------------- MODULE MC_Merge -----------------------------
(* C03 on the model: for ALL pairs of duplicate-free entry lists of length <= MaxLen over
   {group-less, A, B} x {x, y} (every interleaving of groups, re-opened sections, empty lists):
   the observable of MergeImpl equals MergeRef, and the output never exceeds Len(b) + Len(o).
   Values identify their origin (b1, b2, ... / o1, o2, ...).  Gen: every pair is exported
   with the expected observable for replay into econf_mergeFiles.
   Hdr = TRUE: each side additionally carries a set of header-only sections (a `[A]` line with no
   key below it, as a parsed file can have: vendor files whose section holds only commented-out
   defaults).  The object keeps such a section in its section list, but the merge core looks at
   entries only (HasGroup scans b, not the list), so the expectation does not depend on them:
   an override's keys for a section the base only announces still arrive.
   NoV = TRUE: an entry may have NO value (a key alone on its line, `k=`, a setter with an empty text): the observable
   value is the empty text, and such an entry of the override replaces the base's value like any other.   *)
EXTENDS Merge, TLC, Json
CONSTANTS MaxLen, Export, Hdr, NoV
VARIABLES b, o, phase, bh, oh
vars == <<b, o, phase, bh, oh>>

Gs == {NoG, <<65>>, <<66>>}
Ks == {<<120>>, <<121>>}
BVal(i) == <<98, 48 + i>>
OVal(i) == <<111, 48 + i>>

HdrSets == IF Hdr THEN SUBSET {<<65>>, <<66>>} ELSE {{}}
Init == b = <<>> /\ o = <<>> /\ phase = "b" /\ bh \in HdrSets /\ oh \in HdrSets
GrowB == /\ phase = "b" /\ Len(b) < MaxLen
         /\ \E g \in Gs, k \in Ks, v \in {BVal(Len(b) + 1)} \cup (IF NoV THEN {<<>>} ELSE {}) : ~Defines(b, g, k) /\ b' = Append(b, Ent(g, k, v))
         /\ UNCHANGED <<o, phase, bh, oh>>
GrowO == /\ Len(o) < MaxLen
         /\ \E g \in Gs, k \in Ks, v \in {OVal(Len(o) + 1)} \cup (IF NoV THEN {<<>>} ELSE {}) : ~Defines(o, g, k) /\ o' = Append(o, Ent(g, k, v))
         /\ phase' = "o" /\ UNCHANGED <<b, bh, oh>>
Next == GrowB \/ GrowO
Spec == Init /\ [][Next]_vars

MergeIsRef   == ObsOf(MergeImpl(b, o)) = MergeRef(b, o)
WithinBounds == Len(MergeImpl(b, o)) <= Len(b) + Len(o)
Complete     == DOMAIN MapOf(MergeImpl(b, o)) = DOMAIN MapOf(b) \cup DOMAIN MapOf(o)

Case == [b |-> b, o |-> o, bh |-> bh, oh |-> oh, exp |-> MergeRef(b, o)]
ExportCase == Export => PrintT(ToJson(Case))
=============================================================================
