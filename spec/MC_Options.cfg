SPECIFICATION Spec
INVARIANT LastOccurrenceWins
INVARIANT UnknownRefused
CONSTRAINT ExportCase
CHECK_DEADLOCK FALSE
CONSTANTS MaxItems = 3
 Export = FALSE
