---------------------------- MODULE MC_Options ----------------------------
(* C15 (option strings): every sequence of at most MaxItems items - documented items in every
   order, repeated, with value 0 as well as 1, and unknown / misspelt names at any position.
   Model property: the fold over the items equals "last occurrence wins" (LastWins).
   Gen: each sequence is exported with the expected return code and probe observation.        *)
EXTENDS Options, TLC, Json
CONSTANTS MaxItems, Export
VARIABLES items
Items == {[name |-> "JOIN", arg |-> a] : a \in {0, 1}} \cup {[name |-> "PYTHON", arg |-> a] : a \in {0, 1}}
         \cup {[name |-> "PDIRS", arg |-> d] : d \in {<<1>>, <<2, 1>>, <<1, 2, 3>>}}
         \cup {[name |-> "CDIRS", arg |-> c] : c \in {<<1>>, <<2, 1>>}}
         \cup {[name |-> "ROOT", arg |-> r] : r \in {1, 2}}
         \cup {[name |-> "BAD", arg |-> b] : b \in {1, 2, 3}}
Init == items = <<>>
Next == Len(items) < MaxItems /\ \E it \in Items : items' = Append(items, it)
Spec == Init /\ [][Next]_items
LastOccurrenceWins == ~HasBad(items) => LastWins(items)
UnknownRefused == HasBad(items) <=> OptionsMeaning(items).rc = "ECONF_OPTION_NOT_FOUND"
Case == [items |-> items, rc |-> OptionsMeaning(items).rc, probe |-> Probe(OptionsMeaning(items).eff)]
ExportCase == Export => PrintT(ToJson(Case))
=============================================================================
