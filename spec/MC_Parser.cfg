SPECIFICATION Spec
INVARIANT ParseIsMeaning
CONSTRAINT ExportCase
CHECK_DEADLOCK FALSE
CONSTANTS MaxLines = 3
 Export = TRUE
 WithBad = FALSE
 Opt = "none"
