----------------------------- MODULE MC_Parser -----------------------------
(* Bounded universe of conventional files for C02 / C13 / C17 (and the base files of C05):
   every file of at most MaxLines lines over a pool of line shapes built from the structural
   alphabet, for every delimiter set and comment set.  TLC checks that the operational line
   loop (Parser) yields exactly the parse-free Meaning (Grammar) on all of them, and, in the
   Gen configuration, exports every file with its expected observation for replay into the
   real library.                                                                           *)
EXTENDS Pools, TLC, Json
CONSTANTS MaxLines,      \* bound on the number of lines
          Export,        \* TRUE: print one JSON record per file (Gen_*.cfg)
          WithBad,       \* TRUE: pool contains the malformed lines of C13
          Opt            \* "none" | "python"  (C15 adds its own module for JOIN)
VARIABLES par, f
vars == <<par, f>>

Pars == ParsFor(Opt)

\* a "key text" line without delimiter is only an error where it cannot be a continuation line
\* (IF rather than \/: inside an action TLC evaluates both disjuncts)
BadOk(g, i) == IF g[i].t = "bad" /\ g[i].key = "ECONF_MISSING_DELIMITER" /\ i > 1
               THEN g[i-1].t \notin {"entry", "cont"} ELSE TRUE
NBad(g) == Cardinality({i \in 1..Len(g) : g[i].t = "bad"})

Init == par \in Pars /\ f = <<>>
Grow == /\ Len(f) < MaxLines
        /\ \E l \in Pool(par, WithBad) : LET g == Append(f, l) IN
             /\ WellFormedAt(g, Len(g), par) /\ BadOk(g, Len(g)) /\ NBad(g) <= 1
             /\ (WithBad /\ Len(g) = MaxLines => NBad(g) = 1)
             /\ f' = g
        /\ UNCHANGED par
Next == Grow
Spec == Init /\ [][Next]_vars

Parsed  == Obs(ParseFile(Render(f), par))
Expect  == Meaning(f, par)
\* the property on the model: the operational parser yields exactly the declared meaning
ParseIsMeaning == ObsCmp(Parsed, par) = ObsCmp(Expect, par)

\* framing: with or without the final newline the same lines reach the line step (the replay reads every
\* exported file in both framings and expects the same observation)
Framing == LET ls == Render(f) IN
           (ls # <<>> /\ ls[Len(ls)] # <<>>) => \A fnl \in BOOLEAN : LinesOfBytes(FileBytes(ls, fnl)) = ls

Case == [delim |-> par.delim, comment |-> par.comment, python |-> par.python, join |-> par.join, lines |-> Render(f),
         kinds |-> [i \in 1..Len(f) |-> f[i].t], exp |-> Expect, cbx |-> CbExact(f, par)]
ExportCase == (Export /\ f # <<>> /\ (WithBad => NBad(f) = 1)) => PrintT(ToJson(Case))
=============================================================================
