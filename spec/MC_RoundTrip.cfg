SPECIFICATION Spec
VIEW view
INVARIANT RoundTripHolds
INVARIANT SettersInClass
CONSTRAINT ExportCase
CHECK_DEADLOCK FALSE
CONSTANTS MaxOps = 3
 Mode = "parsed"
 Export = FALSE
