---------------------------- MODULE MC_RoundTrip ----------------------------
(* C07 on the model: write + read is the identity on the round-trip observable (sections with
   keys, keys per section, values, comments of single-line entries) for
     Mode = "setters": every object reachable by <= MaxOps setter calls over {group-less, A, B} x
                       {x, y} x {"", v, "a b", two-line value} - every interleaving of group-less and
                       sectioned keys, re-opened sections, overwrites;
     Mode = "parsed" : every object obtained by parsing a conventional file of <= MaxOps lines over
                       the line pool (quoted values, comments, continuation lines),
   for every delimiter character {=, :, space} and comment character {#, ;} for which the object is
   in the unambiguous class.  Gen: the history / file is exported with the expected observable.   *)
EXTENDS Writer, Pools, TLC, Json, SequencesExt
CONSTANTS MaxOps, Mode, Export
VARIABLES ents, hist, par, f
vars == <<ents, hist, par, f>>

A == <<65>>  B == <<66>>  x == <<120>>  y == <<121>>
Vals == {<<>>, <<118>>, <<97, 32, 98>>, <<118, 10, 32, 119>>}
DC == {<<61, 35>>, <<58, 59>>, <<32, 35>>, <<61, 59>>}       \* (delimiter, comment) pairs: = #   : ;   space #   = ;

SetW(es, g, k, v0) ==
  LET I == {i \in 1..Len(es) : es[i].g = g /\ es[i].k = k} IN
  IF I = {} THEN Append(es, WEnt(g, k, v0, TRUE, FALSE, None, None))
  ELSE [es EXCEPT ![MinOf(I)].v = v0, ![MinOf(I)].hasv = TRUE]

NoPar == [delim |-> <<61>>, comment |-> <<35>>, python |-> FALSE, join |-> FALSE, jpool |-> FALSE]
Init == /\ ents = <<>> /\ hist = <<>> /\ f = <<>>
        /\ par \in (IF Mode = "parsed" THEN {p \in ParsFor("none") : Len(p.delim) = 1 /\ Len(p.comment) = 1 /\ p.delim[1] \in {61, 32}} ELSE {NoPar})
DoSet == /\ Mode = "setters" /\ Len(hist) < MaxOps
         /\ \E g \in {NoGrp, A, B}, k \in {x, y}, v0 \in Vals :
              ents' = SetW(ents, g, k, v0) /\ hist' = Append(hist, [g |-> g, k |-> k, v |-> v0])
         /\ UNCHANGED <<par, f>>
Grow == /\ Mode = "parsed" /\ Len(f) < MaxOps
        /\ \E l \in Pool(par, FALSE) : WellFormedAt(Append(f, l), Len(f) + 1, par) /\ f' = Append(f, l)
        /\ ents' = EntsOfParse(ParseFile(Render(f'), par))
        /\ UNCHANGED <<hist, par>>
Next == DoSet \/ Grow
Spec == Init /\ [][Next]_vars
view == <<ents, par, f>>

Obj == [ents |-> ents]
Pairs == IF Mode = "parsed" THEN {<<par.delim[1], par.comment[1]>>} ELSE DC
RoundTripHolds == \A dc \in Pairs : Unambiguous(Obj, dc[1], dc[2]) => RoundTrips(Obj, dc[1], dc[2])
\* the universe is not vacuous: the built objects are in the class
SettersInClass == Mode = "setters" => \A dc \in DC : Unambiguous(Obj, dc[1], dc[2])

Case == [mode |-> Mode, hist |-> hist, lines |-> Render(f), delim |-> par.delim, comment |-> par.comment,
         rt |-> RT(ents),
         ok |-> [i \in 1..Len(SetToSeq(Pairs)) |-> [d |-> SetToSeq(Pairs)[i][1], c |-> SetToSeq(Pairs)[i][2],
                                                   inclass |-> Unambiguous(Obj, SetToSeq(Pairs)[i][1], SetToSeq(Pairs)[i][2])]]]
ExportCase == (Export /\ ents # <<>>) => PrintT(ToJson(Case))
=============================================================================
