SPECIFICATION Spec
INVARIANT SucceedsIffAllPass
INVARIANT FirstFailingDecides
INVARIANT ResetAcceptsAll
PROPERTY Independent
CHECK_DEADLOCK FALSE
CONSTANTS NLay = 2
 NameSet = {6}
