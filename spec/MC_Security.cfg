SPECIFICATION Spec
VIEW view
INVARIANT SucceedsIffAllPass
INVARIANT FirstFailingDecides
INVARIANT ResetAcceptsAll
CHECK_DEADLOCK FALSE
CONSTANTS NLay = 2
 NameSet = {6}
