---------------------------- MODULE MC_Security ----------------------------
(* C16 on the model: the three restriction flags as a state machine (RequireOwner, RequireGroup,
   ForbidSymlinks, Reset) x every small tree x every assignment of {matching, foreign} owner/group
   and {regular, symlink} to each consulted file; a Read in every flag state.
   Invariants: a read succeeds iff every consulted file passes every active rule; otherwise it
   reports a code of the FIRST failing file and nothing is handed back; a refused file is never
   asked about in the callback; after Reset every file is accepted.                           *)
EXTENDS Security, TLC
CONSTANTS NLay, NameSet
VARIABLES main, drop, stage, attrs, flags, last, nops
vars == <<main, drop, stage, attrs, flags, last, nops>>
Tree == [main |-> main, drop |-> drop, mshape |-> "both", dshape |-> "both"]
NoRead == [rc |-> "none", rcs |-> {}, log |-> <<>>, cfg |-> <<>>, errfile |-> <<>>, hist |-> <<>>]
Kset == {Consulted(Tree)[j] : j \in 1..Len(Consulted(Tree))}

Init == main = <<>> /\ drop = <<>> /\ stage = 0 /\ attrs = <<>> /\ flags = NoFlags /\ last = NoRead /\ nops = 0
Grow == /\ stage < NLay /\ stage' = stage + 1
        /\ \E k \in MainKinds, d \in SUBSET NameSet : main' = Append(main, k) /\ drop' = Append(drop, d)
        /\ UNCHANGED <<attrs, flags, last, nops>>
ChooseAttrs == /\ stage = NLay /\ stage' = NLay + 1
               /\ \E a \in [Kset -> [own : {"ok", "foreign"}, grp : {"ok", "foreign"}, link : BOOLEAN]] :
                    attrs' = [f \in AllFiles(Tree) |-> IF f \in Kset THEN a[f] ELSE [own |-> "ok", grp |-> "ok", link |-> FALSE]]
               /\ UNCHANGED <<main, drop, flags, last, nops>>
Ready == stage = NLay + 1 /\ nops < 4
SetFlag == /\ Ready /\ nops' = nops + 1
           /\ flags' \in {RequireOwner(flags), RequireGroup(flags), ForbidSymlinks(flags), AllowSymlinks(flags), ResetFlags(flags)}
           /\ UNCHANGED <<main, drop, stage, attrs, last>>
DoRead == /\ Ready /\ nops' = nops + 1
          /\ last' = Read(Tree, FaultsOf(Tree, attrs, flags))
          /\ UNCHANGED <<main, drop, stage, attrs, flags>>
Next == Grow \/ ChooseAttrs \/ SetFlag \/ DoRead
Spec == Init /\ [][Next]_vars
view == <<main, drop, stage, attrs, flags, last>>

K == Consulted(Tree)
Passes(f) == Violations(Tree, attrs, flags, f) = {}
\* (evaluated right after a read: `last` belongs to the current flags only then, so compare with a fresh Read)
Now == Read(Tree, FaultsOf(Tree, attrs, flags))
SucceedsIffAllPass == stage = NLay + 1 /\ K # <<>> => ((Now.rc = "ECONF_SUCCESS") <=> \A j \in 1..Len(K) : Passes(K[j]))
FirstFailingDecides == stage = NLay + 1 /\ Now.rc \notin {"ECONF_SUCCESS", "ECONF_NOFILE"} =>
   LET j == CHOOSE j \in 1..Len(K) : ~Passes(K[j]) /\ \A i \in 1..(j-1) : Passes(K[i]) IN
   /\ Now.rcs = {CodeOf(x) : x \in Violations(Tree, attrs, flags, K[j])}
   /\ Now.errfile = <<K[j]>> /\ Now.cfg = <<>> /\ Now.hist = <<>>
   /\ \A i \in 1..Len(Now.log) : Now.log[i] # K[j]                 \* never shown to the callback
ResetAcceptsAll == stage = NLay + 1 => Read(Tree, FaultsOf(Tree, attrs, ResetFlags(flags))).rc \in {"ECONF_SUCCESS", "ECONF_NOFILE"}
=============================================================================
