---------------------------- MODULE MC_Security ----------------------------
(* C16 on the model: the restriction settings as a state machine (RequireOwner / RequireGroup with the usual or
   another id, ForbidSymlinks, AllowSymlinks, RequirePerms lenient / strict, Reset) x every small tree x every
   assignment of {matching, foreign} owner/group, {regular, symlink} and {ok, bad} permission bits to each consulted
   file; a Read in every settings state.
   Invariants: a read succeeds iff every consulted file passes every active rule; otherwise it
   reports a code of the FIRST failing file and nothing is handed back; a refused file is never
   asked about in the callback; after Reset every file is accepted.                           *)
EXTENDS Security, TLC
CONSTANTS NLay, NameSet
VARIABLES main, drop, stage, attrs, flags
vars == <<main, drop, stage, attrs, flags>>
Tree == [main |-> main, drop |-> drop, mshape |-> "both", dshape |-> "both"]
Kset == {Consulted(Tree)[j] : j \in 1..Len(Consulted(Tree))}

Init == main = <<>> /\ drop = <<>> /\ stage = 0 /\ attrs = <<>> /\ flags = NoFlags
Grow == /\ stage < NLay /\ stage' = stage + 1
        /\ \E k \in MainKinds, d \in SUBSET NameSet : main' = Append(main, k) /\ drop' = Append(drop, d)
        /\ UNCHANGED <<attrs, flags>>
ChooseAttrs == /\ stage = NLay /\ stage' = NLay + 1
               /\ \E a \in [Kset -> {x \in [own : {"ok", "foreign"}, grp : {"ok", "foreign"}, link : BOOLEAN, perm : {"ok", "bad"}, dperm : {"ok"}] : x.link => x.perm = "ok"}] :
                    attrs' = [f \in AllFiles(Tree) |-> IF f \in Kset THEN a[f] ELSE [own |-> "ok", grp |-> "ok", link |-> FALSE, perm |-> "ok", dperm |-> "ok"]]
               /\ UNCHANGED <<main, drop, flags>>
\* (the settings space is finite - 54 combinations - and every one is reached by at most four setter calls; the reads are
\* evaluated by the invariants in every state, so no read action is needed)
Ready == stage = NLay + 1
SetFlag == /\ Ready
           /\ flags' \in {RequireOwner(flags, "ok"), RequireOwner(flags, "foreign"), RequireGroup(flags, "ok"), RequireGroup(flags, "foreign"),
                         ForbidSymlinks(flags), AllowSymlinks(flags), RequirePerms(flags, "lenient"), RequirePerms(flags, "strict"), ResetFlags(flags)}
           /\ UNCHANGED <<main, drop, stage, attrs>>
Next == Grow \/ ChooseAttrs \/ SetFlag
Spec == Init /\ [][Next]_vars

K == Consulted(Tree)
Passes(f) == Violations(Tree, attrs, flags, f) = {}
Now == Read(Tree, FaultsOf(Tree, attrs, flags))
SucceedsIffAllPass == stage = NLay + 1 /\ K # <<>> => ((Now.rc = "ECONF_SUCCESS") <=> \A j \in 1..Len(K) : Passes(K[j]))
FirstFailingDecides == stage = NLay + 1 /\ Now.rc \notin {"ECONF_SUCCESS", "ECONF_NOFILE"} =>
   LET j == CHOOSE j \in 1..Len(K) : ~Passes(K[j]) /\ \A i \in 1..(j-1) : Passes(K[i]) IN
   /\ Now.rcs = {CodeOf(x) : x \in Violations(Tree, attrs, flags, K[j])}
   /\ Now.errfile = <<K[j]>> /\ Now.cfg = <<>> /\ Now.hist = <<>>
   /\ \A i \in 1..Len(Now.log) : Now.log[i] # K[j]                 \* never shown to the callback
\* every setter changes its own setting only (checked on every step: an action property)
Independent == [][\A k \in {"owner", "group", "nosym", "perms"} :
                    flags'[k] # flags[k] => \/ flags' = NoFlags
                                             \/ \A k2 \in {"owner", "group", "nosym", "perms"} \ {k} : flags'[k2] = flags[k2]]_vars
ResetAcceptsAll == stage = NLay + 1 => Read(Tree, FaultsOf(Tree, attrs, ResetFlags(flags))).rc \in {"ECONF_SUCCESS", "ECONF_NOFILE"}
=============================================================================
