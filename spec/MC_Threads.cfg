SPECIFICATION Spec
INVARIANT Isolation
CONSTRAINT ExportCase
CHECK_DEADLOCK FALSE
CONSTANTS NThreads = 2
 ProgLen = 4
 SharedBuffer = FALSE
 Export = FALSE
