----------------------------- MODULE MC_Threads -----------------------------
(* C18 on the model: N threads, each running a program of public API calls on objects it does
   not share; one call = one atomic step (the granularity at which the library promises
   anything); shared between the threads: only the last-error-location record, which every
   reading call overwrites and no result depends on.
   Invariant: every thread obtains exactly the results of running its program alone.
   Negative control (SharedBuffer = TRUE): a getter that formats through a static buffer in two
   steps makes TLC find the interleaving that breaks the invariant - the model is able to
   express the defect the property excludes.
   CbProg = TRUE: a read through a ...WithCallback entry point is not atomic for the other threads: the
   library calls back into the application in the middle of it, and whatever the application's other
   threads do meanwhile (reads of their own files in particular) happens INSIDE this read.  The model
   splits it into the step up to the callback and the step after it; in between only the shared
   error-location record may have been touched.  The program then asks for the line number of the
   entry it has read - a result that stems from the parse after the callback.
   Gen: every complete interleaving is exported as a schedule (sequence of thread ids) and
   replayed deterministically on real threads.                                              *)
EXTENDS KeyFile, TLC, Json
CONSTANTS NThreads, ProgLen, SharedBuffer, Export,
          CbProg      \* TRUE: the programs read through a callback entry point, which is TWO steps (see below)
VARIABLES pc, obj, res, errloc, buf, sched, half
vars == <<pc, obj, res, errloc, buf, sched, half>>
Threads == 1..NThreads

A == <<65>>  x == <<120>>  y == <<121>>
Val(t, n) == <<118, 48 + t, 48 + n>>                  \* "v<t><n>": values identify thread and step
\* program of thread t: call i
Op(t, i) == IF CbProg
            THEN CASE i = 1 -> [op |-> "readcb", file |-> t]              \* two steps: up to the callback / after it
                   [] i = 2 -> [op |-> "line"]                            \* line number of the entry read
                   [] i = 3 -> [op |-> "set",   g |-> A, k |-> x, v |-> Val(t, i)]
                   [] i = 4 -> [op |-> "get",   g |-> A, k |-> x]
                   [] OTHER -> [op |-> "keys",  g |-> A]
            ELSE
            CASE i = 1 -> [op |-> "read",  file |-> t]                    \* parse a private file: 1 entry, sets errloc
              [] i = 2 -> [op |-> "set",   g |-> A, k |-> x, v |-> Val(t, i)]
              [] i = 3 -> [op |-> "get",   g |-> A, k |-> x]
              [] i = 4 -> [op |-> "set",   g |-> NoG, k |-> y, v |-> Val(t, i)]
              [] i = 5 -> [op |-> "get",   g |-> NoG, k |-> y]
              [] OTHER -> [op |-> "keys",  g |-> A]
FileObj(t) == SetText(NewObj, NoG, <<102>>, Val(t, 0))                   \* content of thread t's file: f=v<t>0
LineOf(t) == 2 * t + 1                                                    \* ... on line 2t+1, after 2t comment lines

\* sequential semantics of one call on a private object: new object + result
Exec(o, c, t) ==
  CASE c.op \in {"read", "readcb"} -> [o |-> FileObj(c.file), r |-> <<"ok">>]
    [] c.op = "line" -> [o |-> o, r |-> IF Find(o, NoG, <<102>>) = 0 THEN <<"nokey">> ELSE <<"line", LineOf(t)>>]
    [] c.op = "set"  -> [o |-> SetText(o, c.g, c.k, c.v), r |-> <<"ok">>]
    [] c.op = "get"  -> [o |-> o, r |-> LET i == Find(o, c.g, c.k) IN IF i = 0 THEN <<"nokey">> ELSE <<"ok", o.ents[i].v>>]
    [] OTHER         -> [o |-> o, r |-> <<"keys", KeysIn(o, c.g)>>]
RECURSIVE Serial(_, _, _)
Serial(t, i, o) == IF i > ProgLen THEN <<>> ELSE LET e == Exec(o, Op(t, i), t) IN <<e.r>> \o Serial(t, i + 1, e.o)
SerialResults(t) == Serial(t, 1, NewObj)

Init == /\ pc = [t \in Threads |-> 1] /\ obj = [t \in Threads |-> NewObj] /\ res = [t \in Threads |-> <<>>]
        /\ errloc = <<0, 0>> /\ buf = <<>> /\ sched = <<>> /\ half = [t \in Threads |-> FALSE]
Step(t) ==
  /\ pc[t] <= ProgLen
  /\ LET c == Op(t, pc[t])  e == Exec(obj[t], c, t) IN
     IF c.op = "readcb" /\ ~half[t]
     THEN \* up to the callback: nothing of the thread's object is visible yet; the slot is part of the schedule
          /\ half' = [half EXCEPT ![t] = TRUE] /\ sched' = Append(sched, t) /\ errloc' = <<c.file, 0>>
          /\ UNCHANGED <<pc, obj, res, buf>>
     ELSE IF SharedBuffer /\ c.op = "get" /\ ~half[t]
     THEN \* hypothetical defect: first half of a getter writes the value into a static buffer ...
          /\ buf' = e.r /\ half' = [half EXCEPT ![t] = TRUE]
          /\ UNCHANGED <<pc, obj, res, errloc, sched>>
     ELSE /\ pc' = [pc EXCEPT ![t] = @ + 1]
          /\ obj' = [obj EXCEPT ![t] = e.o]
          \* ... second half returns whatever the buffer holds now
          /\ res' = [res EXCEPT ![t] = Append(@, IF SharedBuffer /\ c.op = "get" THEN buf ELSE e.r)]
          /\ errloc' = IF c.op \in {"read", "readcb"} THEN <<c.file, 1>> ELSE errloc
          /\ half' = [half EXCEPT ![t] = FALSE]
          /\ sched' = Append(sched, t) /\ UNCHANGED buf
Next == \E t \in Threads : Step(t)
Spec == Init /\ [][Next]_vars
Done == \A t \in Threads : pc[t] > ProgLen
\* the property
Isolation == \A t \in Threads : res[t] = SubSeq(SerialResults(t), 1, Len(res[t]))
ExportCase == (Export /\ Done) => PrintT(ToJson([sched |-> sched]))
=============================================================================
