SPECIFICATION Spec
INVARIANT ShowAgrees
INVARIANT SyntaxIffError
CONSTRAINT ExportCase
CHECK_DEADLOCK FALSE
CONSTANTS NLay = 2
 NameSet = {2, 5}
 Shapes = {"bb", "ns", "sn", "nn", "ss"}
 Export = FALSE
