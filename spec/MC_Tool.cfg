SPECIFICATION Spec
INVARIANT ShowAgrees
INVARIANT SyntaxIffError
CONSTRAINT ExportCase
CHECK_DEADLOCK FALSE
CONSTANTS NLay = 2
 NameSet = {3, 6}
 Shapes = {"bb", "ns", "sn", "nn", "ss"}
 Export = FALSE
