------------------------------ MODULE MC_Tool ------------------------------
(* every two-layer tree (vendor /usr/etc, local /etc) x content shapes x optionally one malformed
   consulted file: exported with what econftool show / syntax / cat must deliver *)
EXTENDS Tool, TLC, Json
CONSTANTS NLay, NameSet, Shapes, Export
VARIABLES main, drop, shp, stage, bad
vars == <<main, drop, shp, stage, bad>>
Tree == [main |-> main, drop |-> drop, mshape |-> MShape(shp), dshape |-> DShape(shp)]
Init == main = <<>> /\ drop = <<>> /\ stage = 0 /\ shp \in Shapes /\ bad = <<>>
Grow == /\ stage < NLay /\ stage' = stage + 1
        /\ \E k \in MainKinds, d \in SUBSET NameSet : main' = Append(main, k) /\ drop' = Append(drop, d)
        /\ UNCHANGED <<shp, bad>>
\* optionally make one consulted regular file malformed
Spoil == /\ stage = NLay /\ stage' = NLay + 1
         /\ \E j \in 0..Len(Consulted(Tree)) :
              IF j = 0 THEN bad' = <<>>
              ELSE LET f == Consulted(Tree)[j] IN
                   /\ (f.r = 0 => main[f.l] = "regular")
                   /\ bad' = <<f>>
         /\ UNCHANGED <<main, drop, shp>>
Next == Grow \/ Spoil
Spec == Init /\ [][Next]_vars
Faults == [f \in AllFiles(Tree) |-> IF bad # <<>> /\ f = bad[1] THEN {"malformed"} ELSE {}]
TripleJ(t) == [g |-> t[1], k |-> t[2], vals |-> t[3]]
ShowAgrees == stage = NLay + 1 /\ bad = <<>> => ShowIsLibrary(Tree)
SyntaxIffError == stage = NLay + 1 => (SyntaxCmd(Tree, Faults).exit_ok <=> (bad = <<>> /\ Consulted(Tree) # <<>>))
Case == [main |-> main, drop |-> [i \in 1..NLay |-> SetToSeq(drop[i])], shp |-> shp,
         bad |-> IF bad = <<>> THEN <<>> ELSE <<<<bad[1].l, bad[1].r>>>>,
         show |-> [exit_ok |-> ShowCmd(Tree, Faults).exit_ok, triples |-> SetToSeq({TripleJ(t) : t \in ShowCmd(Tree, Faults).triples})],
         cat |-> [exit_ok |-> CatCmd(Tree, Faults).exit_ok,
                  files |-> [j \in 1..Len(CatCmd(Tree, Faults).files) |->
                               [f |-> CatCmd(Tree, Faults).files[j].f, triples |-> SetToSeq({TripleJ(t) : t \in CatCmd(Tree, Faults).files[j].triples})]]],
         log |-> [j \in 1..Len(Consulted(Tree)) |-> <<Consulted(Tree)[j].l, Consulted(Tree)[j].r>>]]
ExportCase == (Export /\ stage = NLay + 1) => PrintT(ToJson(Case))
=============================================================================
