SPECIFICATION Spec
INVARIANT EditTouchesOnlyTarget
INVARIANT EditFailsIff
INVARIANT KeepKeepsConfiguration
INVARIANT AppendedKeyIsShown
INVARIANT CommentedLineIsInert
INVARIANT DroppedKey
INVARIANT EditedTreeReadable
INVARIANT RevertRemovesDropins
INVARIANT RevertedShow
INVARIANT RevertUnmasks
INVARIANT MaskedVendorDropinIsInert
CONSTRAINT ExportCase
CHECK_DEADLOCK FALSE
CONSTANTS MaxSteps = 2
 Export = FALSE
