---------------------------- MODULE MC_ToolEdit ----------------------------
(* econftool edit / revert / show as a state machine over the file system: every tree made of a subset of six files
   (vendor main, vendor drop-in, local main, local drop-in, a malformed local drop-in, a vendor drop-in with the local one's name), every sequence of up to MaxSteps
   commands  edit {drop-in, --full} x editor {keep, append a key, append a multi-line key, replace everything,
   append a malformed line, append a commented-out assignment}, revert.  Action properties state what the commands promise; every reached state is exported
   as a case (initial files, commands, expected files and `show` output) for replay against the real tool. *)
EXTENDS ToolEdit, TLC, Json
CONSTANTS MaxSteps, Export
VARIABLES fs, init, acts, last
vars == <<fs, init, acts, last>>
Root == <<>>
Name == <<99, 102, 103>>   Sfx == <<99, 111, 110, 102>>
P1 == <<47, 117, 115, 114, 47, 101, 116, 99, 47, 99, 102, 103, 46, 99, 111, 110, 102>>                                                        \* /usr/etc/cfg.conf
P2 == <<47, 117, 115, 114, 47, 101, 116, 99, 47, 99, 102, 103, 46, 99, 111, 110, 102, 46, 100, 47, 49, 48, 45, 120, 46, 99, 111, 110, 102>>   \* /usr/etc/cfg.conf.d/10-x.conf
P3 == <<47, 101, 116, 99, 47, 99, 102, 103, 46, 99, 111, 110, 102, 46, 100, 47, 57, 57, 45, 122, 46, 99, 111, 110, 102>>                        \* /etc/cfg.conf.d/99-z.conf
P4 == <<47, 101, 116, 99, 47, 99, 102, 103, 46, 99, 111, 110, 102>>                                                                            \* /etc/cfg.conf
P5 == <<47, 101, 116, 99, 47, 99, 102, 103, 46, 99, 111, 110, 102, 46, 100, 47, 53, 48, 45, 98, 97, 100, 46, 99, 111, 110, 102>>                \* /etc/cfg.conf.d/50-bad.conf
P6 == <<47, 117, 115, 114, 47, 101, 116, 99, 47, 99, 102, 103, 46, 99, 111, 110, 102, 46, 100, 47, 57, 57, 45, 122, 46, 99, 111, 110, 102>>   \* /usr/etc/cfg.conf.d/99-z.conf (masked by P3 while that exists)
Pool == (P1 :> << <<35, 32, 97, 98, 111, 117, 116, 32, 97>>, <<97, 61, 49>>, <<91, 83, 93>>, <<98, 61, 50>> >>)      \* "# about a" a=1 [S] b=2
     @@ (P2 :> << <<91, 83, 93>>, <<98, 61, 51>>, <<99, 61, 52>>, <<101, 61, 95, 110, 111, 110, 101, 95>> >>)          \* [S] b=3 c=4 e=_none_  (a value that is the library's own marker word)
     @@ (P3 :> << <<97, 61, 57>> >>)                                                                                   \* a=9
     @@ (P4 :> << <<97, 61, 53>>, <<100, 61, 54>> >>)                                                                  \* a=5 d=6
     @@ (P6 :> << <<97, 61, 55>>, <<109, 61, 49>> >>)                                                                  \* a=7 m=1
     @@ (P5 :> << <<91, 98, 114, 111, 107, 101, 110>> >>)                                                              \* [broken
Editors == { [kind |-> "keep", lines |-> <<>>],
             [kind |-> "append", lines |-> << <<110, 61, 55>> >>],                                       \* n=7
             [kind |-> "append", lines |-> << <<118, 61, 111, 110, 101>>, <<32, 116, 119, 111>> >>],      \* v=one / " two"
             [kind |-> "replace", lines |-> << <<97, 61, 48>> >>],                                        \* a=0
             [kind |-> "append", lines |-> << <<91, 120>> >>],                                            \* [x   (malformed)
             [kind |-> "comment", lines |-> << <<35, 113, 61, 56>> >>] }                                  \* #q=8 (a commented-out assignment)
EditorsX == Editors \cup { [kind |-> "dropkey", lines |-> << <<100>> >>] }                                  \* delete the line that assigns to d
NoLast == [cmd |-> "none"]
Init == /\ \E S \in SUBSET DOMAIN Pool : fs = [p \in S |-> Pool[p]] /\ init = fs
        /\ acts = <<>> /\ last = NoLast
Edit(mode, ed) == LET r == EditResult(fs, Root, Name, Sfx, mode, ed) IN
  /\ fs' = r.fs /\ acts' = Append(acts, [cmd |-> "edit", mode |-> mode, ed |-> ed, ok |-> r.ok])
  /\ last' = [cmd |-> "edit", mode |-> mode, ed |-> ed, ok |-> r.ok, before |-> fs]
Revert == LET r == RevertResult(fs, Root, Name, Sfx) IN
  /\ fs' = r.fs /\ acts' = Append(acts, [cmd |-> "revert", mode |-> "-", ed |-> [kind |-> "keep", lines |-> <<>>], ok |-> TRUE])
  /\ last' = [cmd |-> "revert", before |-> fs]
Next == /\ Len(acts) < MaxSteps /\ UNCHANGED init
        /\ (Revert \/ \E mode \in {"dropin", "full"}, ed \in EditorsX : Edit(mode, ed))
Spec == Init /\ [][Next]_vars

Show(f) == ShowResult(f, Root, Name, Sfx)
Target(mode) == TargetOf(Root, Name, Sfx, mode)
Others(f, t) == [q \in DOMAIN f \ {t} |-> f[q]]
\* ---- what the commands promise (state invariants over the ghost `last`) ----
\* an edit that fails changes nothing; one that succeeds changes exactly its target file
EditTouchesOnlyTarget == last.cmd = "edit" =>
   IF last.ok THEN Target(last.mode) \in DOMAIN fs /\ Others(fs, Target(last.mode)) = Others(last.before, Target(last.mode))
   ELSE fs = last.before
\* an edit fails exactly when the tree cannot be read, the edited text cannot be parsed, or nothing is left in it (Dev_EditToNothingFails)
EditFailsIff == last.cmd = "edit" =>
   (last.ok <=> /\ TreeOf(last.before, Root, Name, Sfx).rc \in {"ECONF_SUCCESS", "ECONF_NOFILE"} /\ last.ed.lines # << <<91, 120>> >>
                /\ ~(TreeOf(last.before, Root, Name, Sfx).rc = "ECONF_NOFILE" /\ last.ed.kind \in {"keep", "comment", "dropkey"}))
\* leaving the text as it is leaves the configuration as it is: the drop-in holds the whole merged configuration, files that
\* are read after it override it with values it already has
KeepKeepsConfiguration == (last.cmd = "edit" /\ last.ok /\ last.ed.kind = "keep") => Show(fs).triples = Show(last.before).triples
\* a commented-out assignment appended in the editor is inert (C05 seen through the tool): the configuration is what it was and
\* the commented key is not part of it
CommentedLineIsInert == (last.cmd = "edit" /\ last.ok /\ last.ed.kind = "comment") =>
   /\ Show(fs).triples = Show(last.before).triples
   /\ \A t \in Show(fs).triples : t[2] # <<113>> /\ t[2] # <<35, 113>>
\* a key whose line is deleted in the editor: with --full it is gone (only the local main file, now overwritten, defined d) and
\* everything else is as before; as a drop-in the edit changes NOTHING - the drop-in cannot take away what another file still defines
KeyOfD(T) == {t \in T : t[2] = <<100>>}
DroppedKey == (last.cmd = "edit" /\ last.ok /\ last.ed.kind = "dropkey") =>
   /\ Show(fs).triples \ KeyOfD(Show(fs).triples) = Show(last.before).triples \ KeyOfD(Show(last.before).triples)
   \* without an earlier drop-in edit (90_econftool.conf may hold its own copy of d - TLC found both histories: then --full
   \* leaves that copy in force, and a drop-in edit removes the only definition)
   /\ (Target("dropin") \notin DOMAIN last.before =>
         IF last.mode = "full" THEN KeyOfD(Show(fs).triples) = {} ELSE KeyOfD(Show(fs).triples) = KeyOfD(Show(last.before).triples))
\* a key appended in the editor is part of the configuration afterwards (nothing in these trees defines n or v)
AppendedKeyIsShown == (last.cmd = "edit" /\ last.ok /\ last.ed.kind = "append") =>
   \E t \in Show(fs).triples : t[2] = SubSeq(last.ed.lines[1], 1, 1) /\ Len(t[3]) = Len(last.ed.lines)
\* after a successful edit the tree is readable (the written file parses)
EditedTreeReadable == (last.cmd = "edit" /\ last.ok) => Show(fs).ok
\* revert: nothing is left below <root>/etc/<name>.<suffix>.d, everything else stays (also <root>/etc/<name>.<suffix>: Dev_RevertMainUnrooted)
RevertRemovesDropins == last.cmd = "revert" =>
   /\ \A q \in DOMAIN fs : ~IsPrefixOf(DropDirOf(Root, Name, Sfx) \o Slash, q)
   /\ \A q \in DOMAIN last.before : ~IsPrefixOf(DropDirOf(Root, Name, Sfx) \o Slash, q) => (q \in DOMAIN fs /\ fs[q] = last.before[q])
\* ... so after a revert only the vendor tree and the local main file decide
RevertedShow == last.cmd = "revert" => Show(fs) = Show([q \in {p \in DOMAIN last.before : p \in {P1, P2, P4, P6}} |-> last.before[q]])
\* ... and a vendor drop-in that a local file of the same name masked is read again after the revert (its key m comes back)
RevertUnmasks == (last.cmd = "revert" /\ P6 \in DOMAIN fs) => \E t \in Show(fs).triples : t[2] = <<109>>
\* while the local file of the same name exists, the vendor drop-in decides nothing: the tree without it shows the same.
\* Stated for trees WITH a main file: without one the first drop-in consulted is the merge base and is never masked (the open
\* finding of C01/C12 that Econf.tla models as the code is; TLC refutes the unconditioned form in an initial state)
MaskedVendorDropinIsInert == (P3 \in DOMAIN fs /\ P6 \in DOMAIN fs /\ (P1 \in DOMAIN fs \/ P4 \in DOMAIN fs)) => Show(fs) = Show([q \in DOMAIN fs \ {P6} |-> fs[q]])
\* ---- NOT promised (TLC finds the counterexample; kept as a documented non-property, checked by cfg MC_ToolEdit_np) ----
\* a value changed in the editor may be overridden again by a drop-in that is read after 90_econftool.conf
ReplacedValueIsShown == (last.cmd = "edit" /\ last.ok /\ last.mode = "dropin" /\ last.ed.kind = "replace") =>
   <<NoGrp, <<97>>, << <<48>> >> >> \in Show(fs).triples

TripleJ(t) == [g |-> t[1], k |-> t[2], vals |-> t[3]]
FileJ(f) == [j \in 1..Cardinality(DOMAIN f) |-> [path |-> SetToSortSeq(DOMAIN f, ByteLess)[j], lines |-> f[SetToSortSeq(DOMAIN f, ByteLess)[j]]]]
Case == [init |-> FileJ(init), acts |-> acts, paths |-> SetToSortSeq(DOMAIN fs, ByteLess),
         show |-> [ok |-> Show(fs).ok, triples |-> SetToSeq({TripleJ(t) : t \in Show(fs).triples})]]
ExportCase == (Export /\ acts # <<>>) => PrintT(ToJson(Case))
=============================================================================
