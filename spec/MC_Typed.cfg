SPECIFICATION Spec
INVARIANT WellFormed
INVARIANT NoWrap
INVARIANT RoundTrip
INVARIANT Monotone
INVARIANT LimitsAgree
CONSTRAINT ExportCase
CHECK_DEADLOCK FALSE
CONSTANTS Export = TRUE
