----------------------------- MODULE MC_Typed -----------------------------
(* C09 / C08 on the model.  Universe of integer literals: sign x base x magnitudes
   {0, 1, 2^31 +- 3, 2^32 +- 3, 2^63 +- 3, 2^64 +- 3, 2^33 .. 2^65}; every literal is exported with
   IntMeaning for each of the four integer types.  Model lemmas:
     RoundTrip   (C08)  the canonical text of every representable value is read back as that value
     NoWrap      (C09)  a successful reading never differs from the literal's magnitude
     Monotone           if a magnitude is refused, every larger magnitude of the same sign is refused *)
EXTENDS Typed, TLC, Json
CONSTANT Export
VARIABLES lit, stage
vars == <<lit, stage>>

Bases == {8, 10, 16}
Around(n, b) == {SubSmall(Pow2(n, b), b, k) : k \in 1..3} \cup {AddSmall(Pow2(n, b), b, k) : k \in 0..2}
Mags(b) == {<<0>>, <<1>>} \cup UNION {Around(n, b) : n \in {31, 32, 63, 64}} \cup {Pow2(n, b) : n \in 33..65}

NoLit == [sign |-> "", base |-> 10, digits |-> <<0>>]
Init == lit = NoLit /\ stage = 0
Pick == /\ stage = 0 /\ stage' = 1
        /\ \E s \in {"", "+", "-"}, b \in Bases : \E m \in Mags(b) : lit' = [sign |-> s, base |-> b, digits |-> m]
Next == Pick
Spec == Init /\ [][Next]_vars

WellFormed == LitOk(lit)
NoWrap == \A T \in Types : LET r == IntMeaning(T, lit) IN r.rc = "ECONF_SUCCESS" => r.mag = Norm(lit.digits)
RoundTrip == \A T \in Types :
               (stage = 1 /\ lit.base = 10 /\ lit.sign # "+" /\ Representable(T, lit) /\ ~(lit.sign = "-" /\ IsZero(lit.digits))) =>
               LET r == IntMeaning(T, CanonLit(lit.sign = "-", lit.digits)) IN
               r.rc = "ECONF_SUCCESS" /\ r.mag = Norm(lit.digits) /\ r.neg = (lit.sign = "-")
Monotone == \A T \in Types : ~Representable(T, lit) =>
               ~Representable(T, [lit EXCEPT !.digits = AddSmall(Norm(lit.digits), lit.base, 1)])
\* the limits computed by doubling agree in all three bases on which magnitudes they admit
LimitsAgree == \A T \in Types : MagLE(<<1>>, MaxMag(T, FALSE, lit.base)) /\ MagLE(MaxMag(T, TRUE, lit.base), Pow2(Width(T), lit.base))

Case == [text |-> LitText(lit), sign |-> lit.sign, base |-> lit.base, digits |-> lit.digits,
         exp |-> [T \in Types |-> IntMeaning(T, lit)]]
ExportCase == (Export /\ stage = 1) => PrintT(ToJson(Case))
=============================================================================
