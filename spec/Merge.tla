------------------------------- MODULE Merge -------------------------------
(* econf_mergeFiles(base, override).

   MergeRef   — the sentence of property C03, on the observable (sections, keys per section,
                values): complete, ordered, non-destructive override.
   MergeImpl  — the operational shape of the merge core (lib/mergefiles.c, merge_entries): one
                pass over an output array with an explicit write index `n`, whose bound
                Len(b) + Len(o) is part of the statement (no write beyond the allocation).     *)
EXTENDS Cfg

\* ---------- declarative reference ----------
RefSections(b, o) == SectionsOf(b) \o SeqMinus(SectionsOf(o), SectionsOf(b))
RefKeys(b, o, g)  == Dedup(KeysOf(b, g)) \o SeqMinus(Dedup(KeysOf(o, g)), KeysOf(b, g))
RefValue(b, o, g, k) == IF Defines(o, g, k) THEN Lookup(o, g, k) ELSE Lookup(b, g, k)
MergeRef(b, o) ==
  LET gs == <<NoG>> \o RefSections(b, o) IN
  [groups |-> RefSections(b, o),
   ents   |-> Cat([n \in 1..Len(gs) |->
                     LET ks == RefKeys(b, o, gs[n]) IN
                     [i \in 1..Len(ks) |-> Ent(gs[n], ks[i], RefValue(b, o, gs[n], ks[i]))]])]

\* ---------- operational model: output array `out`, write index = Len(out) ----------
HasGroup(c, g) == \E i \in 1..Len(c) : c[i].g = g
OnlyOver(o, b, g) == SelectSeq(o, LAMBDA e : e.g = g /\ ~Defines(b, e.g, e.k))
LastOfGroup(b, i) == \A k \in (i+1)..Len(b) : b[k].g # b[i].g

RECURSIVE MergeLoop(_, _, _, _)
MergeLoop(out, b, o, i) ==
  IF i > Len(b) THEN out ELSE
  LET e  == b[i]
      e2 == IF Defines(o, e.g, e.k) THEN Ent(e.g, e.k, Lookup(o, e.g, e.k)) ELSE e
      o1 == Append(out, e2)
      o2 == IF LastOfGroup(b, i) THEN o1 \o OnlyOver(o, b, e.g) ELSE o1 IN
  MergeLoop(o2, b, o, i + 1)

MergeImpl(b, o) ==
  LET pre  == IF HasGroup(b, NoG) THEN <<>> ELSE SelectSeq(o, LAMBDA e : e.g = NoG)   \* override-only group-less keys first
      mid  == MergeLoop(pre, b, o, 1)
      post == SelectSeq(o, LAMBDA e : e.g # NoG /\ ~HasGroup(b, e.g)) IN               \* override-only sections last
  mid \o post

\* left fold used by the layered reads
RECURSIVE FoldMerge(_)
FoldMerge(cs) == IF Len(cs) = 1 THEN cs[1] ELSE MergeImpl(FoldMerge(SubSeq(cs, 1, Len(cs) - 1)), cs[Len(cs)])
=============================================================================
