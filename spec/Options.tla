------------------------------ MODULE Options ------------------------------
(* Option strings of econf_newKeyFile_with_options (lib/libeconf.c) and their effect on a later
   econf_readConfig.

   An option string is a sequence of items joined by ';'.  Abstract item = [name, arg]:
     "JOIN" / "PYTHON"   arg \in {0, 1}
     "PDIRS"             arg = sequence of directory indices (PARSING_DIRS=<d1>:<d2>...)
     "CDIRS"             arg = sequence of postfix indices   (CONFIG_DIRS=<p1>:<p2>...)
     "ROOT"              arg = root index                    (ROOT_PREFIX=<dir>)
     "BAD"               arg = index into the unknown / misspelt names
   Effect: every item acts as documented, an item given twice acts as its last occurrence;
   one item with an unknown name: ECONF_OPTION_NOT_FOUND.                                   *)
EXTENDS Naturals, Sequences, FiniteSets

Default == [join |-> FALSE, python |-> FALSE, pdirs |-> <<>>, cdirs |-> <<>>, root |-> 0]
Apply(eff, it) ==
  CASE it.name = "JOIN"   -> [eff EXCEPT !.join = (it.arg = 1)]
    [] it.name = "PYTHON" -> [eff EXCEPT !.python = (it.arg = 1)]
    [] it.name = "PDIRS"  -> [eff EXCEPT !.pdirs = it.arg]
    [] it.name = "CDIRS"  -> [eff EXCEPT !.cdirs = it.arg]
    [] it.name = "ROOT"   -> [eff EXCEPT !.root = it.arg]
    [] OTHER -> eff
RECURSIVE Fold(_, _)
Fold(eff, items) == IF items = <<>> THEN eff ELSE Fold(Apply(eff, Head(items)), Tail(items))
HasBad(items) == \E i \in 1..Len(items) : items[i].name = "BAD"
OptionsMeaning(items) == IF HasBad(items) THEN [rc |-> "ECONF_OPTION_NOT_FOUND", eff |-> Default]
                         ELSE [rc |-> "ECONF_SUCCESS", eff |-> Fold(Default, items)]

\* declarative: the effect of a documented item is that of its LAST occurrence
LastOf(items, nm) == LET I == {i \in 1..Len(items) : items[i].name = nm} IN
                     IF I = {} THEN 0 ELSE CHOOSE i \in I : \A j \in I : j <= i
LastWins(items) ==
  LET e == Fold(Default, items)
      at(nm, dflt) == IF LastOf(items, nm) = 0 THEN dflt ELSE items[LastOf(items, nm)].arg IN
  /\ e.join = (at("JOIN", 0) = 1) /\ e.python = (at("PYTHON", 0) = 1)
  /\ e.pdirs = at("PDIRS", <<>>) /\ e.cdirs = at("CDIRS", <<>>) /\ e.root = at("ROOT", 0)

\* what a probe read on the probe tree reveals (the harness lays the tree out so that every directory
\* / postfix / root that is consulted contributes one marker key)
\*   layers consulted: explicit parsing dirs, else the three default dirs below the root in force
\*   postfixes consulted: explicit config dirs, else the default "<name>.<suffix>.d"
Probe(eff) == [join |-> eff.join, python |-> eff.python,
               dirs |-> IF eff.pdirs # <<>> THEN [k |-> "explicit", list |-> eff.pdirs] ELSE [k |-> "default", list |-> <<eff.root>>],
               posts |-> IF eff.cdirs # <<>> THEN eff.cdirs ELSE <<0>>]
=============================================================================
