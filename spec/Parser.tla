------------------------------- MODULE Parser -------------------------------
(* The line parser of libeconf (lib/getfilecontents.c: read_file, store, join_same_entries)
   as a state machine over physical lines, written in the order of the C loop so that a
   rejected step can be read against the source.

   One PStep = one iteration of the getline() loop.  The parser state `st` is
     ents   entries in file order   [g, k, hasv, v, line, cb, ca, quoted]
     groups section names in order of first appearance
     cur    current section (<<>> = group-less)
     pb/pa  pending "comment before key" / "comment after value" buffers (optional strings)
     line   number of physical lines consumed
     err    "ok" or the error code name; once set the state is frozen (goto out)

   The model is NORMATIVE for the properties: a line whose first non-blank character is a
   comment character is a comment whatever follows (C05); a line of blanks is skipped; a
   continuation of a value-less entry continues the empty text (not the text "(null)").  *)
EXTENDS Chars

PInit == [ents |-> <<>>, groups |-> <<>>, cur |-> <<>>, pb |-> None, pa |-> None, line |-> 0, err |-> "ok"]

AddGroup(gs, g) == IF \E i \in 1..Len(gs) : gs[i] = g THEN gs ELSE Append(gs, g)

\* trailing comments: one comment character after the other; for each its LAST occurrence
\* (strrchr) subject to the quote rules of the C code
RECURSIVE TrailCom(_, _, _, _)
TrailCom(name, pa, cs, python) ==
  IF cs = <<>> THEN [name |-> name, pa |-> pa] ELSE
  LET c == Head(cs)  p == StrRChr(name, c) IN
  IF p = 0 \/ p = 1 \/ python THEN TrailCom(name, pa, Tail(cs), python) ELSE
  LET fq == StrChr(name, QUOTE)  lq == StrRChr(name, QUOTE) IN
  IF fq = 0 \/ (fq # lq /\ lq < p) \/ (fq = lq /\ lq < p)
  THEN TrailCom(Upto(name, p-1), AppendOpt(pa, From(name, p+1)), Tail(cs), python)
  ELSE TrailCom(name, pa, Tail(cs), python)

\* continuation lines: the physical line is cut at the FIRST occurrence of each comment character
RECURSIVE CutAtComments(_, _)
CutAtComments(s, cs) == IF cs = <<>> THEN s ELSE
   LET p == StrChr(s, Head(cs)) IN CutAtComments(IF p = 0 THEN s ELSE Upto(s, p-1), Tail(cs))

Err(st, code) == [st EXCEPT !.err = code]
Clear(st) == [st EXCEPT !.pb = None, !.pa = None]

\* store(): new entry
StoreNew(st, key, hasv, v, quoted) ==
  LET e == [g |-> st.cur, k |-> RTrimSp(key), hasv |-> hasv, v |-> v, line |-> st.line,
            cb |-> st.pb, ca |-> st.pa, quoted |-> quoted] IN
  Clear([st EXCEPT !.ents = Append(st.ents, e)])

\* store(): appending a line to the last entry
StoreAppend(st, text, python) ==
  LET n == Len(st.ents)  e == st.ents[n]
      t == IF python THEN SkipSp(text) ELSE text
      newca == IF e.ca.has /\ ~st.pa.has THEN Some(e.ca.t \o NL)
               ELSE IF st.pa.has THEN (IF e.ca.has THEN Some(e.ca.t \o NL \o st.pa.t) ELSE Some(NL \o st.pa.t))
               ELSE e.ca
      e2 == [e EXCEPT !.v = e.v \o NL \o t, !.hasv = TRUE, !.line = st.line, !.ca = newca] IN
  Clear([st EXCEPT !.ents = [st.ents EXCEPT ![n] = e2]])

\* one physical line (without its newline).  par = [delim, comment, python, join]
PStep(st0, raw, par) ==
  IF st0.err # "ok" THEN st0 ELSE
  LET st == [st0 EXCEPT !.line = st0.line + 1]
      delim == par.delim  com == par.comment  python == par.python
      name0 == SkipSp(raw) IN
  IF raw = <<>> \/ name0 = <<>> THEN st ELSE                                   \* empty / blanks only
  IF InStr(name0[1], com) THEN [st EXCEPT !.pb = AppendOpt(st.pb, Tail(name0))] ELSE    \* comment line
  LET tc == TrailCom(name0, st.pa, com, python)
      name == tc.name
      st1 == [st EXCEPT !.pa = tc.pa] IN
  IF name[1] = LBR THEN                                                         \* section header
     LET nm == Tail(name)  t == RTrimSp(nm) IN
     IF t = <<>> \/ t[Len(t)] # RBR
     THEN Err(st1, IF InStr(RBR, nm) THEN "ECONF_TEXT_AFTER_SECTION" ELSE "ECONF_MISSING_BRACKET")
     ELSE LET g == Upto(t, Len(t)-1) IN
          IF g = <<>> THEN Err(st1, "ECONF_EMPTY_SECTION_NAME")
          ELSE [st1 EXCEPT !.cur = g, !.groups = AddGroup(st1.groups, g)]
  ELSE IF delim = <<>> \/ delim = NL THEN StoreNew(st1, name, FALSE, <<>>, FALSE)   \* keys only
  ELSE
  LET wsp == HasWsp(delim)  nonwsp == HasNonWsp(delim)  mixed == wsp /\ nonwsp
      stops == {i \in 1..Len(name) : IsSp(name[i]) \/ InStr(name[i], delim)}
      i == IF stops = {} THEN Len(name) + 1 ELSE MinOf(stops)                   \* end of the key
      split == i > 1 /\ i <= Len(name)
      delimSeen == split /\ (IF mixed THEN ~IsSp(name[i]) /\ InStr(name[i], delim) ELSE InStr(name[i], delim))
      key == IF split THEN Upto(name, i-1) ELSE name
      rest == IF split THEN From(name, i+1) ELSE From(name, i)   \* i = 1: whole name ; i > Len: empty
      foundDelim == IF python /\ IsSp(raw[1]) THEN FALSE
                    ELSE delimSeen \/ \E j \in 1..Len(rest) : InStr(rest[j], delim)
      n == Len(st1.ents) IN
  IF ~mixed /\ ~foundDelim /\ n > 0 /\ st1.ents[n].line + 1 = st1.line         \* continuation line
  THEN StoreAppend(st1, IF python THEN raw ELSE CutAtComments(raw, com), python)
  ELSE IF i = 1 THEN st1                                                        \* line starts with a delimiter
  ELSE IF rest = <<>> THEN StoreNew(st1, key, FALSE, <<>>, FALSE)               \* key without value
  ELSE
  LET d0 == SkipSp(rest)
      needDelim == ~wsp /\ ~delimSeen
      missing == needDelim /\ (d0 = <<>> \/ ~InStr(d0[1], delim))
      d1 == IF needDelim /\ ~missing THEN SkipSp(Tail(d0))
            ELSE IF mixed /\ ~delimSeen /\ d0 # <<>> /\ InStr(d0[1], delim) THEN SkipSp(Tail(d0))
            ELSE d0
      q == d1 # <<>> /\ d1[1] = QUOTE
      d2 == RTrimSp(IF q THEN Tail(d1) ELSE d1)
      v == IF ~q THEN d2
           ELSE IF d2 # <<>> /\ d2[Len(d2)] = QUOTE THEN Upto(d2, Len(d2)-1) ELSE <<QUOTE>> \o d2 IN
  IF missing THEN Err(st1, "ECONF_MISSING_DELIMITER") ELSE StoreNew(st1, key, TRUE, v, q)

RECURSIVE ParseLines(_, _, _)
ParseLines(st, lines, par) == IF lines = <<>> THEN st ELSE ParseLines(PStep(st, Head(lines), par), Tail(lines), par)

\* ---- join_same_entries(): runs after the loop, also on the error path (values only) ----
RECURSIVE JoinFold(_, _, _, _)
JoinFold(acc, ents, i, j) ==      \* acc = [hasv, v] of entry i after looking at entries i+1..j-1
  IF j > Len(ents) THEN acc ELSE
  IF ents[j].g = ents[i].g /\ ents[j].k = ents[i].k
  THEN IF ~ents[j].hasv \/ ents[j].v = <<>> THEN JoinFold([hasv |-> TRUE, v |-> <<>>], ents, i, j+1)
       ELSE JoinFold([hasv |-> TRUE, v |-> acc.v \o NL \o SkipSp(ents[j].v)], ents, i, j+1)
  ELSE JoinFold(acc, ents, i, j+1)
JoinEnts(ents) == [i \in 1..Len(ents) |->
                     LET r == JoinFold([hasv |-> ents[i].hasv, v |-> ents[i].v], ents, i, i+1) IN
                     [ents[i] EXCEPT !.hasv = r.hasv, !.v = r.v]]
PFinish(st, par) == IF par.join THEN [st EXCEPT !.ents = JoinEnts(st.ents)] ELSE st

ParseFile(lines, par) == PFinish(ParseLines(PInit, lines, par), par)

\* ---- framing: the file on disk (read_file: one getline per physical line) ----
\* A file is its lines joined by newlines; the newline after the LAST line is optional and carries no
\* meaning: every line is handed to the line step without its newline, whether it had one or not.
FileBytes(lines, fnl) == JoinWith(lines, NL) \o (IF fnl /\ lines # <<>> THEN NL ELSE <<>>)
LinesOfBytes(bs) == IF bs = <<>> THEN <<>> ELSE
                    LET ls == SplitAt(bs, NLc) IN IF ls[Len(ls)] = <<>> THEN SubSeq(ls, 1, Len(ls) - 1) ELSE ls
ParseBytes(bs, par) == ParseFile(LinesOfBytes(bs), par)

\* ---- entry points ----
\* econf_readFile, and every file consulted by a layered read (main file and drop-ins of econf_readDirs*,
\* econf_readConfig*), go through the same read_file_with_callback -> read_file: ONE line loop, with the
\* caller's delimiter and comment sets.  An empty (or absent) comment set stands for "#" - on every path.
EffComment(c) == IF c = <<>> THEN <<35>> ELSE c
EffPar(par) == [par EXCEPT !.comment = EffComment(par.comment)]
ReadVia(via, bs, par) == ParseBytes(bs, EffPar(par))          \* via \in {"file", "dirs-main", "dirs-dropin", "config"}: no dependence

\* ---- what the public getters show of a parsed object ----
ByGroup(ents, g) == SelectSeq(ents, LAMBDA e : e.g = g)
Listing(st) == Cat([i \in 1..(Len(st.groups) + 1) |->
                      IF i = 1 THEN ByGroup(st.ents, <<>>) ELSE ByGroup(st.ents, st.groups[i-1])])
FirstOf(ents, g, k) == ents[MinOf({i \in 1..Len(ents) : ents[i].g = g /\ ents[i].k = k})]   \* find_key: first match

\* value lines as econf_getExtValue reports them
ExtValues(e) == IF ~e.hasv THEN <<>>
                ELSE LET t == TrimSp(e.v) IN
                     IF t # <<>> /\ t[1] = QUOTE THEN <<t>>
                     ELSE LET ls == SplitAt(t, NLc) IN [i \in 1..Len(ls) |-> TrimSp(ls[i])]
NonEmpty(ss) == SelectSeq(ss, LAMBDA s : s # <<>>)
EntObs(e) == [g |-> e.g, k |-> e.k, v |-> IF e.hasv THEN e.v ELSE <<>>,       \* NULL and "" are one observation
              line |-> e.line, cb |-> OptSeq(e.cb),
              ca |-> IF e.ca.has THEN NonEmpty(SplitAt(e.ca.t, NLc)) ELSE <<>>,
              vals |-> NonEmpty(ExtValues(e))]
Obs(st) == IF st.err # "ok" THEN [rc |-> st.err, errline |-> st.line]
           ELSE LET L == Listing(st) IN
                [rc |-> "ECONF_SUCCESS", groups |-> st.groups,
                 ents |-> [i \in 1..Len(L) |-> EntObs(FirstOf(st.ents, L[i].g, L[i].k))]]
=============================================================================
