------------------------------- MODULE Pools -------------------------------
(* Line-shape pools over the structural alphabet (blank, tab, every delimiter and comment
   character in play, quote, brackets, a few letters) from which the bounded universes of
   MC_Parser / MC_Comment / MC_Options are built.  Star design: a default entry shape with each
   dimension (indentation, key, separator, value, quoting, trailing blanks, trailing comment)
   varied alone plus a few combined shapes.                                                *)
EXTENDS Grammar
a == <<97>>  b == <<98>>  v == <<118>>  w == <<119>>  cc == <<99>>
sp == <<SP>>  tb == <<TAB>>

DelimSets   == {<<61>>, <<58, 61>>, <<32>>, <<32, 9>>, <<32, 61>>, <<9, 32, 61>>, <<>>}
CommentSets == {<<35>>, <<59>>, <<35, 59>>}
ParsFor(opt) ==
  IF opt = "python"
  THEN {[delim |-> d, comment |-> c, python |-> TRUE, join |-> FALSE, jpool |-> FALSE] : d \in {<<61>>, <<58, 61>>, <<32>>}, c \in CommentSets}
  ELSE IF opt = "join"
  THEN {[delim |-> d, comment |-> c, python |-> FALSE, join |-> TRUE, jpool |-> TRUE] : d \in {<<61>>, <<58, 61>>}, c \in CommentSets}
  ELSE IF opt = "nojoin"          \* the same files read WITHOUT the option: the first definition wins
  THEN {[delim |-> d, comment |-> c, python |-> FALSE, join |-> FALSE, jpool |-> TRUE] : d \in {<<61>>, <<58, 61>>}, c \in CommentSets}
  ELSE IF opt \in {"joinsections", "nojoinsections"}   \* few line shapes, many lines, for JOIN_SAME_ENTRIES: a key defined again after
                                                       \* its section was left and re-opened; read with and without the option
  THEN {[delim |-> <<61>>, comment |-> <<35>>, python |-> FALSE, join |-> (opt = "joinsections"), jpool |-> FALSE, spool |-> TRUE, jspool |-> TRUE]}
  ELSE IF opt = "sections"        \* few line shapes, many lines: sections that re-open after other sections
  THEN {[delim |-> d, comment |-> c, python |-> FALSE, join |-> FALSE, jpool |-> FALSE, spool |-> TRUE] : d \in {<<61>>, <<32>>, <<32, 61>>}, c \in {<<35>>}}
  ELSE {[delim |-> d, comment |-> c, python |-> FALSE, join |-> FALSE, jpool |-> FALSE] : d \in DelimSets, c \in CommentSets}

\* ---- separators by delimiter class ----
Seps(D) ==
  LET nb == NonBlanksOf(D)  bl == BlanksOf(D)  cl == Class(D) IN
  CASE cl = "NONBLANK" -> {<<nb[1]>>, sp \o <<nb[1]>> \o sp, tb \o <<nb[Len(nb)]>>}
    [] cl = "BLANK"    -> {<<bl[1]>>, <<bl[1], bl[Len(bl)]>>, tb \o <<bl[1]>>}
    [] cl = "MIXED"    -> {<<nb[1]>>, sp \o <<nb[1]>> \o sp, sp, tb \o sp}
    [] OTHER -> {}
Sep1(D) == LET nb == NonBlanksOf(D)  bl == BlanksOf(D) IN IF nb # <<>> THEN <<nb[1]>> ELSE <<bl[1]>>

Entries(p) ==
  LET D == p.delim  C == p.comment  s1 == Sep1(D)  c1 == C[1]  c2 == C[Len(C)]
      nbd == NonBlanksOf(D)
      tcs == IF p.python THEN {} ELSE {<<c1, cc>>, <<c1, sp \o cc \o sp \o v>>, <<c2, cc>>} IN
  {EntryL(E, a, s1, v, FALSE, E, E, E), EntryL(E, b, s1, v, FALSE, E, E, E), EntryL(sp, a, s1, v, FALSE, E, E, E)}
  \cup {EntryL(E, a, s, v, FALSE, E, E, E) : s \in Seps(D)}
  \cup {EntryL(E, a, s1, x, FALSE, E, E, E) : x \in {E, v \o sp \o w} \cup (IF nbd # <<>> THEN {v \o <<nbd[1]>> \o w} ELSE {})}
  \cup {EntryL(E, a, s1, x, TRUE, E, E, E) : x \in {v, sp \o v \o sp, <<c1>> \o w, E}}
  \cup {EntryL(E, a, s1, v, FALSE, sp, E, E)}
  \cup {EntryL(E, a, s1, v, FALSE, E, <<t[1]>>, t[2]) : t \in tcs}
  \cup {EntryL(E, b, s1, E, FALSE, sp, <<t[1]>>, t[2]) : t \in tcs}
  \cup {EntryL(sp, b, s, sp \o v \o sp, TRUE, sp, <<t[1]>>, t[2]) : s \in Seps(D), t \in (IF tcs = {} THEN {} ELSE {<<c1, cc>>})}
  \cup (IF p.python THEN {EntryL(E, a, s1, v \o sp \o <<c1>> \o w, FALSE, E, E, E),             \* comment chars stay in the value
                          \* ... also behind a text in double quotes (the value then keeps the quotes: it does not END in one)
                          EntryL(E, b, s1, <<QUOTE>> \o v \o <<QUOTE>> \o sp \o <<c1>> \o sp \o w, FALSE, E, E, E)} ELSE {})

Conts(p) ==
  LET D == p.delim  cl == Class(D)  c1 == p.comment[1]  nbd == NonBlanksOf(D) IN
  IF p.python
  THEN {ContL(sp, w, E, E, E), ContL(tb \o sp, w, E, E, E)}
       \cup (IF cl = "NONBLANK" THEN {ContL(sp, w \o <<nbd[1]>> \o v, E, E, E), ContL(sp, w \o sp \o v, sp, E, E)} ELSE {})
  ELSE IF cl = "NONBLANK"
  THEN {ContL(sp, w, E, E, E), ContL(tb \o sp, w \o sp \o v, E, E, E), ContL(sp, w, sp, E, E), ContL(sp, w, sp, <<c1>>, cc),
        ContL(sp, <<QUOTE>> \o w, E, E, E), ContL(sp, v \o <<QUOTE>>, E, E, E)}        \* a quoted text that starts on a continuation line
  ELSE IF cl = "BLANK" THEN {ContL(sp, w, E, E, E), ContL(tb \o sp, w, E, E, E)}
  ELSE {}

Headers == {HeaderL(E, <<83>>, E), HeaderL(sp, <<83>>, sp), HeaderL(E, <<84>>, E), HeaderL(E, <<83, 32, 84>>, E)}
Blanks  == {BlankL(E), BlankL(sp \o tb)}
Comments(p) == LET c1 == p.comment[1]  c2 == p.comment[Len(p.comment)]  D == p.delim IN
               {CommentL(E, c1, cc), CommentL(sp, c2, sp \o cc)}
               \cup {CommentL(E, c1, a \o Sep1(D) \o v) : x \in IF D = <<>> THEN {} ELSE {1}}
KeyOnlys == {KeyOnlyL(E, a, E), KeyOnlyL(E, b, E), KeyOnlyL(sp, a, sp), KeyOnlyL(E, a \o sp \o b, E)}

\* malformed lines of C13 with their codes
Bads(p) == {BadL(<<LBR, 83>>, "ECONF_MISSING_BRACKET"), BadL(<<LBR, 83, RBR, 32, 120>>, "ECONF_TEXT_AFTER_SECTION"),
            BadL(<<LBR, RBR>>, "ECONF_EMPTY_SECTION_NAME"), BadL(sp \o <<LBR, 83, 32>>, "ECONF_MISSING_BRACKET")}
           \cup (IF Class(p.delim) = "NONBLANK" THEN {BadL(a \o sp \o v, "ECONF_MISSING_DELIMITER")} ELSE {})

\* JOIN_SAME_ENTRIES grammar (DESIGN.md 5.2): keys defined several times, unquoted values (possibly
\* empty), continuation lines, re-opened sections
JoinPool(p) ==
  LET s1 == Sep1(p.delim) IN
  {BlankL(E), HeaderL(E, <<83>>, E), HeaderL(E, <<84>>, E)}
  \cup {EntryL(E, k, s, x, FALSE, E, E, E) : k \in {a, b}, s \in {s1}, x \in {v, w, E}}
  \cup {EntryL(sp, a, sp \o s1 \o sp, v \o sp \o w, FALSE, sp, E, E)}
  \cup {EntryL(E, a, s1, v \o sp \o w, TRUE, E, E, E)}            \* a definition in double quotes (the quotes are not part of the joined text)
  \cup {EntryL(E, a, s1, x, FALSE, sp, <<p.comment[1]>>, cc) : x \in {v, E}}      \* a (re)definition / an empty "reset" definition with a trailing comment
  \cup {ContL(sp, w, E, E, E), ContL(tb \o sp, v \o sp \o w, sp, E, E)}

SectionPool(p) == LET s1 == Sep1(p.delim) IN
  IF "jspool" \in DOMAIN p /\ p.jspool
  THEN {HeaderL(E, <<83>>, E), HeaderL(E, <<84>>, E)} \cup {EntryL(E, a, s1, x, FALSE, E, E, E) : x \in {v, w, E}}
  ELSE
  {HeaderL(E, <<83>>, E), HeaderL(E, <<84>>, E)} \cup {EntryL(E, k, s1, v, FALSE, E, E, E) : k \in {a, b, cc}}
IsSPool(p) == "spool" \in DOMAIN p /\ p.spool
Pool(p, withBad) == IF IsSPool(p) THEN SectionPool(p) ELSE IF p.jpool THEN JoinPool(p) ELSE
           Blanks \cup Comments(p) \cup Headers
           \cup (IF Class(p.delim) = "NONE" THEN KeyOnlys ELSE Entries(p) \cup Conts(p))
           \cup (IF withBad THEN Bads(p) ELSE {})

=============================================================================
