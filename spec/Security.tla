------------------------------ MODULE Security ------------------------------
(* Process-wide restrictions on the files a read may use (lib/libeconf.c econf_requireOwner,
   econf_requireGroup, econf_followSymlinks, econf_requirePermissions, econf_reset_security_settings;
   applied by read_file_with_callback to EVERY file of EVERY read before the callback is asked).

   The settings are a small state machine: every setter changes ITS OWN setting only and a setting keeps
   the value of the last call; the reset call returns all of them to "none".

   flags = [owner, group, nosym, perms]
      owner, group \in {"none", "ok", "foreign"}   the uid / gid asked for: none, the one the files usually have, another one
      nosym        \in BOOLEAN                     symbolic links are refused
      perms        \in {"none", "lenient", "strict"} permission masks: none, masks every file satisfies, a file mask that
                                                    files of attribute perm = "bad" and a directory mask that
                                                    directories of attribute dperm = "bad" do not satisfy
   attrs[f] = [own, grp, link, perm, dperm]   own/grp \in {"ok","foreign"}; link: the path is a symbolic link; perm \in {"ok","bad"};
                                       dperm \in {"ok","bad"}: permission bits of the DIRECTORY the file sits in (shared by its files)
   A main file of kind "devnull" is a symbolic link by construction.  The permission bits looked at are those of the
   directory entry itself (lstat): a symbolic link always satisfies a file mask.                       *)
EXTENDS Layers

NoFlags == [owner |-> "none", group |-> "none", nosym |-> FALSE, perms |-> "none"]
RequireOwner(fl, who) == [fl EXCEPT !.owner = who]
RequireGroup(fl, who) == [fl EXCEPT !.group = who]
ForbidSymlinks(fl) == [fl EXCEPT !.nosym = TRUE]
AllowSymlinks(fl) == [fl EXCEPT !.nosym = FALSE]
RequirePerms(fl, how) == [fl EXCEPT !.perms = how]
ResetFlags(fl)    == NoFlags
\* one recorded setter call [op, arg]
ApplySetter(fl, c) ==
  CASE c.op = "requireowner" -> RequireOwner(fl, c.arg)
    [] c.op = "requiregroup" -> RequireGroup(fl, c.arg)
    [] c.op = "followsymlinks" -> IF c.arg = "on" THEN AllowSymlinks(fl) ELSE ForbidSymlinks(fl)
    [] c.op = "requireperms" -> RequirePerms(fl, c.arg)
    [] c.op = "resetsec" -> ResetFlags(fl)
    [] OTHER -> fl
RECURSIVE ApplySetters(_, _)
ApplySetters(fl, cs) == IF cs = <<>> THEN fl ELSE ApplySetters(ApplySetter(fl, Head(cs)), Tail(cs))

IsLink(tree, attrs, f) == attrs[f].link \/ (f.r = 0 /\ tree.main[f.l] = "devnull")
Violations(tree, attrs, fl, f) ==
  (IF fl.nosym /\ IsLink(tree, attrs, f) THEN {"symlink"} ELSE {})
  \cup (IF fl.owner # "none" /\ attrs[f].own # fl.owner THEN {"owner"} ELSE {})
  \cup (IF fl.group # "none" /\ attrs[f].grp # fl.group THEN {"group"} ELSE {})
  \cup (IF fl.perms = "strict" /\ attrs[f].perm = "bad" /\ ~IsLink(tree, attrs, f) THEN {"fileperm"} ELSE {})
  \cup (IF fl.perms = "strict" /\ attrs[f].dperm = "bad" THEN {"dirperm"} ELSE {})
FaultsOf(tree, attrs, fl) == [f \in AllFiles(tree) |-> Violations(tree, attrs, fl, f)]
PlainAttrs(tree) == [f \in AllFiles(tree) |-> [own |-> "ok", grp |-> "ok", link |-> FALSE, perm |-> "ok", dperm |-> "ok"]]
=============================================================================
