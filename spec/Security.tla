------------------------------ MODULE Security ------------------------------
(* Process-wide restrictions on the files a read may use (lib/libeconf.c econf_requireOwner,
   econf_requireGroup, econf_followSymlinks, econf_reset_security_settings; applied by
   read_file_with_callback to EVERY file of EVERY read before the callback is asked).

   flags = [owner, group, nosym]     restrictions in force
   attrs[f] = [own, grp, link]       own/grp \in {"ok","foreign"}; link: the path is a symbolic link
   A main file of kind "devnull" is a symbolic link by construction.                          *)
EXTENDS Layers

NoFlags == [owner |-> FALSE, group |-> FALSE, nosym |-> FALSE]
RequireOwner(fl)  == [fl EXCEPT !.owner = TRUE]
RequireGroup(fl)  == [fl EXCEPT !.group = TRUE]
ForbidSymlinks(fl) == [fl EXCEPT !.nosym = TRUE]
AllowSymlinks(fl) == [fl EXCEPT !.nosym = FALSE]
ResetFlags(fl)    == NoFlags

IsLink(tree, attrs, f) == attrs[f].link \/ (f.r = 0 /\ tree.main[f.l] = "devnull")
Violations(tree, attrs, fl, f) ==
  (IF fl.nosym /\ IsLink(tree, attrs, f) THEN {"symlink"} ELSE {})
  \cup (IF fl.owner /\ attrs[f].own = "foreign" THEN {"owner"} ELSE {})
  \cup (IF fl.group /\ attrs[f].grp = "foreign" THEN {"group"} ELSE {})
FaultsOf(tree, attrs, fl) == [f \in AllFiles(tree) |-> Violations(tree, attrs, fl, f)]
PlainAttrs(tree) == [f \in AllFiles(tree) |-> [own |-> "ok", grp |-> "ok", link |-> FALSE]]
=============================================================================
