-------------------------------- MODULE Tool --------------------------------
(* util/econftool.c: what the command line tool must print for a tree (C19).
   show    every section, key and value - group-less keys included - of the configuration the
           library returns for the tree (Layers!Read), and nothing else;
   syntax  exit status # 0 exactly when the library reports an error, naming file and line;
   cat     the consulted files in processing order, each with its own content.
   The printed LAYOUT is not part of the property; the harness parses stdout into triples
   <<section | <<>>, key, value lines>> and compares sets.                                     *)
EXTENDS Layers

\* triples of a configuration: value lines = blank-trimmed lines of the value
ValLines(v) == LET ls == SplitAt(TrimSp(v), NLc) IN [i \in 1..Len(ls) |-> TrimSp(ls[i])]
Triples(cfg) == {<<e.g, e.k, ValLines(e.v)>> : e \in {ListingOf(cfg)[i] : i \in 1..Len(ListingOf(cfg))}}
ShowCmd(tree, faults) == LET o == Read(tree, faults) IN
                      [exit_ok |-> o.rc = "ECONF_SUCCESS", triples |-> IF o.rc = "ECONF_SUCCESS" THEN Triples(o.cfg) ELSE {}]
SyntaxCmd(tree, faults) == LET o == Read(tree, faults) IN [exit_ok |-> o.rc = "ECONF_SUCCESS", errfile |-> o.errfile]
CatCmd(tree, faults) == LET o == Read(tree, faults) IN
                     [exit_ok |-> o.rc = "ECONF_SUCCESS",
                      files |-> [j \in 1..Len(o.hist) |-> [f |-> <<o.hist[j].l, o.hist[j].r>>, triples |-> Triples(Content(tree, o.hist[j]))]]]
\* show = what an application gets: by construction of Show from Read; stated for the record
ShowIsLibrary(tree) == ShowCmd(tree, NoFaults(tree)).triples = Triples(Read(tree, NoFaults(tree)).cfg)
=============================================================================
