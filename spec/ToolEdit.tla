------------------------------ MODULE ToolEdit ------------------------------
(* util/econftool.c, the commands that CHANGE the tree: `edit` and `revert` (run as root with --yes),
   as transitions of the concrete file system of Econf.tla; `show` as a function of it.

     edit     the configuration of the tree (econf_readDirs over <root>/usr/etc and <root>/etc; an absent
              configuration is an empty one) is written to a scratch file, the program named by $EDITOR
              changes that file, the result is parsed and written
                 - to <root>/etc/<name>.<suffix>.d/90_econftool.conf      (default: a drop-in), or
                 - to <root>/etc/<name>.<suffix>                          (--full);
              a tree that cannot be read, or an edited text that cannot be parsed, changes nothing and
              fails.  The WHOLE edited configuration is written, not the difference to the tree.
              Dev_EditToNothingFails (the code as it is): the tool asks the original and the edited object
              for their sections and takes ECONF_NOGROUP - the answer of an object PARSED from a text without
              any entry - for an error: a text edited down to nothing is refused, and so is the edit of a tree
              whose files hold no entry (an ABSENT tree is a fresh empty object, which answers with an empty
              list: there `edit` creates the configuration from what the editor leaves).
     revert   removes <root>/etc/<name>.<suffix>.d with everything below it.  The main file it looks for is
              /etc/<name>.<suffix> WITHOUT the $ECONFTOOL_ROOT prefix (Dev_RevertMainUnrooted: the code as
              it is; under a scratch root that file never exists, so <root>/etc/<name>.<suffix> stays).
     show     every (section, key, value lines) of what econf_readDirs returns for the tree.

   The editor is a function on the scratch file's lines; the harness uses editors whose effect does not
   depend on the writer's layout: keep, append lines at the end ("append": entries, "comment": a
   commented-out assignment, which must stay inert), replace everything.                            *)
EXTENDS Econf

UsrEtc == <<47, 117, 115, 114, 47, 101, 116, 99>>          \* "/usr/etc"
Etc    == <<47, 101, 116, 99>>                              \* "/etc"
DropName == <<57, 48, 95, 101, 99, 111, 110, 102, 116, 111, 111, 108, 46, 99, 111, 110, 102>>    \* "90_econftool.conf"
ToolD == <<61>>   ToolC == <<35>>                           \* the tool's default --delimiters / --comment
ToolDirs(root) == <<root \o UsrEtc, root \o Etc>>
FileNameOf(name, sfx) == name \o DotSuffix(sfx)
DropDirOf(root, name, sfx) == root \o Etc \o Slash \o FileNameOf(name, sfx) \o <<46, 100>>
TargetOf(root, name, sfx, mode) == IF mode = "full" THEN root \o Etc \o Slash \o FileNameOf(name, sfx)
                                   ELSE DropDirOf(root, name, sfx) \o Slash \o DropName
TreeOf(fs, root, name, sfx) == ReadDirsResultC(fs, ToolDirs(root), name, sfx, ToolD, ToolC, FALSE, FALSE, <<>>)

\* the editor: [kind, lines]
\* the line assigns to the one-character key c: blanks, c, blanks, '=' (whatever layout the writer chose)
AssignsTo(l, c) == LET t == TrimSp(l) IN Len(t) >= 2 /\ t[1] = c /\ LET r == TrimSp(SubSeq(t, 2, Len(t))) IN Len(r) >= 1 /\ r[1] = 61
Edited(text, ed) == CASE ed.kind = "keep" -> text [] ed.kind = "dropkey" -> SelectSeq(text, LAMBDA l : ~AssignsTo(l, ed.lines[1][1])) [] ed.kind \in {"append", "comment"} -> text \o ed.lines [] OTHER -> ed.lines
ScratchPath == <<47, 115>>
EmptyObj(o) == o.ents = <<>> /\ o.secs = <<>>
\* result: ok (exit status 0), fs (the file system afterwards), obj (what was written; Null when nothing was)
EditResult(fs, root, name, sfx, mode, ed) ==
  LET r == TreeOf(fs, root, name, sfx) IN
  IF r.rc \notin {"ECONF_SUCCESS", "ECONF_NOFILE"} THEN [ok |-> FALSE, fs |-> fs, obj |-> Null, base |-> Null]
  ELSE LET base == IF r.rc = "ECONF_NOFILE" THEN NewObject(61, 35) ELSE r.obj
           text == WriteLines(base)
           pr == ReadResult([p \in {ScratchPath} |-> Edited(text, ed)], ScratchPath, ToolD, ToolC) IN
       IF pr.rc # "ECONF_SUCCESS" \/ (r.rc = "ECONF_SUCCESS" /\ EmptyObj(base)) \/ EmptyObj(pr.obj) THEN [ok |-> FALSE, fs |-> fs, obj |-> Null, base |-> base]
       ELSE [ok |-> TRUE, obj |-> pr.obj, base |-> base,
             fs |-> LET t == TargetOf(root, name, sfx, mode) IN [q \in DOMAIN fs \cup {t} |-> IF q = t THEN WriteLines(pr.obj) ELSE fs[q]]]
RevertResult(fs, root, name, sfx) ==
  LET dd == DropDirOf(root, name, sfx) \o Slash
      gone == {q \in DOMAIN fs : IsPrefixOf(dd, q)} IN
  [fs |-> [q \in DOMAIN fs \ gone |-> fs[q]], gone |-> gone]

\* what `show` prints, as a set: <<section | NoGrp, key, blank-trimmed non-empty value lines>>
ShowLines(v) == LET ls == SplitAt(TrimSp(v), NLc) IN NonEmpty([i \in 1..Len(ls) |-> TrimSp(ls[i])])
ShowTriples(o) == {<<o.ents[i].g, o.ents[i].k, IF o.ents[i].hasv THEN ShowLines(o.ents[i].v) ELSE <<>>>> : i \in 1..Len(o.ents)}
ShowResult(fs, root, name, sfx) == LET r == TreeOf(fs, root, name, sfx) IN
  [ok |-> r.rc = "ECONF_SUCCESS", triples |-> IF r.rc = "ECONF_SUCCESS" THEN ShowTriples(r.obj) ELSE {}]
=============================================================================
