----------------------------- MODULE Trace_Econf -----------------------------
(* Validation of MIXED API histories recorded from the real library against the root
   specification Econf.tla: files written by the harness or by econf_writeFile, objects created,
   read (single file and two-directory layered read), set, merged, written, dumped, freed; the
   error-location record after reads.  Every event carries the call with its arguments and the
   result; `dump` events carry the complete listing of an object, which must be exactly the
   model's.  The first non-conforming event of a history is printed (mismatch record), the rest
   of that history skipped.                                                                   *)
EXTENDS Econf, Json, IOUtils, TLC
Tr == ndJsonDeserialize(IOEnv.TRACE)
VARIABLES l, fs, objs, errloc, diverged
vars == <<l, fs, objs, errloc, diverged>>
Handles == 0..9
NoObjs == [h \in Handles |-> Null]
EmptyFs == [p \in {} |-> <<>>]
\* errloc.valid: the record is only specified after a read that FAILED with a parse error (C13); after a successful
\* read it holds whatever the last scanned line happened to be (an empty file does not even reset the line number)
NoLoc == [file |-> <<>>, line |-> 0, valid |-> FALSE]
Init == l = 1 /\ fs = EmptyFs /\ objs = NoObjs /\ errloc = NoLoc /\ diverged = FALSE
IsEvent(e) == l <= Len(Tr) /\ Tr[l].e = e /\ l' = l + 1
Ev == Tr[l]
Mismatch(what) == PrintT(ToJson([mismatch |-> l, spec |-> what]))
Check(cond, what) == IF diverged \/ cond THEN UNCHANGED diverged ELSE diverged' = TRUE /\ Mismatch(what)
Ok(rc) == rc = "ECONF_SUCCESS"
Live(h) == h # 0 /\ objs[h] # Null
FsPut(f, p, lines) == [q \in DOMAIN f \cup {p} |-> IF q = p THEN lines ELSE f[q]]
NormO(o) == IF o = <<>> THEN <<<<>>>> ELSE o

TReset == IsEvent("reset") /\ fs' = EmptyFs /\ objs' = NoObjs /\ errloc' = NoLoc /\ diverged' = FALSE
TFile == IsEvent("file") /\ fs' = FsPut(fs, Ev.path, Ev.lines) /\ UNCHANGED <<objs, errloc, diverged>>
TNew == /\ IsEvent("new") /\ objs' = [objs EXCEPT ![Ev.h] = NewObject(Ev.d, Ev.c)]
        /\ UNCHANGED <<fs, errloc>> /\ Check(Ok(Ev.rc), [rc |-> "ECONF_SUCCESS"])
TReadFile == /\ IsEvent("readfile")
             /\ LET r == ReadResult(fs, Ev.path, Ev.delim, Ev.comment) IN
                /\ objs' = [objs EXCEPT ![Ev.h] = r.obj]
                /\ errloc' = IF Ev.path \in DOMAIN fs THEN [file |-> Ev.path, line |-> r.errline, valid |-> r.rc # "ECONF_SUCCESS"] ELSE [errloc EXCEPT !.valid = FALSE]
                /\ Check(Ev.rc = r.rc, [rc |-> r.rc])
             /\ UNCHANGED fs
TReadDirs == /\ IsEvent("readdirs")
             /\ LET r == ReadDirsResultOpt(fs, Ev.dirs, Ev.name, Ev.sfx, Ev.delim, Ev.comment, Ev.python, Ev.join) IN
                /\ objs' = [objs EXCEPT ![Ev.h] = r.obj]
                /\ errloc' = IF r.errfile = <<>> THEN [errloc EXCEPT !.valid = FALSE] ELSE [file |-> r.errfile, line |-> r.errline, valid |-> r.rc # "ECONF_SUCCESS"]
                /\ Check(Ev.rc = r.rc, [rc |-> r.rc])
             /\ UNCHANGED fs
TSet == /\ IsEvent("set") /\ UNCHANGED <<fs, errloc>>
        /\ IF ~Live(Ev.h) \/ Ev.k = <<>> \/ Ev.k = <<<<>>>>
           THEN UNCHANGED objs /\ Check(~Ok(Ev.rc), [refused |-> TRUE])
           ELSE /\ objs' = [objs EXCEPT ![Ev.h] = SetE(objs[Ev.h], GroupArg(Ev.g), Ev.k[1], IF Ev.v = <<>> THEN <<>> ELSE Ev.v[1])]
                /\ Check(Ok(Ev.rc), [rc |-> "ECONF_SUCCESS"])
TGet == /\ IsEvent("get") /\ UNCHANGED <<fs, objs, errloc>>
        /\ IF ~Live(Ev.h) \/ Ev.k = <<>> \/ Ev.k = <<<<>>>> THEN Check(~Ok(Ev.rc), [refused |-> TRUE])
           ELSE LET o == objs[Ev.h]  i == FindE(o, GroupArg(Ev.g), Ev.k[1]) IN
                IF i = 0 THEN Check(Ev.rc = "ECONF_NOKEY", [rc |-> "ECONF_NOKEY"])
                ELSE LET w == IF o.ents[i].hasv THEN <<o.ents[i].v>> ELSE <<>> IN
                     Check(Ok(Ev.rc) /\ NormO(Ev.out) = NormO(w), [rc |-> "ECONF_SUCCESS", out |-> w])
TMerge == /\ IsEvent("merge") /\ UNCHANGED <<fs, errloc>>
          /\ IF ~Live(Ev.a) \/ ~Live(Ev.b)
             THEN objs' = [objs EXCEPT ![Ev.h] = Null] /\ Check(~Ok(Ev.rc), [refused |-> TRUE])
             ELSE /\ objs' = [objs EXCEPT ![Ev.h] = MergeObjects(objs[Ev.a], objs[Ev.b])]
                  /\ Check(Ok(Ev.rc), [rc |-> "ECONF_SUCCESS"])
TWrite == /\ IsEvent("write") /\ UNCHANGED <<objs, errloc>>
          /\ IF ~Live(Ev.h) THEN UNCHANGED fs /\ Check(~Ok(Ev.rc), [refused |-> TRUE])
             ELSE /\ fs' = FsPut(fs, Ev.path, WriteLines(objs[Ev.h]))
                  /\ Check(Ok(Ev.rc), [rc |-> "ECONF_SUCCESS"])
TFree == IsEvent("free") /\ objs' = [objs EXCEPT ![Ev.h] = Null] /\ UNCHANGED <<fs, errloc>> /\ Check(Ev.ret_null, [ret_null |-> TRUE])
TDump == /\ IsEvent("dump") /\ UNCHANGED <<fs, objs, errloc>>
         /\ IF ~Live(Ev.h) THEN Check(Ev.isnull, [isnull |-> TRUE])
            ELSE LET full == DumpE(objs[Ev.h])
                     \* comments are compared only on request (they are beyond the properties whose checks use this module)
                     want == IF Ev.cmp_comments THEN full
                             ELSE [full EXCEPT !.ents = [i \in 1..Len(full.ents) |-> [full.ents[i] EXCEPT !.cb = <<>>, !.ca = <<>>]]] IN
                 Check(~Ev.isnull /\ Ev.st = want /\ Ev.path = objs[Ev.h].path, [st |-> want, path |-> objs[Ev.h].path])
TErrLoc == /\ IsEvent("errloc") /\ UNCHANGED <<fs, objs, errloc>>
           /\ Check(errloc.valid => (Ev.file = errloc.file /\ Ev.line = errloc.line), errloc)
Next == TReset \/ TFile \/ TNew \/ TReadFile \/ TReadDirs \/ TSet \/ TGet \/ TMerge \/ TWrite \/ TFree \/ TDump \/ TErrLoc
Spec == Init /\ [][Next]_vars
Accepted == TLCGet("stats").diameter - 1 = Len(Tr)
=============================================================================
