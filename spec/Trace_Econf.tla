----------------------------- MODULE Trace_Econf -----------------------------
(* Validation of MIXED API histories recorded from the real library against the root
   specification Econf.tla: files written by the harness or by econf_writeFile, objects created,
   read (single file and two-directory layered read), set, merged, written, dumped, freed; the
   error-location record after reads.  Every event carries the call with its arguments and the
   result; `dump` events carry the complete listing of an object, which must be exactly the
   model's.  The first non-conforming event of a history is printed (mismatch record), the rest
   of that history skipped.

   Two producers: the harness' mixed histories (vf/p_econf.py) and the REPOSITORY'S OWN TEST PROGRAMS run
   under the trace shim (shim/shim.c, vf/p_suite.py): there every public call of the test is an event,
   the files a read may consult are snapshotted as they are on disk right before the call (`file`,
   `nofile`, `forget`), and after every call that creates or changes an object the shim dumps the object
   through the real getters - so the assertions the tests do not make are made here.
   What the specification does not model (float formatting, restrictions in force, tags set by hand)
   turns the object concerned into Opaque: known to exist, nothing asserted about it until it is
   replaced; a history is never rejected for leaving the modelled fragment.                    *)
EXTENDS Econf, Json, IOUtils, TLC
Tr == ndJsonDeserialize(IOEnv.TRACE)
VARIABLES l, fs, objs, errloc, diverged,
          gposts,      \* process-wide drop-in postfix list (econf_set_conf_dirs); <<>> = default
          sec,         \* TRUE while a process-wide restriction may be in force (not modelled here: Security.tla)
          lw,          \* the last econf_writeFile: [path, known] - the snapshot that follows must show the predicted bytes
          unk,         \* paths written from an Opaque object: they exist, their content is not predicted (until a snapshot shows it)
          wt           \* paths whose content in `fs` is the specification's RENDERING of a written object (no snapshot of the real
                       \* bytes yet) -> the delimiter / comment character it was written with: such a file is only predicted when it
                       \* is read back with the same characters (C07: the configuration survives, the layout is the writer's choice)
vars == <<l, fs, objs, errloc, diverged, gposts, sec, lw, unk, wt>>
Handles == 0..63
Opaque == [opaque |-> TRUE]
NoObjs == [h \in Handles |-> Null]
EmptyFs == [p \in {} |-> <<>>]
\* errloc.valid: the record is only specified after a read that FAILED with a parse error (C13); after a successful
\* read it holds whatever the last scanned line happened to be (an empty file does not even reset the line number)
NoLoc == [file |-> <<>>, line |-> 0, valid |-> FALSE]
NoWrite == [path |-> <<>>, known |-> FALSE, d |-> 0, c |-> 0]
Init == l = 1 /\ fs = EmptyFs /\ objs = NoObjs /\ errloc = NoLoc /\ diverged = FALSE /\ gposts = <<>> /\ sec = FALSE /\ lw = NoWrite /\ unk = {} /\ wt = EmptyFs
Globals == <<gposts, sec, lw, unk, wt>>
IsEvent(e) == l <= Len(Tr) /\ Tr[l].e = e /\ l' = l + 1
Ev == Tr[l]
Mismatch(what) == PrintT(ToJson([mismatch |-> l, spec |-> what]))
Check(cond, what) == IF diverged \/ cond THEN UNCHANGED diverged ELSE diverged' = TRUE /\ Mismatch(what)
Ok(rc) == rc = "ECONF_SUCCESS"
Live(h) == h # 0 /\ objs[h] # Null
Known(h) == Live(h) /\ objs[h] # Opaque
Has(f) == f \in DOMAIN Ev
FsPut(f, p, lines) == [q \in DOMAIN f \cup {p} |-> IF q = p THEN lines ELSE f[q]]
NormO(o) == IF o = <<>> THEN <<<<>>>> ELSE o
FsDrop(f, P) == [q \in DOMAIN f \ P |-> f[q]]

TReset == IsEvent("reset") /\ fs' = EmptyFs /\ objs' = NoObjs /\ errloc' = NoLoc /\ diverged' = FALSE /\ gposts' = <<>> /\ sec' = FALSE /\ lw' = NoWrite /\ unk' = {} /\ wt' = EmptyFs
\* a file as it is on disk; `check`: the snapshot right after an econf_writeFile must READ BACK like what the specification
\* predicted (C07 promises the configuration, not the layout: blank lines, blanks around the delimiter are the writer's choice)
SameConfig(a, b, d, c) == LET pa == ParseFile(a, ParOf(d, c))  pb == ParseFile(b, ParOf(d, c)) IN
                          pa.err = pb.err /\ (pa.err = "ok" => RT(EntsOfParse(pa)) = RT(EntsOfParse(pb)))
TFile == /\ IsEvent("file") /\ fs' = FsPut(fs, Ev.path, Ev.lines) /\ UNCHANGED <<objs, errloc, gposts, sec>> /\ lw' = NoWrite /\ unk' = unk \ {Ev.path}
         /\ wt' = FsDrop(wt, {Ev.path})
         /\ IF Has("check") /\ Ev.check /\ lw.known /\ lw.path = Ev.path
            THEN Check(fs[Ev.path] = Ev.lines \/ SameConfig(fs[Ev.path], Ev.lines, lw.d, lw.c), [written |-> fs[Ev.path]]) ELSE UNCHANGED diverged
TNoFile == IsEvent("nofile") /\ fs' = FsDrop(fs, {Ev.path}) /\ UNCHANGED <<objs, errloc, diverged, Globals>>
TForget == IsEvent("forget") /\ fs' = FsDrop(fs, {q \in DOMAIN fs : IsPrefixOf(Ev.prefix, q)}) /\ UNCHANGED <<objs, errloc, diverged, Globals>>
TNew == /\ IsEvent("new") /\ objs' = [objs EXCEPT ![Ev.h] = NewObject(Ev.d, Ev.c)]
        /\ UNCHANGED <<fs, errloc, Globals>> /\ Check(Ok(Ev.rc), [rc |-> "ECONF_SUCCESS"])
TNewOpt == /\ IsEvent("newopt") /\ UNCHANGED <<fs, errloc, Globals>>
           /\ LET r == OptResult(Ev.items) IN
              /\ objs' = IF Ev.h = 0 THEN objs ELSE [objs EXCEPT ![Ev.h] = r.obj]
              /\ Check(Ev.rc = r.rc, [rc |-> r.rc])
\* while restrictions may be in force, or when the caller's callback refused a file, the outcome of a read is not predicted
Unpredicted == sec \/ (Has("cb") /\ Ev.cb /\ Ev.rc = "ECONF_PARSING_CALLBACK_FAILED")
               \/ (IF Ev.e = "readfile" THEN Ev.path \in unk ELSE unk # {})       \* a file of unknown content may be consulted
               \* a rendered file read with other characters than it was written with: what comes out depends on the layout
               \/ (IF Ev.e = "readfile" THEN Ev.path \in DOMAIN wt /\ wt[Ev.path] # <<Ev.delim, Ev.comment>>
                   ELSE \E q \in DOMAIN wt : wt[q] # <<Ev.delim, Ev.comment>>)
AfterRead(h, obj) == IF h = 0 THEN objs ELSE [objs EXCEPT ![h] = obj]
TReadFile == /\ IsEvent("readfile")
             /\ IF Unpredicted
                THEN objs' = AfterRead(Ev.h, IF Ok(Ev.rc) THEN Opaque ELSE Null) /\ errloc' = [errloc EXCEPT !.valid = FALSE] /\ UNCHANGED diverged
                ELSE LET r == ReadResult(fs, Ev.path, Ev.delim, Ev.comment) IN
                /\ objs' = AfterRead(Ev.h, r.obj)
                /\ errloc' = IF Ev.path \in DOMAIN fs THEN [file |-> Ev.path, line |-> r.errline, valid |-> r.rc # "ECONF_SUCCESS"] ELSE [errloc EXCEPT !.valid = FALSE]
                /\ Check(Ev.rc = r.rc, [rc |-> r.rc])
             /\ UNCHANGED <<fs, Globals>>
TReadDirs == /\ IsEvent("readdirs")
             /\ IF Unpredicted
                THEN objs' = AfterRead(Ev.h, IF Ok(Ev.rc) THEN Opaque ELSE Null) /\ errloc' = [errloc EXCEPT !.valid = FALSE] /\ UNCHANGED diverged
                ELSE LET r == ReadDirsResultC(fs, Ev.dirs, Ev.name, Ev.sfx, Ev.delim, Ev.comment, Ev.python, Ev.join, gposts) IN
                /\ objs' = AfterRead(Ev.h, r.obj)
                /\ errloc' = IF r.errfile = <<>> THEN [errloc EXCEPT !.valid = FALSE] ELSE [file |-> r.errfile, line |-> r.errline, valid |-> r.rc # "ECONF_SUCCESS"]
                /\ Check(Ev.rc = r.rc, [rc |-> r.rc])
             /\ UNCHANGED <<fs, Globals>>
\* econf_readConfig*: hin = the object handed in (0: NULL); on success it is replaced by the result h, on failure it stays
TReadConfig == /\ IsEvent("readconfig") /\ UNCHANGED <<fs, Globals>>
               /\ IF Unpredicted \/ (Ev.hin # 0 /\ ~Known(Ev.hin))
                  THEN /\ objs' = IF Ok(Ev.rc) THEN [[objs EXCEPT ![Ev.hin] = Null] EXCEPT ![Ev.h] = Opaque] ELSE objs
                       /\ errloc' = [errloc EXCEPT !.valid = FALSE] /\ UNCHANGED diverged
                  ELSE LET opt == IF Ev.hin = 0 THEN DefaultOpt ELSE objs[Ev.hin].opt
                           r == ReadConfigResult(fs, opt, Ev.project, Ev.usr, Ev.name, Ev.sfx, Ev.delim, Ev.comment, gposts) IN
                       /\ objs' = IF r.rc = "ECONF_SUCCESS" /\ Ev.h # 0 THEN [[objs EXCEPT ![Ev.hin] = Null] EXCEPT ![Ev.h] = r.obj] ELSE objs
                       /\ errloc' = IF r.errfile = <<>> THEN [errloc EXCEPT !.valid = FALSE] ELSE [file |-> r.errfile, line |-> r.errline, valid |-> r.rc # "ECONF_SUCCESS"]
                       /\ Check(Ev.rc = r.rc, [rc |-> r.rc])
\* history variants: one object per consulted file, in processing order
TReadHist == /\ IsEvent("readhist") /\ UNCHANGED <<fs, Globals>> /\ errloc' = [errloc EXCEPT !.valid = FALSE]
             /\ IF Unpredicted
                THEN objs' = [h \in Handles |-> IF \E j \in 1..Len(Ev.hs) : Ev.hs[j] = h THEN Opaque ELSE objs[h]] /\ UNCHANGED diverged
                ELSE LET r == HistoryResult(fs, Ev.dirs, Ev.name, Ev.sfx, Ev.delim, Ev.comment, gposts) IN
                     /\ objs' = [h \in Handles |-> LET J == {j \in 1..Len(Ev.hs) : Ev.hs[j] = h} IN
                                                     IF J = {} \/ h = 0 THEN objs[h] ELSE IF Max(J) <= Len(r.objs) THEN r.objs[Max(J)] ELSE Opaque]
                     /\ Check(Ev.rc = r.rc /\ Len(Ev.hs) = Len(r.objs), [rc |-> r.rc, n |-> Len(r.objs)])
\* T absent or "String": the text as given; integer types: the canonical decimal text of the value (neg, mag);
\* "Bool": the argument is a spelling, stored as true / false, other texts are refused; floating types: not modelled
SetKind == IF Has("T") THEN Ev.T ELSE "String"
TSet == /\ IsEvent("set") /\ UNCHANGED <<fs, errloc, Globals>>
        /\ IF ~Live(Ev.h) \/ Ev.k = <<>> \/ Ev.k = <<<<>>>>
           THEN UNCHANGED objs /\ Check(~Ok(Ev.rc), [refused |-> TRUE])
           ELSE IF ~Known(Ev.h) THEN UNCHANGED <<objs, diverged>>
           ELSE IF SetKind \in {"Float", "Double"}
           THEN objs' = [objs EXCEPT ![Ev.h] = IF Ok(Ev.rc) THEN Opaque ELSE @] /\ UNCHANGED diverged
           ELSE IF SetKind = "Bool"
           THEN LET w == IF Ev.v = <<>> THEN [rc |-> "err", v |-> FALSE] ELSE BoolMeaning(Ev.v[1]) IN
                IF Ev.v # <<>> /\ Ev.v[1] = <<>> THEN objs' = [objs EXCEPT ![Ev.h] = IF Ok(Ev.rc) THEN Opaque ELSE @] /\ UNCHANGED diverged   \* empty spelling: unspecified
                ELSE IF w.rc = "ok"
                THEN /\ objs' = [objs EXCEPT ![Ev.h] = SetE(objs[Ev.h], GroupArg(Ev.g), Ev.k[1], BoolText(w.v))]
                     /\ Check(Ok(Ev.rc), [rc |-> "ECONF_SUCCESS"])
                ELSE UNCHANGED objs /\ Check(~Ok(Ev.rc), [refused |-> TRUE])
           ELSE /\ objs' = [objs EXCEPT ![Ev.h] = SetE(objs[Ev.h], GroupArg(Ev.g), Ev.k[1],
                                                       IF SetKind \in Types THEN IntText(Ev.neg, Ev.mag) ELSE IF Ev.v = <<>> THEN <<>> ELSE Ev.v[1])]
                /\ Check(Ok(Ev.rc), [rc |-> "ECONF_SUCCESS"])
TGet == /\ IsEvent("get") /\ UNCHANGED <<fs, objs, errloc, Globals>>
        /\ IF ~Live(Ev.h) \/ Ev.k = <<>> \/ Ev.k = <<<<>>>> THEN Check(~Ok(Ev.rc), [refused |-> TRUE])
           ELSE IF ~Known(Ev.h) \/ (Has("isdef") /\ Ev.isdef) THEN UNCHANGED diverged
           ELSE LET o == objs[Ev.h]  i == FindE(o, GroupArg(Ev.g), Ev.k[1]) IN
                IF i = 0 THEN Check(Ev.rc = "ECONF_NOKEY", [rc |-> "ECONF_NOKEY"])
                ELSE IF SetKind = "String"
                THEN LET w == IF o.ents[i].hasv THEN <<o.ents[i].v>> ELSE <<>> IN
                     Check(Ok(Ev.rc) /\ NormO(Ev.out) = NormO(w), [rc |-> "ECONF_SUCCESS", out |-> w])
                ELSE IF SetKind \in Types
                THEN \* C09: a stored text that is an integer literal yields its value or a conversion error, never another number
                     LET p == LitOfText(IF o.ents[i].hasv THEN o.ents[i].v ELSE <<>>) IN
                     IF ~o.ents[i].hasv THEN Check(~Ok(Ev.rc), [refused |-> TRUE])
                     ELSE IF ~p.ok THEN UNCHANGED diverged
                     ELSE LET w == IntMeaning(SetKind, p.lit)
                              \* the returned number written in the base of the literal (mag8 / mag16 from the recorder)
                              got == IF p.lit.base = 8 /\ Has("mag8") THEN Ev.mag8 ELSE IF p.lit.base = 16 /\ Has("mag16") THEN Ev.mag16 ELSE Ev.mag IN
                          Check(Ev.rc = w.rc /\ (Ok(w.rc) => Ev.neg = w.neg /\ Norm(got) = w.mag), w)
                ELSE IF SetKind = "Bool" /\ o.ents[i].hasv
                THEN LET w == BoolMeaning(o.ents[i].v) IN Check(Ok(Ev.rc) = (w.rc = "ok") /\ (w.rc = "ok" => Ev.bool = w.v), w)
                ELSE UNCHANGED diverged
TMerge == /\ IsEvent("merge") /\ UNCHANGED <<fs, errloc, Globals>>
          /\ IF ~Live(Ev.a) \/ ~Live(Ev.b)
             THEN objs' = (IF Ev.h = 0 THEN objs ELSE [objs EXCEPT ![Ev.h] = Null]) /\ Check(~Ok(Ev.rc), [refused |-> TRUE])
             ELSE IF ~Known(Ev.a) \/ ~Known(Ev.b)
             THEN objs' = (IF Ev.h = 0 THEN objs ELSE [objs EXCEPT ![Ev.h] = IF Ok(Ev.rc) THEN Opaque ELSE Null]) /\ UNCHANGED diverged
             ELSE /\ objs' = [objs EXCEPT ![Ev.h] = MergeObjects(objs[Ev.a], objs[Ev.b])]
                  /\ Check(Ok(Ev.rc), [rc |-> "ECONF_SUCCESS"])
WriteInClass(h) == Known(h) /\ objs[h].d # 0 /\ objs[h].c # 0 /\ Unambiguous(objs[h], objs[h].d, objs[h].c)
TWrite == /\ IsEvent("write") /\ UNCHANGED <<objs, errloc, gposts, sec>>
          /\ wt' = IF Live(Ev.h) /\ Ok(Ev.rc) /\ Known(Ev.h) THEN FsPut(wt, Ev.path, <<<<objs[Ev.h].d>>, <<objs[Ev.h].c>>>>) ELSE FsDrop(wt, {Ev.path})
          \* (an object WITHOUT delimiter tag - an option object used as a plain object, a merge based on one - is written with NUL
          \* bytes in the delimiter's place: such a file is outside the conventional grammar, reads of it are not predicted)
          \* ... and an object outside the round-trip class of C07 (5.4) is written SOMEHOW: what reading that file gives
          \* depends on the writer's layout, which no property fixes
          /\ unk' = IF Live(Ev.h) /\ Ok(Ev.rc) /\ (~Known(Ev.h) \/ objs[Ev.h].d = 0 \/ ~WriteInClass(Ev.h)) THEN unk \cup {Ev.path}
                    ELSE IF Known(Ev.h) /\ Ok(Ev.rc) THEN unk \ {Ev.path} ELSE unk
          /\ IF ~Live(Ev.h) THEN UNCHANGED fs /\ lw' = NoWrite /\ Check(~Ok(Ev.rc), [refused |-> TRUE])
             ELSE IF ~Known(Ev.h) THEN fs' = (IF Ok(Ev.rc) THEN FsPut(fs, Ev.path, <<>>) ELSE fs) /\ lw' = NoWrite /\ UNCHANGED diverged
             ELSE IF Has("dir_ok") /\ ~Ev.dir_ok THEN UNCHANGED fs /\ lw' = NoWrite /\ Check(~Ok(Ev.rc), [refused |-> TRUE])     \* no such directory
             ELSE /\ fs' = FsPut(fs, Ev.path, WriteLines(objs[Ev.h])) /\ lw' = [path |-> Ev.path, known |-> WriteInClass(Ev.h), d |-> objs[Ev.h].d, c |-> objs[Ev.h].c]
                  /\ Check(Ok(Ev.rc), [rc |-> "ECONF_SUCCESS"])
TFree == IsEvent("free") /\ objs' = (IF Ev.h = 0 THEN objs ELSE [objs EXCEPT ![Ev.h] = Null]) /\ UNCHANGED <<fs, errloc, Globals>> /\ Check(Ev.ret_null, [ret_null |-> TRUE])
TDump == /\ IsEvent("dump") /\ UNCHANGED <<fs, objs, errloc, Globals>>
         /\ IF ~Live(Ev.h) THEN Check(Ev.isnull, [isnull |-> TRUE])
            ELSE IF ~Known(Ev.h) THEN UNCHANGED diverged
            ELSE LET full == DumpE(objs[Ev.h])
                     \* comments are compared only on request (they are beyond the properties whose checks use this module)
                     want0 == IF Ev.cmp_comments THEN full
                             ELSE [full EXCEPT !.ents = [i \in 1..Len(full.ents) |-> [full.ents[i] EXCEPT !.cb = <<>>, !.ca = <<>>]]]
                     \* objects parsed with an EMPTY delimiter set are lists of keys: their values are not specified (C02)
                     want == IF Has("cmp_values") /\ ~Ev.cmp_values
                             THEN [want0 EXCEPT !.ents = [i \in 1..Len(want0.ents) |-> [want0.ents[i] EXCEPT !.v = <<>>]]] ELSE want0 IN
                 \* tags: the delimiter and comment characters econf_writeFile will use (0 = none: option objects, merges based on them)
                 Check(~Ev.isnull /\ Ev.st = want /\ ((Has("cmp_path") /\ ~Ev.cmp_path) \/ Ev.path = objs[Ev.h].path)
                       /\ (Has("tags") => Ev.tags = <<objs[Ev.h].d, objs[Ev.h].c>>),
                       [st |-> want, path |-> objs[Ev.h].path, tags |-> <<objs[Ev.h].d, objs[Ev.h].c>>])
TErrLoc == /\ IsEvent("errloc") /\ UNCHANGED <<fs, objs, errloc, Globals>>
           /\ Check(errloc.valid => (Ev.file = errloc.file /\ Ev.line = errloc.line), errloc)
\* econf_getExtValue on an entry that stems from a parsed file and is still in an object with that file's path
TExt == /\ IsEvent("ext") /\ UNCHANGED <<fs, objs, errloc, Globals>>
        /\ IF ~Known(Ev.h) \/ Ev.k = <<>> THEN UNCHANGED diverged
           \* (like the key listing, the extended getter takes the section name literally: "[A]" is not "A")
           ELSE LET o == objs[Ev.h]  i == FindE(o, IF Ev.g = <<>> THEN NoGrp ELSE Ev.g[1], Ev.k[1]) IN
                IF i = 0 THEN Check(~Ok(Ev.rc), [rc |-> "ECONF_NOKEY"])
                ELSE IF o.path = <<>> \/ o.ents[i].line = 0 THEN UNCHANGED diverged      \* merged / built: not a parsed file's entry
                ELSE LET w == ExtOf(o, i) IN
                     \* (cmp_layout = FALSE: the entry stems from a file that econf_writeFile produced - line numbers there
                     \* depend on the writer's layout, which no property fixes)
                     Check(Ok(Ev.rc) /\ ((Has("cmp_layout") /\ ~Ev.cmp_layout) \/ Ev.line = w.line) /\ Ev.vals = w.vals
                           /\ (o.opt.join \/ (Ev.cb = w.cb /\ Ev.ca = w.ca))
                           /\ ((Has("cmp_path") /\ ~Ev.cmp_path) \/ Ev.file = w.file), w)
\* listings (C11): sections in order of first appearance, keys of one section in entry order; an absent / empty section: ECONF_NOKEY
TKeys == /\ IsEvent("keys") /\ UNCHANGED <<fs, objs, errloc, Globals>>
         /\ IF ~Known(Ev.h) THEN UNCHANGED diverged
            \* the key listing takes the section name literally ("[A]" is not "A": KeyFile!NormGK); NULL and "" mean group-less
            \* a key that a parsed file defines twice is listed twice (one item per entry, KeyFile!KeysIn)
            ELSE LET ks == KeysE(objs[Ev.h], IF Ev.g = <<>> THEN NoGrp ELSE Ev.g[1]) IN
                 IF ks = <<>> THEN Check(~Ok(Ev.rc), [rc |-> "ECONF_NOKEY"]) ELSE Check(Ok(Ev.rc) /\ Ev.out = ks, [out |-> ks])
TGroups == /\ IsEvent("groups") /\ UNCHANGED <<fs, objs, errloc, Globals>>
           /\ IF ~Known(Ev.h) THEN UNCHANGED diverged
              ELSE LET gs == objs[Ev.h].secs IN
                   \* no section: refused (ECONF_NOGROUP) or an empty list - the library does either, depending on whether
                   \* the object has group-less keys
                   IF gs = <<>> THEN Check(~Ok(Ev.rc) \/ Ev.out = <<>>, [rc |-> "ECONF_NOGROUP"]) ELSE Check(Ok(Ev.rc) /\ Ev.out = gs, [out |-> gs])
\* econf_set_delimiter_tag / econf_set_comment_tag: what econf_writeFile will use
TSetTag == /\ IsEvent("settag") /\ UNCHANGED <<fs, errloc, diverged, Globals>>
           /\ objs' = IF Known(Ev.h) THEN [objs EXCEPT ![Ev.h] = IF Ev.which = "d" THEN [@ EXCEPT !.d = Ev.tag] ELSE [@ EXCEPT !.c = Ev.tag]] ELSE objs
TSetConfDirs == IsEvent("setconfdirs") /\ gposts' = Ev.dirs /\ UNCHANGED <<fs, objs, errloc, diverged, sec, lw, unk, wt>>
TSecFlag == IsEvent("secflag") /\ sec' = TRUE /\ UNCHANGED <<fs, objs, errloc, diverged, gposts, lw, unk, wt>>
TSecReset == IsEvent("secreset") /\ sec' = FALSE /\ UNCHANGED <<fs, objs, errloc, diverged, gposts, lw, unk, wt>>
\* a call that is outside the modelled fragment: h (if any) is not predicted any more
\* a call with a missing out-pointer / delimiter set must be refused and changes nothing
TRefused == IsEvent("refused") /\ UNCHANGED <<fs, objs, errloc, Globals>> /\ Check(~Ok(Ev.rc), [refused |-> TRUE])
\* a read of bytes outside the conventional grammar (NUL bytes): whether it succeeds is C04's business, not predicted here
TReadOpaque == IsEvent("readopaque") /\ objs' = AfterRead(Ev.h, IF Ok(Ev.rc) THEN Opaque ELSE Null) /\ errloc' = [errloc EXCEPT !.valid = FALSE]
               /\ UNCHANGED <<fs, diverged, Globals>>
TOpaque == IsEvent("opaque") /\ objs' = (IF Ev.h # 0 /\ Live(Ev.h) THEN [objs EXCEPT ![Ev.h] = Opaque] ELSE objs) /\ UNCHANGED <<fs, errloc, diverged, Globals>>
Next == TReset \/ TFile \/ TNoFile \/ TForget \/ TNew \/ TNewOpt \/ TReadFile \/ TReadDirs \/ TReadConfig \/ TReadHist \/ TSet \/ TGet
        \/ TMerge \/ TWrite \/ TFree \/ TDump \/ TErrLoc \/ TKeys \/ TGroups \/ TSetTag \/ TSetConfDirs \/ TSecFlag \/ TSecReset \/ TOpaque \/ TRefused \/ TReadOpaque \/ TExt
Spec == Init /\ [][Next]_vars
Accepted == TLCGet("stats").diameter - 1 = Len(Tr)
=============================================================================
