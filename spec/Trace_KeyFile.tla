--------------------------- MODULE Trace_KeyFile ---------------------------
(* Backward conformance for the object API (C10, C11): a recorded history of public calls on
   up to a few handles is replayed against KeyFile.tla.  Every event carries the call, its
   arguments, the return code by name and the out-value; "dump" events carry the complete
   listing of an object.  Setters change exactly one entry; every other call is a QUERY and must
   leave every object unchanged (C10) - which the dump events after each query make observable.
   Observation equivalences (not alarms): ECONF_NOGROUP = success with zero sections; ECONF_NOKEY
   from a key listing = zero keys; a NULL value and "" are one observation.                 *)
EXTENDS KeyFile, Parser, Json, IOUtils, TLC
Tr == ndJsonDeserialize(IOEnv.TRACE)
VARIABLES l, objs, fps, diverged
vars == <<l, objs, fps, diverged>>
Handles == 0..9
NullObj == [null |-> TRUE]
Live(h) == h \in DOMAIN objs /\ h # 0 /\ objs[h] # NullObj

NoFp == [h \in Handles |-> "?"]      \* fingerprint of the FULL dump (ext values, comments, written bytes) per handle
Init == l = 1 /\ objs = [h \in Handles |-> NullObj] /\ fps = NoFp /\ diverged = FALSE
IsEvent(e) == l <= Len(Tr) /\ Tr[l].e = e /\ l' = l + 1
Ev == Tr[l]
Mismatch(what) == PrintT(ToJson([mismatch |-> l, spec |-> what]))
Ok(rc) == rc = "ECONF_SUCCESS"
NormOut(o) == IF o = <<>> THEN <<<<>>>> ELSE o            \* NULL and "" are one observation
Check(cond, what) == IF diverged \/ cond THEN UNCHANGED diverged ELSE diverged' = TRUE /\ Mismatch(what)

TReset == IsEvent("reset") /\ objs' = [h \in Handles |-> NullObj] /\ fps' = NoFp /\ diverged' = FALSE

TNew == /\ IsEvent("new")
        /\ objs' = [objs EXCEPT ![Ev.h] = NewObj] /\ fps' = [fps EXCEPT ![Ev.h] = "?"]
        /\ Check(Ok(Ev.rc), [rc |-> "ECONF_SUCCESS"])
TRead == /\ IsEvent("read")                  \* object obtained by parsing a conventional file
         /\ LET st == ParseFile(Ev.lines, [delim |-> Ev.delim, comment |-> Ev.comment, python |-> FALSE, join |-> FALSE]) IN
            /\ objs' = [objs EXCEPT ![Ev.h] = ObjOfParse(st)] /\ fps' = [fps EXCEPT ![Ev.h] = "?"]
            /\ Check(Ok(Ev.rc) /\ st.err = "ok", [rc |-> st.err])
TFree == IsEvent("free") /\ objs' = [objs EXCEPT ![Ev.h] = NullObj] /\ fps' = [fps EXCEPT ![Ev.h] = "?"] /\ Check(Ev.ret_null, [ret_null |-> TRUE])

\* set <T>: text is the canonical text the typed setter stores (computed by the harness for the
\* numeric types from the value it passed; checked here for String/Bool)
TSet == /\ IsEvent("set")
        /\ LET h == Ev.h
               refused == ~Live(h) \/ ~KeyOk(Ev.k) \/ (Ev.T = "Bool" /\ (Ev.v = <<>> \/ ~BoolWordOk(Ev.v[1])))
               text == IF Ev.T = "Bool" THEN BoolText(Ev.v[1]) ELSE IF Ev.v = <<>> THEN <<>> ELSE Ev.v[1] IN
           IF refused
           THEN UNCHANGED <<objs, fps>> /\ Check(~Ok(Ev.rc), [refused |-> TRUE])
           ELSE /\ objs' = [objs EXCEPT ![h] = SetText(objs[h], NormGV(Ev.g), Ev.k[1], text)]
                /\ fps' = [fps EXCEPT ![h] = "?"]
                /\ Check(Ok(Ev.rc), [rc |-> "ECONF_SUCCESS"])

\* get String / getdef String
TGet == /\ IsEvent("get") /\ UNCHANGED <<objs, fps>>
        /\ LET h == Ev.h IN
           IF ~Live(h) \/ ~KeyOk(Ev.k) THEN Check(~Ok(Ev.rc), [refused |-> TRUE])
           ELSE LET o == objs[h]  i == Find(o, NormGV(Ev.g), Ev.k[1]) IN
                IF Ev.T # "String"      \* typed interpretation is C09's business: here only "no effect, documented code"
                THEN Check(IF i = 0 THEN Ev.rc = "ECONF_NOKEY" /\ (Ev.isdef => Ev.outs = Ev.defs) ELSE TRUE,
                           [rc |-> "ECONF_NOKEY", out |-> IF Ev.isdef THEN Ev.defs ELSE "-"])
                ELSE IF i = 0
                THEN Check(Ev.rc = "ECONF_NOKEY" /\ (Ev.isdef => NormOut(Ev.out) = NormOut(Ev.def)), [rc |-> "ECONF_NOKEY", out |-> Ev.def])
                ELSE Check(Ok(Ev.rc) /\ NormOut(Ev.out) = NormOut(ValueAt(o, i)), [rc |-> "ECONF_SUCCESS", out |-> ValueAt(o, i)])

TKeys == /\ IsEvent("keys") /\ UNCHANGED <<objs, fps>>
         /\ IF ~Live(Ev.h) THEN Check(~Ok(Ev.rc), [refused |-> TRUE])
            ELSE LET ks == KeysIn(objs[Ev.h], NormGK(Ev.g)) IN
                 Check(IF ks = <<>> THEN (Ev.rc = "ECONF_NOKEY" \/ (Ok(Ev.rc) /\ Ev.out = <<>>)) ELSE Ok(Ev.rc) /\ Ev.out = ks, [out |-> ks])
TGroups == /\ IsEvent("groups") /\ UNCHANGED <<objs, fps>>
           /\ IF ~Live(Ev.h) THEN Check(~Ok(Ev.rc), [refused |-> TRUE])
              ELSE LET gs == Sections(objs[Ev.h]) IN
                   Check(IF gs = <<>> THEN (Ev.rc = "ECONF_NOGROUP" \/ (Ok(Ev.rc) /\ Ev.out = <<>>)) ELSE Ok(Ev.rc) /\ Ev.out = gs, [out |-> gs])
\* any other read-only call (ext getter, path, tags, write, merge as input, errstring ...): no effect
TQuery == IsEvent("query") /\ UNCHANGED <<objs, fps, diverged>>
\* a merge result is a new object whose content is Merge's business; it is adopted from its dump
TAdopt == /\ IsEvent("adopt")
          /\ objs' = [objs EXCEPT ![Ev.h] = [ents |-> [i \in 1..Len(Ev.st.ents) |-> KEnt(Ev.st.ents[i].g, Ev.st.ents[i].k, Ev.st.ents[i].v, TRUE)],
                                             secs |-> Ev.st.groups]]
          /\ fps' = [fps EXCEPT ![Ev.h] = "?"] /\ UNCHANGED diverged
\* full listing of an object: must be exactly the model's
\* ... and its full fingerprint must not have moved since the last dump unless a setter ran (C10)
TDump == /\ IsEvent("dump") /\ UNCHANGED objs
         /\ IF ~Live(Ev.h) THEN UNCHANGED fps /\ Check(Ev.isnull, [isnull |-> TRUE])
            ELSE /\ fps' = [fps EXCEPT ![Ev.h] = IF @ = "?" \/ diverged THEN Ev.fp ELSE @]
                 /\ Check(~Ev.isnull /\ Ev.st = Dump(objs[Ev.h]) /\ (fps[Ev.h] = "?" \/ fps[Ev.h] = Ev.fp),
                          [st |-> Dump(objs[Ev.h]), fp |-> fps[Ev.h]])

Next == TReset \/ TNew \/ TRead \/ TFree \/ TSet \/ TGet \/ TKeys \/ TGroups \/ TQuery \/ TAdopt \/ TDump
Spec == Init /\ [][Next]_vars
Accepted == TLCGet("stats").diameter - 1 = Len(Tr)
=============================================================================
