---------------------------- MODULE Trace_Layers ----------------------------
(* Backward conformance for layered reads with a check callback (C06; also used by C16/C20):
   one recorded call = Begin(tree, faults), Callback(file, verdict, data pointer intact)*,
   End(code, out-pointer, result | history).  The trace specification steps the multi-step
   machine of MC_Callback: a Callback event is accepted only for the NEXT consulted file with
   the verdict the scenario prescribes; End only where the machine can end, with the code,
   object and content that Layers!Read defines.  The first non-conforming event of a call is
   printed (mismatch record) and the rest of that call skipped.                             *)
EXTENDS Security, Json, IOUtils, TLC
Tr == ndJsonDeserialize(IOEnv.TRACE)
VARIABLES l, tree, faults, pos, failed, diverged
vars == <<l, tree, faults, pos, failed, diverged>>

NoTree == [main |-> <<>>, drop |-> <<>>, mshape |-> "both", dshape |-> "both", pd |-> <<>>]
Init == l = 1 /\ tree = NoTree /\ faults = NoFaults(NoTree) /\ pos = 0 /\ failed = FALSE /\ diverged = FALSE
IsEvent(e) == l <= Len(Tr) /\ Tr[l].e = e /\ l' = l + 1
ShapeName(c) == CASE c = "b" -> "both" [] c = "n" -> "nogroup" [] OTHER -> "section"
Seq2Set(s) == {s[i] : i \in 1..Len(s)}

TBegin == /\ IsEvent("begin")
          /\ LET t == [main |-> Tr[l].main, drop |-> [i \in 1..Len(Tr[l].drop) |-> Seq2Set(Tr[l].drop[i])],
                       mshape |-> MShape(Tr[l].shp), dshape |-> DShape(Tr[l].shp),
                       \* drop-in directory (1 or 2, CONFIG_DIRS / econf_set_conf_dirs lists) of every name per layer
                       pd |-> IF "pd" \in DOMAIN Tr[l] THEN Tr[l].pd ELSE [i \in 1..Len(Tr[l].main) |-> [n \in 1..NNames |-> 1]]]
                 fl == Tr[l].faults IN          \* list of [f, x]
             /\ tree' = t
             \* explicit faults (callback verdicts, malformed content) + restrictions: the violations are
             \* computed HERE from the logged file attributes and the flags in force (Security!Violations)
             /\ LET al == Tr[l].attrs
                    at == [f \in AllFiles(t) |->
                             LET hit == {i \in 1..Len(al) : al[i].f = <<f.l, f.r>>} IN
                             IF hit = {} THEN [own |-> "ok", grp |-> "ok", link |-> FALSE, perm |-> "ok", dperm |-> "ok"]
                             ELSE LET a == al[CHOOSE i \in hit : TRUE] IN
                                  [own |-> a.own, grp |-> a.grp, link |-> a.link, perm |-> IF "perm" \in DOMAIN a THEN a.perm ELSE "ok",
                                   dperm |-> IF "dperm" \in DOMAIN a THEN a.dperm ELSE "ok"]]
                    \* the settings in force are not told by the harness: they are the result of the recorded setter CALLS
                    \* (in call order, since the last reset) folded by Security!ApplySetters
                    sec == FaultsOf(t, at, ApplySetters(NoFlags, Tr[l].setters)) IN
                faults' = [f \in AllFiles(t) |->
                             LET hit == {i \in 1..Len(fl) : fl[i].f = <<f.l, f.r>>} IN
                             (IF hit = {} THEN {} ELSE Seq2Set(fl[CHOOSE i \in hit : TRUE].x)) \cup sec[f]]
          /\ pos' = 0 /\ failed' = FALSE /\ diverged' = FALSE

K == Consulted(tree)
Mismatch(what) == PrintT(ToJson([mismatch |-> l, spec |-> what]))

TCallback == /\ IsEvent("callback")
             /\ UNCHANGED <<tree, faults>>
             /\ IF diverged THEN UNCHANGED <<pos, failed, diverged>>
                ELSE IF failed \/ pos >= Len(K)
                THEN diverged' = TRUE /\ UNCHANGED <<pos, failed>> /\ Mismatch([no_callback_expected |-> TRUE])
                ELSE LET f == K[pos + 1]  x == faults[f]  v == ("reject" \notin x) IN
                     IF RefusedBeforeCallback(x)     \* refused by a restriction before the callback is asked
                     THEN diverged' = TRUE /\ UNCHANGED <<pos, failed>> /\ Mismatch([refused_before_callback |-> <<f.l, f.r>>])
                     ELSE IF Tr[l].f = <<f.l, f.r>> /\ Tr[l].verdict = v /\ Tr[l].data_ok
                     THEN pos' = pos + 1 /\ failed' = ~v /\ UNCHANGED diverged
                     ELSE diverged' = TRUE /\ UNCHANGED <<pos, failed>> /\ Mismatch([next_file |-> <<f.l, f.r>>, verdict |-> v])

Want == Read(tree, faults)
EntSet(c) == {Ent(p[1], p[2], MapOf(c)[p]) : p \in DOMAIN MapOf(c)}
TEnd == /\ IsEvent("end")
        /\ UNCHANGED <<tree, faults, pos, failed>>
        /\ IF diverged THEN UNCHANGED diverged
           ELSE LET w == Want    \* heap_ok (C20): after the caller released every valid handle nothing stays allocated
                    okpos == ~Tr[l].cbused \/ Len(w.log) = pos     \* every expected callback happened (callback entry points)
                    okrc  == Tr[l].rc \in w.rcs
                    okobj == (IF w.rc = "ECONF_SUCCESS" THEN Tr[l].has_obj ELSE ~Tr[l].has_obj) /\ Tr[l].heap_ok
                             \* fds_ok (C18 / C20): descriptors the caller's callback opened during the read are still open afterwards
                             /\ ("fds_ok" \in DOMAIN Tr[l] => Tr[l].fds_ok)
                    okcfg == \/ w.rc # "ECONF_SUCCESS"
                             \/ Tr[l].kind = "cfg" /\ Seq2Set(Tr[l].ents) = EntSet(w.cfg)
                             \* C06 proper: what is visible stems from files the callback accepted (used for
                             \* the trees of known finding F4, where the merged content itself is C01's business)
                             \/ Tr[l].kind = "visible" /\ \A e \in Seq2Set(Tr[l].ents) :
                                    \E j \in 1..Len(w.log) : \E i \in 1..Len(Content(tree, w.log[j])) : Content(tree, w.log[j])[i] = e
                             \/ Tr[l].kind = "hist" /\ Tr[l].hist = [j \in 1..Len(w.hist) |->
                                    [f |-> <<w.hist[j].l, w.hist[j].r>>, obs |-> ObsOf(Content(tree, w.hist[j]))]]
                IN IF okpos /\ okrc /\ okobj /\ okcfg THEN UNCHANGED diverged
                   ELSE diverged' = TRUE /\ Mismatch([rc |-> w.rc, callbacks |-> Len(w.log), ents |-> ObsOf(w.cfg).ents])
\* C12 under a non-default drop-in directory list: the history as delivered (file name + own content per member)
\* folded left to right, skipping a member when a later one has the same name, must reproduce every merged result
NameMasked(h, j) == \E j2 \in (j+1)..Len(h) : h[j2].name = h[j].name
THistFold == /\ IsEvent("histfold")
             /\ UNCHANGED <<tree, faults, pos, failed>>
             /\ LET h == Tr[l].hist
                    idx == SelectSeq([j \in 1..Len(h) |-> j], LAMBDA j : ~NameMasked(h, j))
                    folded == IF idx = <<>> THEN <<>> ELSE FoldMerge([n \in 1..Len(idx) |-> h[idx[n]].ents])
                    ok == \A i \in 1..Len(Tr[l].results) : Seq2Set(Tr[l].results[i]) = EntSet(folded) IN
                IF ok /\ Tr[l].hist2_same THEN UNCHANGED diverged
                ELSE diverged' = diverged /\ Mismatch([folded |-> ObsOf(folded).ents])
Next == TBegin \/ TCallback \/ TEnd \/ THistFold
Spec == Init /\ [][Next]_vars
Accepted == TLCGet("stats").diameter - 1 = Len(Tr)
=============================================================================
