-------------------------- MODULE Trace_Lifecycle --------------------------
(* C20: one event per scenario run by the driver: the call, whether it succeeded, how the
   out-pointer was initialised, what it was afterwards, the heap delta after the caller released
   every valid handle (AddressSanitizer's allocator accounting, second run of the scenario), and
   whether the free functions returned NULL.                                                  *)
EXTENDS LifeContract, Json, IOUtils, TLC
Tr == ndJsonDeserialize(IOEnv.TRACE)
VARIABLE l
Ev == Tr[l]
TInit == l = 1
TScenario == /\ l <= Len(Tr) /\ l' = l + 1
             /\ IF /\ Ev.outptr \in OutPtrAllowed(Ev.call, Ev.ok, Ev.init)
                   /\ Ev.heap_delta = 0 /\ Ev.free_null_ok
                THEN TRUE
                ELSE PrintT(ToJson([mismatch |-> l, spec |-> [outptr |-> OutPtrAllowed(Ev.call, Ev.ok, Ev.init), heap_delta |-> 0]]))
TSpec == TInit /\ [][TScenario]_l
Accepted == TLCGet("stats").diameter - 1 = Len(Tr)
=============================================================================
