---------------------------- MODULE Trace_Merge ----------------------------
(* Backward conformance for econf_mergeFiles: every recorded call (both inputs as built through
   the public API, the observable of the result and of both inputs after the call) must be a
   behaviour of the specification: result = MergeRef = observable of MergeImpl, inputs unchanged. *)
EXTENDS Merge, Json, IOUtils, TLC
Tr == ndJsonDeserialize(IOEnv.TRACE)
VARIABLES l
Init == l = 1
TMerge == /\ l <= Len(Tr) /\ Tr[l].e = "merge" /\ l' = l + 1
          /\ LET b == Tr[l].b  o == Tr[l].o  want == MergeRef(b, o) IN
             IF /\ DupFree(b) /\ DupFree(o)
                /\ want = ObsOf(MergeImpl(b, o))
                /\ Tr[l].rc = "ECONF_SUCCESS" /\ Tr[l].obs = want
                /\ Tr[l].b_after = ObsOf(b) /\ Tr[l].o_after = ObsOf(o)
             THEN TRUE ELSE PrintT(ToJson([mismatch |-> l, spec |-> want]))
Next == TMerge
Spec == Init /\ [][Next]_l
Accepted == TLCGet("stats").diameter - 1 = Len(Tr)
=============================================================================
