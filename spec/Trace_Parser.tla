---------------------------- MODULE Trace_Parser ----------------------------
(* Backward conformance for the line parser: a recorded trace of the REAL library reading
   random conventional files prefix by prefix (one event per physical line, carrying the full
   observation of the prefix) is consumed event by event.  For every line
     - the abstract line must render to the bytes that were fed to the library and satisfy
       the grammar's side conditions, and the two sides of the specification (operational
       PStep, declarative MStep) must agree on it   -- otherwise GenBug (tool failure, exit 2);
     - the observation logged by the library must equal the specification's; the first event of
       a file that does not is printed (MISMATCH record) and the rest of that file is skipped,
       so that one run reports every diverging file.  The trace is accepted iff all events were
       consumed (POSTCONDITION) and no mismatch was printed.                                 *)
EXTENDS Grammar, Json, IOUtils, TLC
Tr == ndJsonDeserialize(IOEnv.TRACE)
VARIABLES l, st, m, par, prev, genbug, diverged
vars == <<l, st, m, par, prev, genbug, diverged>>

NoPar == [delim |-> <<>>, comment |-> <<35>>, python |-> FALSE, join |-> FALSE]
NoLine == [t |-> "none"]
Init == l = 1 /\ st = PInit /\ m = MInit /\ par = NoPar /\ prev = NoLine /\ genbug = FALSE /\ diverged = FALSE

IsEvent(e) == l <= Len(Tr) /\ Tr[l].e = e /\ l' = l + 1

TReset == /\ IsEvent("reset")
          /\ st' = PInit /\ m' = MInit /\ prev' = NoLine /\ diverged' = FALSE /\ UNCHANGED genbug
          /\ par' = [delim |-> Tr[l].delim, comment |-> Tr[l].comment, python |-> Tr[l].python, join |-> Tr[l].join]

ContOk(a) == a.t = "cont" => prev.t = "cont" \/ (prev.t = "entry" /\ ~prev.q)
BadPos(a) == a.t = "bad" /\ a.key = "ECONF_MISSING_DELIMITER" => prev.t \notin {"entry", "cont"}

\* a crash of the library while reading a prefix: nothing to compare, reported by the harness
TCrash == IsEvent("crash") /\ diverged' = TRUE /\ UNCHANGED <<st, m, par, prev, genbug>>

TLine == /\ IsEvent("line")
         /\ LET a == Tr[l].abs  raw == Tr[l].raw
                st2 == PStep(st, raw, par)
                m2  == MStep(m, a, par)
                specObs == ObsCmp(Obs(PFinish(st2, par)), par)
                consistent == /\ Render1(a) = raw
                              /\ (m.err = "ok" => AbsOk(a, par) /\ ContOk(a) /\ BadPos(a))
                              /\ specObs = ObsCmp(MObs(m2, par), par)
            IN /\ st' = st2 /\ m' = m2 /\ prev' = a /\ UNCHANGED par
               /\ IF diverged THEN UNCHANGED <<genbug, diverged>>      \* rest of a file after its first mismatch
                  ELSE IF ~consistent THEN genbug' = TRUE /\ diverged' = TRUE /\ PrintT(ToJson([genbug |-> l]))
                  ELSE /\ genbug' = genbug
                       /\ IF ObsCmp(Tr[l].obs, par) = specObs THEN diverged' = FALSE
                          ELSE diverged' = TRUE /\ PrintT(ToJson([mismatch |-> l, spec |-> specObs]))

Next == TReset \/ TLine \/ TCrash
Spec == Init /\ [][Next]_vars
NoGenBug == ~genbug
Accepted == TLCGet("stats").diameter - 1 = Len(Tr)
=============================================================================
