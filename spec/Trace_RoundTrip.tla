-------------------------- MODULE Trace_RoundTrip --------------------------
(* Backward conformance for C07.  One event = one object written and read back by the real
   library:
     src = "hist":  the object was built by the listed setter calls
     src = "file":  the object was obtained by reading the listed physical lines
   together with the delimiter / comment character, the physical lines econf_writeFile produced,
   and the round-trip observable of the object before writing and after reading back.
   The specification rebuilds the object itself; if it is in the unambiguous class (5.4) then
     - the observable before writing is the model's,
     - the WRITTEN BYTES, parsed by the specification's own parser, give the same observable
       (so a writer and a reader that are wrong in a compensating way do not pass),
     - the observable after reading back is the same.
   Objects outside the class are skipped (counted by the harness).                          *)
EXTENDS Writer, Json, IOUtils, TLC
Tr == ndJsonDeserialize(IOEnv.TRACE)
VARIABLE l
Ev == Tr[l]
RECURSIVE FoldSets(_, _)
SetW(es, g, k, v0) ==
  LET I == {i \in 1..Len(es) : es[i].g = g /\ es[i].k = k} IN
  IF I = {} THEN Append(es, WEnt(g, k, v0, TRUE, FALSE, None, None))
  ELSE [es EXCEPT ![MinOf(I)].v = v0, ![MinOf(I)].hasv = TRUE]
FoldSets(es, h) == IF h = <<>> THEN es ELSE FoldSets(SetW(es, h[1].g, h[1].k, h[1].v), Tail(h))
ObjOf(ev) == IF ev.src = "hist" THEN FoldSets(<<>>, ev.hist)
             ELSE EntsOfParse(ParseFile(ev.lines_in, ParOf(ev.d, ev.c)))
TEvent == /\ l <= Len(Tr) /\ l' = l + 1
          /\ LET es == ObjOf(Ev)  o == [ents |-> es] IN
             IF ~Unambiguous(o, Ev.d, Ev.c) THEN PrintT(ToJson([skipped |-> l]))
             ELSE LET want == RT(es)
                      st == ParseFile(Ev.lines_written, ParOf(Ev.d, Ev.c)) IN
                  IF /\ Ev.rt_before = want
                     /\ st.err = "ok" /\ RT(EntsOfParse(st)) = want
                     /\ Ev.rc_read = "ECONF_SUCCESS" /\ Ev.rt_after = want
                  THEN TRUE
                  ELSE PrintT(ToJson([mismatch |-> l, spec |-> want,
                                      written_parsed |-> IF st.err = "ok" THEN RT(EntsOfParse(st)) ELSE [groups |-> <<>>, ents |-> <<>>]]))
Init == l = 1
Spec == Init /\ [][TEvent]_l
Accepted == TLCGet("stats").diameter - 1 = Len(Tr)
=============================================================================
