---------------------------- MODULE Trace_Typed ----------------------------
(* Backward conformance for the typed getters/setters (C09, C08).  Events recorded from the real
   library:
     int        one integer getter applied to a stored literal (random sign/base/1..25 digits):
                must be IntMeaning - the value when representable, a conversion error otherwise
     novalue    a typed getter applied to a key without value: numeric getters answer with an error
     bool       the boolean getter applied to a stored text: BoolMeaning
     boolsweep  the set of ALL strings up to a length over an alphabet that the boolean getter
                accepts, with results: must be exactly the legal spellings within that alphabet
     sweep      summary of a typed set/get (or set/write/read/get) sweep: no mismatch, right count  *)
EXTENDS Typed, Json, IOUtils, TLC
Tr == ndJsonDeserialize(IOEnv.TRACE)
VARIABLES l
Ev == Tr[l]
Mismatch(what) == PrintT(ToJson([mismatch |-> l, spec |-> what]))
Chk(c, what) == IF c THEN TRUE ELSE Mismatch(what)
Seq2Set(s) == {s[i] : i \in 1..Len(s)}
Numeric == Types \cup {"Float", "Double"}

TInt == /\ Ev.e = "int"
        /\ LET lit == [sign |-> Ev.sign, base |-> Ev.base, digits |-> Ev.digits]  w == IntMeaning(Ev.T, lit) IN
           IF ~LitOk(lit) THEN Mismatch([generator_bug |-> TRUE])
           ELSE Chk(Ev.rc = w.rc /\ (w.rc = "ECONF_SUCCESS" => Ev.neg = w.neg /\ Norm(Ev.mag) = w.mag), w)
TNoValue == Ev.e = "novalue" /\ Chk(Ev.T \in Numeric => Ev.rc # "ECONF_SUCCESS", [rc |-> "an error code"])
TBool == /\ Ev.e = "bool"
         \* (assigned: on success the caller's variable was written - it held neither true nor false before the call)
         /\ LET w == BoolMeaning(Ev.text) IN Chk((Ev.rc = "ECONF_SUCCESS") = (w.rc = "ok") /\ (w.rc = "ok" => Ev.v = w.v /\ Ev.assigned), w)
TBoolSweep == /\ Ev.e = "boolsweep"
              /\ LET legal == {s \in LegalBool : Len(s) <= Ev.maxlen /\ \A i \in 1..Len(s) : InStr(s[i], Ev.alphabet)}
                     want == {[s |-> s, v |-> BoolMeaning(s).v] : s \in legal} IN
                 Chk(Seq2Set(Ev.accepted) = want /\ Ev.count_ok, [accepted |-> Cardinality(want)])
TSweep == Ev.e = "sweep" /\ Chk(Ev.bad = 0 /\ Ev.count_ok, [bad |-> 0])
Init == l = 1
Next == l <= Len(Tr) /\ l' = l + 1 /\ (TInt \/ TNoValue \/ TBool \/ TBoolSweep \/ TSweep)
Spec == Init /\ [][Next]_l
Accepted == TLCGet("stats").diameter - 1 = Len(Tr)
=============================================================================
