------------------------------- MODULE Typed -------------------------------
(* Typed interpretation of stored text (lib/keyfile.c get<T>ValueNum, set<T>ValueNum).

   TLC integers are 32-bit, so integer literals are DIGIT SEQUENCES and every comparison with a
   type limit is done digit-wise; the limits 2^31, 2^32, 2^63, 2^64 are tied to the doubling
   relation in the literal's base by ASSUMEs that TLC evaluates - no constant is trusted.

   lit = [sign, base, digits]    sign \in {"", "+", "-"}, base \in {8, 10, 16}, digits most
   significant first (values 0..base-1).  Text = sign ++ prefix ++ digits, prefix "" / "0" / "0x".  *)
EXTENDS Chars

\* ---------- digit arithmetic ----------
RECURSIVE StripZeros(_)
StripZeros(d) == IF Len(d) > 1 /\ d[1] = 0 THEN StripZeros(Tail(d)) ELSE d
Norm(d) == IF d = <<>> THEN <<0>> ELSE StripZeros(d)
\* d * 2 in an EVEN base b: the carry out of a position is 1 iff its digit is >= b/2, whatever
\* comes in (2d is even, b is even), so doubling needs no recursion
Double(d, b) ==
  LET h == b \div 2
      body == [i \in 1..Len(d) |-> (2 * d[i] + (IF i < Len(d) /\ d[i+1] >= h THEN 1 ELSE 0)) % b] IN
  IF d[1] >= h THEN <<1>> \o body ELSE body
\* 2^n, n = 0..65.  Base 8 / 16: one digit followed by zeros.  Base 10: the table below, which is
\* NOT trusted: the ASSUME checks every row against its predecessor with Double (TLC evaluates it
\* at start-up), so the table is exactly the doubling sequence starting at 1.
Pow2Dec == <<
   <<1>>,
   <<2>>,
   <<4>>,
   <<8>>,
   <<1,6>>,
   <<3,2>>,
   <<6,4>>,
   <<1,2,8>>,
   <<2,5,6>>,
   <<5,1,2>>,
   <<1,0,2,4>>,
   <<2,0,4,8>>,
   <<4,0,9,6>>,
   <<8,1,9,2>>,
   <<1,6,3,8,4>>,
   <<3,2,7,6,8>>,
   <<6,5,5,3,6>>,
   <<1,3,1,0,7,2>>,
   <<2,6,2,1,4,4>>,
   <<5,2,4,2,8,8>>,
   <<1,0,4,8,5,7,6>>,
   <<2,0,9,7,1,5,2>>,
   <<4,1,9,4,3,0,4>>,
   <<8,3,8,8,6,0,8>>,
   <<1,6,7,7,7,2,1,6>>,
   <<3,3,5,5,4,4,3,2>>,
   <<6,7,1,0,8,8,6,4>>,
   <<1,3,4,2,1,7,7,2,8>>,
   <<2,6,8,4,3,5,4,5,6>>,
   <<5,3,6,8,7,0,9,1,2>>,
   <<1,0,7,3,7,4,1,8,2,4>>,
   <<2,1,4,7,4,8,3,6,4,8>>,
   <<4,2,9,4,9,6,7,2,9,6>>,
   <<8,5,8,9,9,3,4,5,9,2>>,
   <<1,7,1,7,9,8,6,9,1,8,4>>,
   <<3,4,3,5,9,7,3,8,3,6,8>>,
   <<6,8,7,1,9,4,7,6,7,3,6>>,
   <<1,3,7,4,3,8,9,5,3,4,7,2>>,
   <<2,7,4,8,7,7,9,0,6,9,4,4>>,
   <<5,4,9,7,5,5,8,1,3,8,8,8>>,
   <<1,0,9,9,5,1,1,6,2,7,7,7,6>>,
   <<2,1,9,9,0,2,3,2,5,5,5,5,2>>,
   <<4,3,9,8,0,4,6,5,1,1,1,0,4>>,
   <<8,7,9,6,0,9,3,0,2,2,2,0,8>>,
   <<1,7,5,9,2,1,8,6,0,4,4,4,1,6>>,
   <<3,5,1,8,4,3,7,2,0,8,8,8,3,2>>,
   <<7,0,3,6,8,7,4,4,1,7,7,6,6,4>>,
   <<1,4,0,7,3,7,4,8,8,3,5,5,3,2,8>>,
   <<2,8,1,4,7,4,9,7,6,7,1,0,6,5,6>>,
   <<5,6,2,9,4,9,9,5,3,4,2,1,3,1,2>>,
   <<1,1,2,5,8,9,9,9,0,6,8,4,2,6,2,4>>,
   <<2,2,5,1,7,9,9,8,1,3,6,8,5,2,4,8>>,
   <<4,5,0,3,5,9,9,6,2,7,3,7,0,4,9,6>>,
   <<9,0,0,7,1,9,9,2,5,4,7,4,0,9,9,2>>,
   <<1,8,0,1,4,3,9,8,5,0,9,4,8,1,9,8,4>>,
   <<3,6,0,2,8,7,9,7,0,1,8,9,6,3,9,6,8>>,
   <<7,2,0,5,7,5,9,4,0,3,7,9,2,7,9,3,6>>,
   <<1,4,4,1,1,5,1,8,8,0,7,5,8,5,5,8,7,2>>,
   <<2,8,8,2,3,0,3,7,6,1,5,1,7,1,1,7,4,4>>,
   <<5,7,6,4,6,0,7,5,2,3,0,3,4,2,3,4,8,8>>,
   <<1,1,5,2,9,2,1,5,0,4,6,0,6,8,4,6,9,7,6>>,
   <<2,3,0,5,8,4,3,0,0,9,2,1,3,6,9,3,9,5,2>>,
   <<4,6,1,1,6,8,6,0,1,8,4,2,7,3,8,7,9,0,4>>,
   <<9,2,2,3,3,7,2,0,3,6,8,5,4,7,7,5,8,0,8>>,
   <<1,8,4,4,6,7,4,4,0,7,3,7,0,9,5,5,1,6,1,6>>,
   <<3,6,8,9,3,4,8,8,1,4,7,4,1,9,1,0,3,2,3,2>> >>
ASSUME Pow2Dec[1] = <<1>> /\ \A i \in 2..66 : Pow2Dec[i] = Double(Pow2Dec[i-1], 10)
Pow2(n, b) == CASE b = 10 -> Pow2Dec[n + 1]
                [] b = 8  -> <<CASE n % 3 = 0 -> 1 [] n % 3 = 1 -> 2 [] OTHER -> 4>> \o [i \in 1..(n \div 3) |-> 0]
                [] b = 16 -> <<CASE n % 4 = 0 -> 1 [] n % 4 = 1 -> 2 [] n % 4 = 2 -> 4 [] OTHER -> 8>> \o [i \in 1..(n \div 4) |-> 0]
\* ... and the closed forms agree with doubling as well
ASSUME \A bb \in {8, 16} : \A n \in 1..65 : Pow2(n, bb) = Double(Pow2(n - 1, bb), bb)
\* d + k and d - k for small k (0 <= k < b, d normalised, d >= k): at most one carry / borrow chain
AddSmall(d, b, k) ==
  LET n == Len(d) IN
  IF d[n] + k < b THEN [d EXCEPT ![n] = d[n] + k]
  ELSE LET J == {j \in 1..(n-1) : d[j] < b - 1} IN
       IF J = {} THEN <<1>> \o [i \in 1..n |-> IF i = n THEN d[n] + k - b ELSE 0]
       ELSE LET j == MaxOf(J) IN
            [i \in 1..n |-> IF i < j THEN d[i] ELSE IF i = j THEN d[i] + 1 ELSE IF i = n THEN d[n] + k - b ELSE 0]
SubSmall(d, b, k) ==
  LET n == Len(d) IN
  IF d[n] >= k THEN Norm([d EXCEPT ![n] = d[n] - k])
  ELSE LET j == MaxOf({j \in 1..(n-1) : d[j] > 0}) IN
       Norm([i \in 1..n |-> IF i < j THEN d[i] ELSE IF i = j THEN d[i] - 1 ELSE IF i = n THEN d[n] + b - k ELSE b - 1])
\* comparison of normalised digit sequences
RECURSIVE LexLE(_, _)
LexLE(x, y) == IF x = <<>> THEN TRUE ELSE IF x[1] # y[1] THEN x[1] < y[1] ELSE LexLE(Tail(x), Tail(y))
MagLE(x, y) == LET a == Norm(x)  c == Norm(y) IN
               IF Len(a) # Len(c) THEN Len(a) < Len(c) ELSE LexLE(a, c)
IsZero(d) == Norm(d) = <<0>>

\* ---------- integer types ----------
Types  == {"Int", "UInt", "Int64", "UInt64"}
Width(T)  == IF T \in {"Int", "UInt"} THEN 32 ELSE 64
Signed(T) == T \in {"Int", "Int64"}
\* largest magnitude representable for the sign, in base b
MaxMag(T, neg, b) ==
  IF Signed(T) THEN (IF neg THEN Pow2(Width(T) - 1, b) ELSE SubSmall(Pow2(Width(T) - 1, b), b, 1))
  ELSE (IF neg THEN <<0>> ELSE SubSmall(Pow2(Width(T), b), b, 1))
Representable(T, lit) == MagLE(lit.digits, MaxMag(T, lit.sign = "-", lit.base))
\* the sentence of C09: the mathematical value when the type can represent it, a conversion error
\* otherwise - never a wrapped or truncated number
IntMeaning(T, lit) ==
  IF Representable(T, lit)
  THEN [rc |-> "ECONF_SUCCESS", neg |-> (lit.sign = "-" /\ ~IsZero(lit.digits)), mag |-> Norm(lit.digits)]
  ELSE [rc |-> "ECONF_VALUE_CONVERSION_ERROR", neg |-> FALSE, mag |-> <<0>>]

DigitChar(v) == IF v < 10 THEN 48 + v ELSE 87 + v                       \* 0-9 a-f
SignText(s) == CASE s = "-" -> <<45>> [] s = "+" -> <<43>> [] OTHER -> <<>>
Prefix(b)   == CASE b = 8 -> <<48>> [] b = 16 -> <<48, 120>> [] OTHER -> <<>>
LitText(lit) == SignText(lit.sign) \o Prefix(lit.base) \o [i \in 1..Len(lit.digits) |-> DigitChar(lit.digits[i])]
\* a well-formed literal of its base (decimal literals have no leading zero: that would be octal)
LitOk(lit) == /\ lit.base \in {8, 10, 16} /\ lit.sign \in {"", "+", "-"} /\ lit.digits # <<>>
              /\ \A i \in 1..Len(lit.digits) : lit.digits[i] \in 0..(lit.base - 1)
              /\ (lit.base = 10 /\ Len(lit.digits) > 1 => lit.digits[1] # 0)

\* canonical text written by the integer setters: decimal, '-' for negatives
CanonLit(neg, mag) == [sign |-> IF neg THEN "-" ELSE "", base |-> 10, digits |-> Norm(mag)]

\* ---------- booleans ----------
W1 == <<49>>  W0 == <<48>>  Wyes == <<121,101,115>>  Wno == <<110,111>>
Wtrue == <<116,114,117,101>>  Wfalse == <<102,97,108,115,101>>
BoolMeaning(text) ==
  LET t == LowerS(text) IN
  IF t \in {W1, Wyes, Wtrue} THEN [rc |-> "ok", v |-> TRUE]
  ELSE IF t \in {W0, Wno, Wfalse, <<>>} THEN [rc |-> "ok", v |-> FALSE]
  ELSE [rc |-> "err", v |-> FALSE]
\* all spellings (any letter case) of the six words + the empty text, restricted to an alphabet
Upper(c) == IF c >= 97 /\ c <= 122 THEN c - 32 ELSE c
RECURSIVE CaseVariants(_)
CaseVariants(w) == IF w = <<>> THEN {<<>>}
                   ELSE {<<c>> \o r : c \in {w[1], Upper(w[1])}, r \in CaseVariants(Tail(w))}
LegalBool == UNION {CaseVariants(w) : w \in {W1, W0, Wyes, Wno, Wtrue, Wfalse}} \cup {<<>>}
=============================================================================
