------------------------------- MODULE Writer -------------------------------
(* econf_writeFile (lib/libeconf.c) as a function from a configuration object to the physical
   lines it writes, and the round-trip class of DESIGN.md 5.4.

   obj.ents[i] = [g, k, v, hasv, quoted, cb, ca]   cb / ca: optional strings (comment before key /
   after value, lines joined by "\n").  d = delimiter character, c = comment character.

   NORMATIVE shape: entries without a section are written first (a group-less entry after a
   sectioned one could not be told from a member of that section when the file is read back),
   then the remaining entries in array order with a "[section]" header whenever the section
   changes.                                                                                  *)
EXTENDS Grammar, TLC

WEnt(g, k, v, hasv, quoted, cb, ca) == [g |-> g, k |-> k, v |-> v, hasv |-> hasv, quoted |-> quoted, cb |-> cb, ca |-> ca]
NoGrp == <<>>

RECURSIVE Dedup0(_)
Dedup0(s) == IF s = <<>> THEN <<>>
             ELSE LET r == Dedup0(SubSeq(s, 1, Len(s) - 1))  x == s[Len(s)] IN
                  IF \E i \in 1..Len(r) : r[i] = x THEN r ELSE Append(r, x)
WriteOrder(ents) == SelectSeq(ents, LAMBDA e : e.g = NoGrp) \o SelectSeq(ents, LAMBDA e : e.g # NoGrp)

CommentLines(o, prefix) == IF ~o.has \/ o.t = <<>> THEN <<>>
                           ELSE LET ls == SplitAt(o.t, NLc) IN [i \in 1..Len(ls) |-> prefix \o ls[i]]
\* text of one entry = one string that may contain newlines (multi-line values are written as they are)
EntryText(e, d, c) ==
  LET val == IF ~e.hasv THEN <<>> ELSE IF e.quoted THEN <<QUOTE>> \o e.v \o <<QUOTE>> ELSE e.v
      after == CommentLines(e.ca, <<SP, c>>) IN
  e.k \o <<d>> \o val \o (IF after = <<>> THEN <<>> ELSE JoinWith(after, NL) \o NL)
RECURSIVE RenderFrom(_, _, _, _)
RenderFrom(es, i, d, c) ==        \* list of text blocks (each ends a line)
  IF i > Len(es) THEN <<>> ELSE
  LET e == es[i]
      newgrp == i = 1 \/ es[i-1].g # e.g
      head == (IF newgrp /\ i > 1 THEN <<<<>>>> ELSE <<>>)
              \o (IF newgrp /\ e.g # NoGrp THEN <<<<LBR>> \o e.g \o <<RBR>>>> ELSE <<>>) IN
  head \o CommentLines(e.cb, <<c>>) \o <<EntryText(e, d, c)>> \o RenderFrom(es, i + 1, d, c)
\* the bytes of the file = blocks joined by "\n", split into physical lines again
RenderCfg(o, d, c) == LET blocks == RenderFrom(WriteOrder(o.ents), 1, d, c) IN
                      IF blocks = <<>> THEN <<>> ELSE SplitAt(JoinWith(blocks, NL), NLc)

\* ---------- the round-trip class (5.4) ----------
NoChar(s, ch) == \A i \in 1..Len(s) : s[i] # ch
ValueOk(e, d, c) ==
  IF ~e.hasv \/ e.v = <<>> THEN TRUE
  ELSE IF e.quoted THEN NoChar(e.v, NLc)
  ELSE LET ls == SplitAt(e.v, NLc)  first == ls[1] IN
       /\ first # <<>> => (NoOuterBlank(first) /\ first[1] # QUOTE)
       /\ NoChar(first, c)
       /\ \A i \in 2..Len(ls) :
            LET body == SkipSp(ls[i]) IN
            /\ ls[i] # <<>> /\ IsBlank(ls[i][1]) /\ body # <<>>
            /\ NoChar(body, d) /\ NoChar(body, c) /\ body[1] # LBR
            /\ (d = SP => NoneOf(body, <<SP, TAB>>))
KeyTextOk(k, d, c) == k # <<>> /\ Printable(k) /\ NoneOf(k, <<d, c, SP, TAB, QUOTE, LBR, RBR>>)
\* (brackets inside a section name are fine - `[eth[0]]`, `[x]]`, `[[y]` read back as eth[0], x], [y: the header's name is what
\* stands between the first `[` and the last `]`; a name that itself starts with `[` AND ends with `]` is a bracketed spelling of
\* the name inside, not a name)
SecTextOk(g, c) == g = NoGrp \/ (Printable(g) /\ NoOuterBlank(g) /\ NoneOf(g, <<c, QUOTE, TAB>>) /\ g # <<>>
                                   /\ ~(g[1] = LBR /\ g[Len(g)] = RBR))
SingleLine(e) == ~e.hasv \/ NoChar(e.v, NLc)
CommentOk(e, c) == /\ (e.ca.has /\ e.ca.t # <<>> => SingleLine(e) /\ NoChar(e.ca.t, NLc) /\ NoneOf(e.ca.t, <<c, QUOTE>>))
                   /\ (e.cb.has => Printable(SelectSeq(e.cb.t, LAMBDA x : x # NLc)))
Unambiguous(o, d, c) == \A i \in 1..Len(o.ents) :
                          LET e == o.ents[i] IN KeyTextOk(e.k, d, c) /\ SecTextOk(e.g, c) /\ ValueOk(e, d, c) /\ CommentOk(e, c)

\* ---------- the observable that must survive write + read ----------
\* key-bearing sections in CANONICAL (byte-wise) order: the property promises the same sections, not their order
\* (a header that first appears without keys and gets keys later changes the listing order, C07 is silent on that)
RtSections(ents) == SortSeq(SelectSeq(Dedup0([i \in 1..Len(ents) |-> ents[i].g]), LAMBDA g : g # NoGrp), ByteLess)
RtKeys(ents, g)  == LET es == SelectSeq(ents, LAMBDA e : e.g = g) IN [i \in 1..Len(es) |-> es[i].k]
RtFirst(ents, g, k) == ents[MinOf({i \in 1..Len(ents) : ents[i].g = g /\ ents[i].k = k})]
RtEnt(e) == [g |-> e.g, k |-> e.k, v |-> IF e.hasv THEN e.v ELSE <<>>,
             \* comments are part of the claim for single-line entries only
             cb |-> IF SingleLine(e) /\ e.cb.has /\ e.cb.t # <<>> THEN <<e.cb.t>> ELSE <<>>,   \* an empty comment = no comment
             ca |-> IF SingleLine(e) /\ e.ca.has /\ e.ca.t # <<>> THEN <<e.ca.t>> ELSE <<>>]
RT(ents) == LET gs == <<NoGrp>> \o RtSections(ents) IN
            [groups |-> RtSections(ents),
             ents |-> Cat([n \in 1..Len(gs) |-> LET ks == RtKeys(ents, gs[n]) IN
                              [i \in 1..Len(ks) |-> RtEnt(RtFirst(ents, gs[n], ks[i]))]])]
\* entries of a parse result in the same record shape
EntsOfParse(st) == [i \in 1..Len(st.ents) |->
                      WEnt(st.ents[i].g, st.ents[i].k, st.ents[i].v, st.ents[i].hasv, st.ents[i].quoted, st.ents[i].cb, st.ents[i].ca)]
ParOf(d, c) == [delim |-> <<d>>, comment |-> <<c>>, python |-> FALSE, join |-> FALSE]
ReadBack(o, d, c) == ParseFile(RenderCfg(o, d, c), ParOf(d, c))
\* C07 on the model
RoundTrips(o, d, c) == LET st == ReadBack(o, d, c) IN st.err = "ok" /\ RT(EntsOfParse(st)) = RT(o.ents)
=============================================================================
