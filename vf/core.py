"""Shared machinery of the libeconf verification checks: builds from /repo's working tree,
TLC invocation (model check / case export / trace validation), parallel execution of
driver scripts with crash isolation, verdict + evidence writing."""
import glob
import hashlib
import json
import os
import re
import shutil
import subprocess
import sys
import tempfile
import time
from concurrent.futures import ThreadPoolExecutor

VERIF = os.path.dirname(os.path.dirname(os.path.abspath(__file__)))
REPO = os.environ.get("VERIF_REPO", "/repo")
SPEC = os.path.join(VERIF, "spec")
CACHE = os.path.join(VERIF, ".cache")
NCPU = max(2, min(16, os.cpu_count() or 4))
GUARD = "LIBECONF_VERIF"


class ToolFailure(Exception):
    """The machinery itself failed (compiler, TLC, ...): exit 2, never a VIOLATION."""


def log(*a):
    print(*a, file=sys.stderr, flush=True)


# --------------------------------------------------------------------------------------
# scratch space
# --------------------------------------------------------------------------------------
_scratch = None


def scratch():
    global _scratch
    if _scratch is None:
        base = "/dev/shm" if os.path.isdir("/dev/shm") and os.access("/dev/shm", os.W_OK) else tempfile.gettempdir()
        _scratch = tempfile.mkdtemp(prefix="verif-%d-" % os.getpid(), dir=base)
    return _scratch


def cleanup():
    global _scratch
    if _scratch and os.path.isdir(_scratch):
        shutil.rmtree(_scratch, ignore_errors=True)
    _scratch = None


# --------------------------------------------------------------------------------------
# building the driver from the tree as it is
# --------------------------------------------------------------------------------------
def _src_files():
    fs = []
    for pat in ("lib/*.c", "lib/*.h", "include/*.h", "util/*.c", "util/*.h"):
        fs += sorted(glob.glob(os.path.join(REPO, pat)))
    fs += sorted(glob.glob(os.path.join(VERIF, "drv", "*.c")))
    return fs


def src_hash(extra=""):
    h = hashlib.sha256()
    for f in _src_files():
        h.update(f.encode())
        with open(f, "rb") as fh:
            h.update(fh.read())
    h.update(extra.encode())
    return h.hexdigest()[:20]


KINDS = {
    # name: (compiler, flags, sources-kind)
    "asan": ("gcc", "-g -O1 -fsanitize=address,undefined -fno-sanitize-recover=undefined -fno-omit-frame-pointer", "drv"),
    "plain": ("gcc", "-g -O2", "drv"),
    "tsan": ("clang", "-g -O1 -fsanitize=thread -fno-omit-frame-pointer", "drv"),
    "toolplain": ("gcc", "-g -O1", "tool"),
    "tool": ("gcc", "-g -O1 -fsanitize=address,undefined -fno-sanitize-recover=undefined -fno-omit-frame-pointer", "tool"),
}


def build(kind="asan"):
    """Compile drv (or econftool) together with /repo/lib/*.c; cached by a hash of all sources."""
    cc, flags, what = KINDS[kind]
    if os.environ.get("VERIF_COV") and what == "drv" and kind in ("asan", "plain"):
        # coverage survey of the machinery itself (bin/coverage): same driver, gcov instrumentation, counters accumulate in
        # $VERIF_COV across all driver processes of a run
        cc, flags, kind = "gcc", "-g -O0 --coverage -fprofile-update=atomic", kind + "-cov"
    if what == "drv":
        # every direct close() of the library (and the driver) goes through drv.c's __wrap_close, which counts the calls on
        # descriptors that are not open: a descriptor released twice closes whatever another thread opened in between
        flags += " -Wl,--wrap=close"
    hsh = src_hash(kind + flags)
    outdir = os.path.join(CACHE, hsh)
    exe = os.path.join(outdir, "drv" if what == "drv" else "econftool")
    if os.path.exists(exe):
        try:
            os.utime(outdir)          # in use: keep it away from the eviction below
        except OSError:
            pass
        return exe
    os.makedirs(outdir, exist_ok=True)
    libsrc = sorted(glob.glob(os.path.join(REPO, "lib", "*.c")))
    if what == "drv":
        main = [os.path.join(VERIF, "drv", "drv.c")]
    else:
        main = [os.path.join(REPO, "util", "econftool.c")]
    cmd = [cc] + flags.split() + ["-D_GNU_SOURCE", "-D_REENTRANT", "-D" + GUARD, "-w",
                                  "-I" + os.path.join(REPO, "include"), "-I" + os.path.join(REPO, "lib")]
    if what == "tool":
        cmd += ['-DVERSION="verif"']
    cmd += main + libsrc + ["-o", exe + ".tmp", "-lpthread", "-lm"]
    t0 = time.time()
    p = subprocess.run(cmd, capture_output=True, text=True, timeout=600, cwd=outdir)
    if p.returncode != 0:
        raise ToolFailure("build (%s) failed:\n%s" % (kind, p.stderr[-4000:]))
    os.replace(exe + ".tmp", exe)
    log("[build] %s in %.1fs -> %s" % (kind, time.time() - t0, exe))
    # keep the cache small: drop builds beyond the 40 most recently used ones, but never one used in the last 6 hours
    # (a long-running check of another process may still be executing it)
    dirs = sorted((d for d in glob.glob(os.path.join(CACHE, "*")) if os.path.isdir(d)), key=os.path.getmtime)
    for d in dirs[:-40]:
        if time.time() - os.path.getmtime(d) > 6 * 3600:
            shutil.rmtree(d, ignore_errors=True)
    return exe


# --------------------------------------------------------------------------------------
# script tokens
# --------------------------------------------------------------------------------------
def hx(s):
    """token for a string argument (None -> NULL). str is encoded latin-1 (one char = one byte)."""
    if s is None:
        return "-"
    if isinstance(s, str):
        s = s.encode("latin-1")
    return "x" + s.hex()


def codes(s):
    """str/bytes -> list of character codes (the TLA+ representation)."""
    if s is None:
        return None
    if isinstance(s, bytes):
        return list(s)
    return [ord(c) for c in s]


def uncodes(cs):
    return "".join(chr(c) for c in cs)


# --------------------------------------------------------------------------------------
# running driver scripts
# --------------------------------------------------------------------------------------
ASAN_ENV = {
    "ASAN_OPTIONS": "detect_leaks=0:abort_on_error=0:allocator_may_return_null=1:detect_stack_use_after_return=0:exitcode=97",
    "UBSAN_OPTIONS": "print_stacktrace=1:halt_on_error=1:exitcode=98",
    "TSAN_OPTIONS": "halt_on_error=0:report_signal_unsafe=0:exitcode=0",
    "LC_ALL": "C",
}


def _run_one(exe, text, env=None, timeout=600):
    e = dict(os.environ)
    e.update(ASAN_ENV)
    if env:
        e.update(env)
    try:
        p = subprocess.run([exe], input=text.encode("latin-1"), capture_output=True, env=e, timeout=timeout)
        return p.returncode, p.stdout.decode("latin-1"), p.stderr.decode("latin-1", "replace")
    except subprocess.TimeoutExpired as ex:
        out = (ex.stdout or b"").decode("latin-1")
        return -999, out, "driver timed out after %ss" % timeout


def _parse_events(out):
    evs = []
    for ln in out.splitlines():
        if not ln.startswith("{"):
            continue
        try:
            evs.append(json.loads(ln))
        except ValueError:
            evs.append({"op": "garbled", "raw": ln[:200]})
    return evs


def run_cases(exe, cases, jobs=None, env=None, per_case_timeout=20):
    """cases: list of (case_id, [script lines]).  Returns {case_id: {"ev":[events], "crash":None|str}}.
    Cases are spread over `jobs` driver processes; a process that dies is restarted after the
    case that killed it, which is reported with the sanitizer output."""
    jobs = jobs or NCPU
    if not cases:
        return {}
    chunks = [cases[i::jobs] for i in range(jobs)]
    chunks = [c for c in chunks if c]
    results = {}

    def work(arg):
        wi, chunk = arg
        res = {}
        todo = list(chunk)
        wroot = os.path.join(scratch(), "w%d" % wi)
        if wi % 2 and os.environ.get("VERIF_AMBIENT", "1") != "0":
            # ambient variation: every second driver process works below a scratch root whose name holds blanks, delimiter,
            # comment, bracket, format and non-ASCII characters and which is some 300 bytes deep - nothing the library does may
            # depend on how the directory above its files is called (':' and ';' are left out: they are the list separators of
            # the option strings, which many scripts build from the root)
            wroot = os.path.join(wroot, "amb =#[x]%s", *(["deep-directory-name-of-fifty-bytes-%014d" % wi] * 5))
        wenv = dict(env or {})
        wenv["DRV_ROOT"] = wroot
        while todo:
            text = []
            for cid, lines in todo:
                text.append("case %s" % cid)
                text.extend(lines)
            text.append("end")
            rc, out, err = _run_one(exe, "\n".join(text) + "\n", env=wenv,
                                    timeout=max(60, per_case_timeout * min(len(todo), 200) // 4 + 60))
            evs = _parse_events(out)
            cur = None
            ended = False
            per = {}
            order = []
            for ev in evs:
                if ev.get("op") == "case":
                    cur = ev["id"]
                    per[cur] = []
                    order.append(cur)
                elif ev.get("op") == "end":
                    ended = True
                elif cur is not None:
                    per[cur].append(ev)
            if ended and rc == 0:
                for cid, _ in todo:
                    res[cid] = {"ev": per.get(str(cid), []), "crash": None, "root": wroot}
                break
            # died: everything before the last started case is complete
            if not order:
                # could not even start: blame the first case
                cid0 = str(todo[0][0])
                res[todo[0][0]] = {"ev": [], "crash": "driver died before first case rc=%s\n%s" % (rc, err[-3000:]), "root": wroot}
                todo = todo[1:]
                continue
            last = order[-1]
            idx = [str(c) for c, _ in todo].index(last)
            for cid, _ in todo[:idx]:
                res[cid] = {"ev": per.get(str(cid), []), "crash": None, "root": wroot}
            if ended:   # all cases ran, but exit status non-zero (e.g. leak report at exit): blame the run as a whole on the last
                res[todo[idx][0]] = {"ev": per.get(last, []), "crash": "driver exit status %s after end marker\n%s" % (rc, err[-3000:]), "root": wroot}
            else:
                kind = "timeout" if any(e.get("op") == "timeout" for e in evs) or rc == -999 else "crash"
                res[todo[idx][0]] = {"ev": per.get(last, []), "crash": "%s rc=%s\n%s" % (kind, rc, err[-3000:]), "root": wroot}
            todo = todo[idx + 1:]
        return res

    t0 = time.time()
    with ThreadPoolExecutor(max_workers=len(chunks)) as ex:
        for r in ex.map(work, list(enumerate(chunks))):
            results.update(r)
    # A case that ran into the driver's wall-clock watchdog is run once more on its own before it counts: on a loaded machine a
    # process can be starved for longer than the watchdog allows, and a verdict must not depend on the load (a hang repeats).
    slow = [(cid, lines) for cid, lines in cases if (results.get(cid) or {}).get("crash", None) and str(results[cid]["crash"]).startswith("timeout")]
    if slow and len(cases) > 1 and len(slow) <= 20:
        log("[drv] %d case(s) hit the watchdog; run again one by one" % len(slow))
        for cid, lines in slow:
            results.update(run_cases(exe, [(cid, lines)], jobs=1, env=env, per_case_timeout=per_case_timeout))
    log("[drv] %d cases in %.1fs" % (len(cases), time.time() - t0))
    return results


# --------------------------------------------------------------------------------------
# TLC
# --------------------------------------------------------------------------------------
TLC_JAR = "/opt/veriftools/tla/tla2tools.jar:/opt/veriftools/tla/CommunityModules-deps.jar"


class TlcResult:
    def __init__(self, rc, out, wall):
        self.rc, self.out, self.wall = rc, out, wall
        m = re.search(r"(\d+) states generated, (\d+) distinct states found", out)
        self.generated = int(m.group(1)) if m else 0
        self.distinct = int(m.group(2)) if m else 0
        self.violated = ("is violated" in out) or ("Invariant" in out and "violated" in out)
        self.error = ("Error:" in out)

    def json_lines(self):
        """records printed with PrintT(ToJson(x)): a TLA+ string literal holding JSON."""
        recs = []
        for ln in self.out.splitlines():
            if ln.startswith('"{') or ln.startswith('"['):
                try:
                    recs.append(json.loads(json.loads(ln)))
                except ValueError:
                    pass
        return recs


def tlc(module, cfg, workers=None, env=None, timeout=3600, simulate=None, depth=None, heap="8g", extra=None, deque=False):
    """Run TLC on spec/<module>.tla with spec/<cfg>. Raises ToolFailure on tool-level problems."""
    workers = workers or NCPU
    meta = tempfile.mkdtemp(prefix="tlc-", dir=scratch())
    cmd = ["java", "-XX:+UseParallelGC", "-Xss256m", "-Xmx" + heap]
    if deque:
        cmd += ["-Dtlc2.tool.queue.IStateQueue=StateDeque"]
    cmd += ["-cp", TLC_JAR, "tlc2.TLC", "-workers", str(workers), "-metadir", meta, "-noGenerateSpecTE",
            "-config", cfg]
    if simulate:
        cmd += ["-simulate", "num=%d" % simulate]
        if depth:
            cmd += ["-depth", str(depth)]
    if extra:
        cmd += extra
    cmd += [module]
    e = dict(os.environ)
    if env:
        e.update({k: str(v) for k, v in env.items()})
    t0 = time.time()
    try:
        p = subprocess.run(cmd, cwd=SPEC, capture_output=True, text=True, env=e, timeout=timeout)
    except subprocess.TimeoutExpired:
        raise ToolFailure("TLC timed out after %ss on %s/%s" % (timeout, module, cfg))
    finally:
        shutil.rmtree(meta, ignore_errors=True)
    r = TlcResult(p.returncode, p.stdout + p.stderr, time.time() - t0)
    log("[tlc] %s %s: %d distinct states, rc=%d, %.1fs" % (module, os.path.basename(cfg), r.distinct, r.rc, r.wall))
    if "Parsing or semantic analysis failed" in r.out or "java.lang." in r.out and "Exception" in r.out and "TLC" not in module:
        raise ToolFailure("TLC could not process %s/%s:\n%s" % (module, cfg, r.out[-3000:]))
    return r


def tlc_ok(module, cfg, **kw):
    """Model-check and insist on a clean run; returns the result. A violated invariant is returned
    (rc 12/13) for the caller to report; anything else unexpected is a ToolFailure."""
    r = tlc(module, cfg, **kw)
    if r.rc not in (0, 12, 13):
        raise ToolFailure("TLC exit %s on %s/%s:\n%s" % (r.rc, module, cfg, r.out[-3000:]))
    return r


def validate_trace(module, cfg, events, timeout=1800, env=None, heap="8g"):
    """Backward conformance: write events as ndjson, let TLC consume them with the trace spec.
    Accepted iff TLC exits 0 (POSTCONDITION on consumed length holds). Returns (accepted, result, path)."""
    fd, path = tempfile.mkstemp(prefix="trace-", suffix=".ndjson", dir=scratch())
    with os.fdopen(fd, "w") as f:
        for ev in events:
            f.write(json.dumps(ev, separators=(",", ":")) + "\n")
    e = {"TRACE": path}
    if env:
        e.update(env)
    r = tlc(module, cfg, workers=1, env=e, timeout=timeout, heap=heap)
    if r.rc not in (0, 12, 13):
        # rc 1 = postcondition false in some TLC builds; treat "Postcondition" specially
        if "ostcondition" not in r.out and "violated" not in r.out:
            raise ToolFailure("TLC exit %s validating trace with %s/%s:\n%s" % (r.rc, module, cfg, r.out[-3000:]))
    accepted = r.rc == 0 and "ostcondition" not in r.out.replace("POSTCONDITION", "") and not r.violated
    return accepted, r, path


# --------------------------------------------------------------------------------------
# known findings, verdicts, evidence
# --------------------------------------------------------------------------------------
def load_findings():
    p = os.path.join(VERIF, "known_findings.json")
    if not os.path.exists(p):
        return {"open": [], "fixed": []}
    with open(p) as f:
        return json.load(f)


class Verdict:
    """Collects violations of one property; resolves them against known_findings.json."""

    def __init__(self, pid):
        self.pid = pid
        self.violations = []   # (fingerprint, replay_path, text)
        self.known = []
        self.findings = [f for f in load_findings().get("open", []) if f.get("property") == pid]
        d = os.path.join(VERIF, "replays", pid)
        if os.path.isdir(d) and not os.environ.get("VERIF_KEEP_REPLAYS"):
            shutil.rmtree(d, ignore_errors=True)

    def violation(self, fingerprint, case, text):
        """fingerprint: stable class string of the failing case; case: JSON-able replay record."""
        for f in self.findings:
            if re.fullmatch(f["fingerprint"], fingerprint):
                if (f["fingerprint"], f.get("what", "")) not in self.known:
                    self.known.append((f["fingerprint"], f.get("what", "")))
                return False
        d = os.path.join(VERIF, "replays", self.pid)
        os.makedirs(d, exist_ok=True)
        h = hashlib.sha256(json.dumps(case, sort_keys=True, default=str).encode()).hexdigest()[:16]
        path = os.path.join(d, h + ".json")
        with open(path, "w") as f:
            json.dump({"property": self.pid, "fingerprint": fingerprint, "text": text, "case": case}, f, indent=1, default=str)
        if len(self.violations) < 50:
            self.violations.append((fingerprint, path, text))
        return True

    def finish(self):
        # the repository's own test programs as traces against the root specification (vf/p_suite.py): mismatches
        # attributed to this property are violations of it
        if self.pid in SUITE_PROPS and not os.environ.get("VERIF_NO_SUITE") and not getattr(self, "_suite_done", False):
            self._suite_done = True
            from . import p_suite
            SUITE_COV[self.pid] = p_suite.report(self.pid, self)
        for fp, what in self.known:
            print("KNOWN-FINDING: property=%s %s [%s]" % (self.pid, what, fp))
        seen = set()
        for fp, path, text in self.violations:
            if fp in seen and len(seen) > 8:
                continue
            seen.add(fp)
            print("VIOLATION property=%s replay=%s" % (self.pid, path))
            print("  " + text.replace("\n", "\n  ")[:1500])
        return 1 if self.violations else 0


SUITE_PROPS = ("C01", "C02", "C03", "C07", "C09", "C10", "C11", "C12", "C13", "C15", "C17", "C20")
SUITE_COV = {}


def write_evidence(pid, tier, seed, level, coverage, assumptions, wall_s, violations):
    if os.environ.get("VERIF_KEEP_EVIDENCE"):      # runs against a modified tree (seeded changes, mutants) leave the evidence alone
        return
    os.makedirs(os.path.join(VERIF, "evidence"), exist_ok=True)
    if pid in SUITE_COV:
        coverage = dict(coverage)
        coverage["suite_traces"] = dict(SUITE_COV[pid], rule="every tests/tst-*.c of the working tree run under shim/shim.c (link-time --wrap of the public API, files snapshotted before every read, object dumped after every creating/changing call); the recorded histories validated by Trace_Econf against the root specification; mismatches are attributed to a property by the kind of the rejected event")
    ev = {"property_id": pid, "tier": tier, "seed": int(seed), "level": level, "coverage": coverage,
          "assumptions": assumptions, "wall_s": round(wall_s, 2), "violations": int(violations)}
    tmp = os.path.join(VERIF, "evidence", pid + ".json.tmp")
    with open(tmp, "w") as f:
        json.dump(ev, f, indent=1, default=str)
    os.replace(tmp, os.path.join(VERIF, "evidence", pid + ".json"))


ROOT = "@ROOT@"   # placeholder for the per-process scratch root inside script strings


def canon(x):
    """Canonical JSON text used for comparing expectation and observation."""
    return json.dumps(x, sort_keys=True, separators=(",", ":"))
