"""Mixed API histories validated against the ROOT specification (spec/Econf.tla via Trace_Econf.tla):
files written by the harness, single-file and two-directory layered reads, setters, getters, merges,
econf_writeFile followed by reads of the written file, dumps, the error-location record, frees.
The specification predicts every result end to end (Parser -> object -> Merge -> Writer -> Parser ...).
Used by the C07, C10 and C11 checks as an additional binding of the composed behaviour."""
import json
import os
import random

from . import core
from .core import hx, codes, ROOT, canon
from .p_parser import file_bytes

LONGSEC = "L" * 255 + "ong" + "g" * 42            # a section name of 300 bytes (and one that agrees with it in the first 255)
SECS = [None, "", "A", "[A]", "B", "C c", "AB", "[AB]", "a", "ab", "_nooD_", "az", "bY", LONGSEC, "[" + LONGSEC + "]", LONGSEC[:255]]    # ("a" / "A": names differing in case only)       # bare and bracketed forms; names that are prefixes of each other
KEYS = ["x", "y", "z", "k1", "k2", "k12", "xx", "_none_"]       # (the last one: the text the library uses for unused slots - a key like any other)
VALS = ["v", "a b", "", "12", "x=y", "v\n w", "true", "No", "v\n w\n\tx y", "0x10", "010", "+12", "16 units", "ends in blanks  ", ", ", "_none_", "[A]", "100%", "%s%%", "caf\xc3\xa9", "3 \xe2\x82\xac"]
FILES = ["/f1.conf", "/f2.conf", "/usr/etc/cfg.conf", "/etc/cfg.conf", "/usr/etc/cfg.conf.d/a.conf", "/usr/etc/cfg.conf.d/b.conf",
         "/etc/cfg.conf.d/a.conf", "/etc/cfg.conf.d/c.conf", "/usr/etc/cfg.conf.d/note.txt"]
# trees of the general econf_readConfig (root prefix = the history's scratch directory): vendor / run / etc with and without a
# project directory, default and alternative drop-in directories, the project's own <project>.d
FILES_CFG = ["/usr/lib/prj/cfg.conf", "/usr/lib/prj/cfg.conf.d/a.conf", "/run/prj/cfg.conf.d/a.conf", "/run/prj/cfg.conf.d/r.conf", "/etc/prj/cfg.conf",
             "/etc/prj/cfg.conf.d/z.conf", "/etc/prj/cfg.d/alt.conf", "/etc/prj/cfg/conf.d/deep.conf", "/usr/lib/cfg.conf", "/etc/cfg.conf.d/c.conf",
             "/usr/lib/prj.d/p1.conf", "/etc/prj.d/p1.conf", "/etc/prj.d/p2.conf", "/etc/prj.conf", "/p1/cfg.conf", "/p2/cfg.conf.d/x.conf", "/p2/cfg.d/y.conf",
             "/usr/etc/cfg/alt.d/q.conf", "/etc/cfg.d/y.conf", "/run/cfg.conf", "/run/cfg.conf.d/r.conf", "/etc/cfg.conf.d/r.conf", "/usr/lib/cfg.conf.d/r.conf"]
INTTYPES = {"Int": (-2**31, 2**31 - 1), "Int64": (-2**63, 2**63 - 1), "UInt": (0, 2**32 - 1), "UInt64": (0, 2**64 - 1)}


def opt(s):
    return [] if s is None else [codes(s)]


def dump_st(d, comments=True):
    st = d.get("st")
    if st is None:
        return None
    ents = []
    for sec in st["secs"]:
        for k in sec["keys"]:
            ents.append({"g": codes(sec["g"]) if sec["g"] is not None else [], "k": codes(k["k"]), "v": codes(k["v"]) if k["v"] is not None else [],
                         "cb": codes((k.get("cb") or "") if comments else ""), "ca": codes((k.get("ca") or "") if comments else "")})
    return {"groups": [codes(g) for g in st["groups"]], "ents": ents}


class Mixed:
    def __init__(self, rnd, idx, ops=None, comments=False, errloc=False, bad_rate=0.06):
        self.ops = ops            # None = everything
        self.comments = comments  # compare comments in dumps (beyond every registered property: own use only)
        self.with_errloc = errloc
        self.bad_rate = bad_rate
        self.r = rnd
        # C15 histories: one parsing option per history; files are generated from THAT option's grammar (the property is
        # silent about files outside it)
        self.optmode = rnd.choice(["python", "join"]) if ops and "readconfig_opt" in ops else "none"
        self.R = ROOT + "/mx%d" % (idx % 16)
        self.script = ["rm %s" % hx(self.R)]
        self.conv = [None]
        self.live = set()
        self.files = set()
        self.nout = 0
        self.seen = []           # (section, key) pairs some file of this history defines: the getters ask for them and for near misses
        # histories that never write: keys with outer blanks are keys like any other for the setters, getters and listings
        self.keys = KEYS + (["y ", " y", "k1\t"] if ops is not None and "write" not in ops else [])
        self.seen_by = {}        # ... per file;  src[h]: the files (or setter pairs) object h stems from
        self.src = {}

    def add(self, line, conv):
        self.script.append(line)
        self.conv.append(conv)

    def rel(self, p, root):
        p = p.replace(root + "/" + self.R.split("/")[-1], "")
        while "//" in p:
            p = p.replace("//", "/")
        return p

    def op_file(self):
        from gen import gram
        f = self.r.choice(FILES + (FILES_CFG if self.ops is None or "readconfig" in self.ops else []))
        g = gram.random_file(self.r, self.r.randint(1, 8), self.optmode, self.bad_rate, D="=", C="#")
        self.files.add(f)
        self.seen_by[f] = []
        # framing (Parser.tla FileBytes): the final newline is optional and means nothing
        fnl = not (g["lines"] and g["lines"][-1] and self.r.random() < 0.25)
        self.add("file %s %s" % (hx(self.R + f), hx(file_bytes(g["lines"], fnl))), None)
        lines = g["lines"]
        cur = None
        for a in g["abs"]:
            if a["t"] == "header":
                cur = core.uncodes(a["key"])
            elif a["t"] in ("entry", "keyonly"):
                if len(self.seen) < 40:
                    self.seen.append((cur, core.uncodes(a["key"])))
                self.seen_by.setdefault(f, []).append((cur, core.uncodes(a["key"])))
        self.script.append("echo f")
        self.conv.append(lambda ev, root, f=f, lines=lines: [{"e": "file", "path": codes(f), "lines": lines}])

    def op_read(self, h):
        f = (self.r.choice(sorted(self.files)) if self.r.random() < 0.9 else "/missing.conf") if self.files else "/missing.conf"
        self.add("readfile %d %s x3d x23" % (h, hx(self.R + f)),
                 lambda ev, root, h=h, f=f: [{"e": "readfile", "h": h, "path": codes(f), "delim": [61], "comment": [35], "rc": ev["rc"]}])
        self.live.add(h)
        self.src[h] = [f]
        self.errloc()

    def op_readdirs(self, h):
        self.add("readdirs %d %s %s %s %s x3d x23" % (h, hx(self.R + "/usr/etc"), hx(self.R + "/etc"), hx("cfg"), hx(self.r.choice(["conf", ".conf"]))),
                 lambda ev, root, h=h: [{"e": "readdirs", "h": h, "dirs": [codes("/usr/etc"), codes("/etc")], "name": codes("cfg"), "sfx": codes("conf"),
                                         "delim": [61], "comment": [35], "python": False, "join": False, "rc": ev["rc"]}])
        self.live.add(h)
        self.src[h] = [f for f in sorted(self.files) if f.startswith("/usr/etc/cfg") or f.startswith("/etc/cfg")]
        self.errloc()

    def op_readconfig_opt(self, h):
        """layered read through an option object: PYTHON_STYLE / JOIN_SAME_ENTRIES apply to the main file AND to every drop-in"""
        py = (self.optmode == "python") if self.optmode != "none" else self.r.random() < 0.5
        opt = ("PYTHON_STYLE=1" if py else "JOIN_SAME_ENTRIES=1") + ";PARSING_DIRS=%s/usr/etc:%s/etc" % (self.R, self.R)
        self.script.append("newopt %d %s" % (h, hx(opt)))
        self.conv.append(lambda ev, root: [])
        self.add("readconfig %d - - %s %s x3d x23" % (h, hx("cfg"), hx("conf")),
                 lambda ev, root, h=h, py=py: [{"e": "readdirs", "h": h, "dirs": [codes("/usr/etc"), codes("/etc")], "name": codes("cfg"), "sfx": codes("conf"),
                                               "delim": [61], "comment": [35], "python": py, "join": not py, "rc": ev["rc"]}])
        # a failed read leaves the caller's option object in place: release it so that the model (Null after failure) and the
        # library agree again
        self.script.append("onerr_free %d" % h)
        self.conv.append(None)
        self.live.add(h)

    # ---- the general econf_readConfig: option string, project, config name (or none: <project>.d), drop-in directory lists ----
    def op_readconfig(self, h):
        r = self.r
        items = []     # (text, abstract item)
        if r.random() < 0.75:
            items.append(("ROOT_PREFIX=" + self.R, {"name": "ROOT", "arg": []}))            # paths of the trace are relative to the scratch root
        if r.random() < 0.25:
            dirs = r.sample(["/p1", "/p2", "/etc/prj", "/usr/lib/prj"], r.randint(1, 3))
            items.append(("PARSING_DIRS=" + ":".join(self.R + d for d in dirs), {"name": "PDIRS", "arg": [codes(d) for d in dirs]}))
        if r.random() < 0.3:
            posts = r.sample([".conf.d", ".d", "/conf.d", ".nothing.d"], r.randint(1, 3))
            items.append(("CONFIG_DIRS=" + ":".join(posts), {"name": "CDIRS", "arg": [codes(x) for x in posts]}))
        if r.random() < 0.3:
            v = r.choice([0, 1])
            items.append(("JOIN_SAME_ENTRIES=%d" % v, {"name": "JOIN", "arg": v}))
        if r.random() < 0.1 and self.optmode == "none":
            items.append(("PYTHON_STYLE=0", {"name": "PYTHON", "arg": 0}))
        if r.random() < 0.3 and items:
            items.append(r.choice(items))                                                  # an item given twice: the last one counts
        r.shuffle(items)
        if r.random() < 0.05:
            items.insert(r.randrange(len(items) + 1), ("NO_SUCH_OPTION=1", {"name": "BAD", "arg": 0}))
        # without ROOT_PREFIX and PARSING_DIRS the real /usr/lib, /run, /etc would be read: always give one of them
        if not any(a["name"] in ("ROOT", "PDIRS") for _, a in items):
            items.append(("ROOT_PREFIX=" + self.R, {"name": "ROOT", "arg": []}))
        self.add("newopt %d %s" % (h, hx(";".join(t for t, _ in items))),
                 lambda ev, root, h=h, items=items: [{"e": "newopt", "h": h if ev["rc"] == "ECONF_SUCCESS" else 0, "items": [a for _, a in items], "rc": ev["rc"]}])
        # (a refused option string leaves no object: the read that follows then starts from NULL and is not predicted)
        prj = r.choice(["prj", "prj", None])
        name = r.choice(["cfg", "cfg", "cfg", None, ""]) if prj else "cfg"
        usr = r.choice(["/usr/lib", "/usr/lib", None, "/usr/etc"])
        sfx = r.choice(["conf", ".conf", "conf"])       # (no suffix: every directory entry counts, "." and ".." included - C12 checks that case)
        self.add("readconfig %d %s %s %s %s x3d x23" % (h, hx(prj), hx(usr), hx(name), hx(sfx)),
                 lambda ev, root, h=h, prj=prj, usr=usr, name=name, sfx=sfx: [{"e": "readconfig", "h": h if ev["rc"] == "ECONF_SUCCESS" else 0, "hin": h, "cb": False,
                                                                              "project": opt(prj), "usr": opt(usr), "name": opt(name), "sfx": codes(sfx or ""),
                                                                              "delim": [61], "comment": [35], "rc": ev["rc"]}] +
                 # a failed read leaves the caller's option object in place; the script releases it right away (onerr_free)
                 ([] if ev["rc"] == "ECONF_SUCCESS" else [{"e": "free", "h": h, "ret_null": True}]))
        self.script.append("onerr_free %d" % h)
        self.conv.append(None)
        self.live.add(h)

    def op_readhist(self, h0):
        sfx = self.r.choice(["conf", ".conf"])
        self.add("readhist %d %s %s %s %s x3d x23" % (h0, hx(self.R + "/usr/etc"), hx(self.R + "/etc"), hx("cfg"), hx(sfx)),
                 lambda ev, root, h0=h0, sfx=sfx: [{"e": "readhist", "hs": list(range(h0, h0 + ev["n"])), "cb": False, "dirs": [codes("/usr/etc"), codes("/etc")], "name": codes("cfg"),
                                                  "sfx": codes(sfx), "delim": [61], "comment": [35], "rc": ev["rc"]}])
        for k in range(h0, h0 + 10):
            self.add("dumpx %d" % k, lambda ev, root, k=k: [] if ev["st"] is None else [{"e": "dump", "h": k, "isnull": False, "st": dump_st(ev, self.comments), "cmp_comments": self.comments,
                                                                                         "path": codes(self.rel(ev["st"]["path"], root))}])
        for k in range(h0, h0 + 10):
            self.add("free %d" % k, lambda ev, root, k=k: [{"e": "free", "h": k, "ret_null": ev["ret_null"]}])

    def op_setconfdirs(self):
        posts = self.r.choice([[], [".conf.d", "/alt.d"], [".d"], [".conf.d"], ["/alt.d", ".d", ".conf.d"]])
        self.add("setconfdirs " + " ".join(hx(x) for x in posts), lambda ev, root, posts=posts: [{"e": "setconfdirs", "dirs": [codes(x) for x in posts]}])

    def pick_gk(self, keys, h=None):
        """the (section, key) a getter asks for: a random pair of the small name pools, or - half of the time when files were
        generated - a pair that a file of this history defines, with the section name as it is, in the bracketed form, or a near
        miss of it (a proper prefix, an extension, the bracketed prefix): only the exact name (bare or bracketed) may find the key"""
        own = [p for f in self.src.get(h, ()) for p in (self.seen_by.get(f, ()) if isinstance(f, str) else [f])]
        if (own and self.r.random() < 0.65) or (self.seen and self.r.random() < 0.3):
            g, k = self.r.choice(own) if own and self.r.random() < 0.85 else self.r.choice(self.seen or own)
            x = self.r.random()
            if g and "[" not in g and "]" not in g:
                if x < 0.35:
                    g = "[" + g + "]"
                elif x < 0.45 and len(g) > 1:
                    g = g[:-1].rstrip(" \t") or g
                elif x < 0.55:
                    g = g + "B"
                elif x < 0.62 and len(g) > 1 and g[:-1].strip(" \t"):
                    g = "[" + g[:-1].strip(" \t") + "]"
            if self.r.random() < 0.1:
                k = k + "2"
            return g, k
        return self.r.choice(SECS), self.r.choice(keys)

    def op_keys(self, h):
        g = self.pick_gk(self.keys, h)[0]
        self.add("keys %d %s" % (h, hx(g)), lambda ev, root, h=h, g=g: [{"e": "keys", "h": h, "g": opt(g), "rc": ev["rc"], "out": [codes(x) for x in (ev.get("out") or [])]}])

    def op_groups(self, h):
        self.add("groups %d" % h, lambda ev, root, h=h: [{"e": "groups", "h": h, "rc": ev["rc"], "out": [codes(x) for x in (ev.get("out") or [])]}])

    def op_settyped(self, h):
        g, k = self.r.choice(SECS), self.r.choice(self.keys)
        if self.r.random() < 0.3:
            v = self.r.choice(["yes", "No", "TRUE", "false", "1", "0", "on", "maybe", "tRuE"])
            self.add("set Bool %d %s %s %s" % (h, hx(g), hx(k), hx(v)),
                     lambda ev, root, h=h, g=g, k=k, v=v: [{"e": "set", "T": "Bool", "h": h, "g": opt(g), "k": opt(k), "v": opt(v), "neg": False, "mag": [0], "rc": ev["rc"]}])
            return
        T = self.r.choice(sorted(INTTYPES))
        lo, hi = INTTYPES[T]
        spelt = {"12": 12, "0x10": 16, "010": 8, "+12": 12, "16 units": 16}
        last = getattr(self, "last_set", {}).get(h)
        if last and last[2] in spelt and self.r.random() < 0.5:
            # the key holds a text that spells this very number in another way: the setter replaces the TEXT all the same
            g, k, n = last[0], last[1], spelt[last[2]]
            self.add("set %s %d %s %s %d" % (T, h, hx(g), hx(k), n),
                     lambda ev, root, h=h, g=g, k=k, n=n, T=T: [{"e": "set", "T": T, "h": h, "g": opt(g), "k": opt(k), "v": [], "neg": False, "mag": [int(c) for c in str(n)], "rc": ev["rc"]}])
            self.op_get_exact(h, g, k)
            return
        # (12, 16, 8, 10: the numbers that texts of the value pool and of the files spell in another way - "12", "0x10", "010" ...)
        n = self.r.choice([lo, hi, 0, 1, -1 if lo < 0 else 7, self.r.randint(lo, hi), 12, 16, 8, 10, 12, 16])
        self.add("set %s %d %s %s %d" % (T, h, hx(g), hx(k), n),
                 lambda ev, root, h=h, g=g, k=k, n=n, T=T: [{"e": "set", "T": T, "h": h, "g": opt(g), "k": opt(k), "v": [], "neg": n < 0, "mag": [int(c) for c in str(abs(n))], "rc": ev["rc"]}])

    def op_gettyped(self, h):
        g, k = self.pick_gk(self.keys, h)
        T = self.r.choice(sorted(INTTYPES) + ["Bool"])

        def conv(ev, root, h=h, g=g, k=k, T=T):
            e = {"e": "get", "T": T, "h": h, "g": opt(g), "k": opt(k), "rc": ev["rc"], "isdef": False, "out": [], "neg": False, "mag": [0], "mag8": [0], "mag16": [0], "bool": False}
            if ev["rc"] == "ECONF_SUCCESS":
                if T == "Bool":
                    e["bool"] = ev["out"] == 1
                else:
                    v = int(ev["out"])
                    e["neg"], e["mag"] = v < 0, [int(c) for c in str(abs(v))]
                    e["mag8"], e["mag16"] = [int(c, 8) for c in "%o" % abs(v)], [int(c, 16) for c in "%x" % abs(v)]
            return [e]
        # the ...Def getters are the plain getters plus a default for an absent key: the same answers for every key that exists,
        # by whichever form its section is named
        if self.r.random() < 0.4:
            self.add("getdef %s %d %s %s %s" % (T, h, hx(g), hx(k), "1" if T == "Bool" else "4242"), conv)
        else:
            self.add("get %s %d %s %s" % (T, h, hx(g), hx(k)), conv)

    def op_ext(self, h):
        g, k = self.pick_gk(self.keys + ["a", "b", "k0", "k1"], h)
        layout = not any(isinstance(f, str) and f.startswith("/out/") for f in self.src.get(h, ()))
        self.add("ext %d %s %s" % (h, hx(g), hx(k)),
                 lambda ev, root, h=h, g=g, k=k, layout=layout: [{"e": "ext", "h": h, "g": opt(g), "k": opt(k), "rc": ev["rc"], "line": ev.get("line", 0), "cmp_layout": layout,
                                                  "file": codes(self.rel(ev.get("file") or "", root)), "cb": codes(ev.get("cb") or ""), "ca": codes(ev.get("ca") or ""),
                                                  "vals": [codes(x) for x in (ev.get("vals") or []) if x != ""]}])

    def op_settags(self, h):
        # (a blank delimiter tag makes the written text ambiguous for values with blanks or quotes: C07's own universe handles it)
        d, c = self.r.choice(["=", ":"]), self.r.choice(["#", ";"])
        self.add("settags %d %s %s" % (h, hx(d), hx(c)), lambda ev, root, h=h, d=d, c=c: [{"e": "settag", "h": h, "which": "d", "tag": ord(d)}, {"e": "settag", "h": h, "which": "c", "tag": ord(c)}])

    def errloc(self):
        if not self.with_errloc:
            return
        self.add("errloc", lambda ev, root: [{"e": "errloc", "file": codes(self.rel(ev["file"] or "", root)), "line": ev["line"]}])

    def op_new(self, h):
        self.add("newkf %d x3d x23" % h, lambda ev, root, h=h: [{"e": "new", "h": h, "d": 61, "c": 35, "rc": ev["rc"]}])
        self.live.add(h)
        self.src[h] = []

    def op_get_exact(self, h, g, k):
        self.add("get String %d %s %s" % (h, hx(g), hx(k)),
                 lambda ev, root, h=h, g=g, k=k: [{"e": "get", "h": h, "g": opt(g), "k": opt(k), "rc": ev["rc"], "out": opt(ev.get("out"))}])

    def op_set(self, h):
        g, k, v = self.r.choice(SECS), self.r.choice(self.keys), self.r.choice(VALS)
        if not hasattr(self, "last_set"):
            self.last_set = {}
        self.last_set[h] = (g, k, v)
        self.src.setdefault(h, []).append((g.strip("[]") if g else None, k))
        self.add("set String %d %s %s %s" % (h, hx(g), hx(k), hx(v)),
                 lambda ev, root, h=h, g=g, k=k, v=v: [{"e": "set", "h": h, "g": opt(g), "k": opt(k), "v": opt(v), "rc": ev["rc"]}])

    def op_get(self, h):
        g, k = self.pick_gk(self.keys + ["a", "b"], h)
        self.add("get String %d %s %s" % (h, hx(g), hx(k)),
                 lambda ev, root, h=h, g=g, k=k: [{"e": "get", "h": h, "g": opt(g), "k": opt(k), "rc": ev["rc"], "out": opt(ev.get("out"))}])

    def op_merge(self, h, a, b):
        self.add("merge %d %d %d" % (h, a, b), lambda ev, root, h=h, a=a, b=b: [{"e": "merge", "h": h, "a": a, "b": b, "rc": ev["rc"]}])
        self.live.add(h)
        self.src[h] = list(self.src.get(a, ())) + list(self.src.get(b, ()))

    def op_write(self, h):
        # one time in three an earlier name is written again: the file then holds exactly the new content
        if self.nout and self.r.random() < 0.35:
            n = self.r.randint(1, self.nout)
        else:
            self.nout += 1
            n = self.nout
        f = "/out/w%d.conf" % n
        self.add("write %d %s %s" % (h, hx(self.R + "/out"), hx("w%d.conf" % n)),
                 lambda ev, root, h=h, f=f: [{"e": "write", "h": h, "path": codes(f), "rc": ev["rc"]}])
        self.files.add(f)

    def op_newoptonly(self, h):
        """an option object that is used as a plain object (sets, merge base, write): it carries NO delimiter / comment tag"""
        self.add("newopt %d x" % h, lambda ev, root, h=h: [{"e": "newopt", "h": h if ev["rc"] == "ECONF_SUCCESS" else 0, "items": [], "rc": ev["rc"]}])
        self.live.add(h)

    def op_dump(self, h):
        # (the delimiter / comment tags are compared where the property in hand talks about them: what a write uses - C07 -, what
        # read-only calls leave alone - C10; how a merge result inherits them is nobody's property)
        def conv(ev, root, h=h):
            e = {"e": "dump", "h": h, "isnull": ev["st"] is None, "st": dump_st(ev, self.comments) or {"groups": [], "ents": []},
                 "cmp_comments": self.comments, "path": codes(self.rel(ev["st"]["path"], root)) if ev["st"] else []}
            if self.ops is None or "tags" in self.ops:
                e["tags"] = [ev["st"]["dtag"], ev["st"]["ctag"]] if ev["st"] else [0, 0]
            return [e]
        self.add("dumpx %d" % h, conv)
        return
        self.add("dumpx %d" % h, lambda ev, root, h=h: [{"e": "dump", "h": h, "isnull": ev["st"] is None, "st": dump_st(ev, self.comments) or {"groups": [], "ents": []},
                                                          "tags": [ev["st"]["dtag"], ev["st"]["ctag"]] if ev["st"] else [0, 0],
                                                          "cmp_comments": self.comments,
                                                          "path": codes(self.rel(ev["st"]["path"], root)) if ev["st"] else []}])

    def op_free(self, h):
        self.add("free %d" % h, lambda ev, root, h=h: [{"e": "free", "h": h, "ret_null": ev["ret_null"]}])
        self.live.discard(h)
        self.src.pop(h, None)

    def build(self, nops):
        self.script.append("mkdir %s" % hx(self.R + "/out"))
        self.conv.append(None)
        for _ in range(3):
            self.op_file()
        allow = lambda o: self.ops is None or o in self.ops
        for _ in range(nops):
            live = sorted(self.live)
            x = self.r.random()
            free = [h for h in range(1, 7) if h not in self.live]
            y = self.r.random()
            # the calls the root specification learnt for the repository's test programs (options, general readConfig, history,
            # process-wide drop-in directory list, typed access, listings, tags)
            if y < 0.30 and (self.ops is None or self.ops & {"readconfig", "typed", "listings", "confdirs", "readhist", "tags", "ext"}):
                z = self.r.random()
                if z < 0.35 and live and allow("ext") and (self.ops is not None and "ext" in self.ops or z < 0.08):
                    self.op_ext(self.r.choice(live)); continue
                if z < 0.25 and free and allow("readconfig"):
                    self.op_readconfig(free[0]); continue
                if z < 0.32 and allow("readhist"):
                    self.op_readhist(20); continue
                if z < 0.40 and allow("confdirs"):
                    self.op_setconfdirs(); continue
                if z < 0.55 and live and allow("typed"):
                    self.op_settyped(self.r.choice(live)); continue
                if z < 0.75 and live and allow("typed"):
                    self.op_gettyped(self.r.choice(live)); continue
                if z < 0.90 and live and allow("listings"):
                    (self.op_keys if self.r.random() < 0.6 else self.op_groups)(self.r.choice(live)); continue
                if live and allow("tags"):
                    self.op_settags(self.r.choice(live)); continue
            if x < 0.12:
                self.op_file()
            elif x < 0.24 and free and allow("read"):
                self.op_read(free[0])
            elif x < 0.32 and free and allow("readdirs"):
                self.op_readdirs(free[0])
            elif x < 0.37 and free and allow("readconfig_opt"):
                self.op_readconfig_opt(free[0])
            elif x < 0.45 and free and self.ops is not None and "readconfig" in self.ops:
                self.op_readconfig(free[0])
            elif x < 0.38 and free and allow("new"):
                self.op_new(free[0])
            elif x < 0.40 and free and allow("newoptonly"):
                self.op_newoptonly(free[0])
            elif x < 0.58 and live and allow("set"):
                self.op_set(self.r.choice(live))
            elif x < 0.70 and live and allow("get"):
                self.op_get(self.r.choice(live))
            elif x < 0.78 and len(live) >= 2 and free and allow("merge"):
                a, b = self.r.sample(live, 2)
                self.op_merge(free[0], a, b)
            elif x < 0.88 and live and allow("write"):
                self.op_write(self.r.choice(live))
            elif x < 0.97 and live:
                self.op_dump(self.r.choice(live))
            elif live:
                self.op_free(self.r.choice(live))
        for h in sorted(self.live):
            self.op_dump(h)
        for h in sorted(self.live):
            self.op_free(h)
        if self.ops is None or "confdirs" in self.ops:
            self.script.append("setconfdirs")
            self.conv.append(lambda ev, root: [])
        return self

    def events(self, evs, root):
        out = [{"e": "reset"}]
        it = iter(evs)
        for line, conv in zip(self.script, self.conv):
            op = line.split()[0]
            if op in ("file", "mkdir", "rm", "onerr_free"):
                continue
            ev = next(it, None)
            if ev is None:
                break
            if conv:
                out += conv(ev, root)
        return out


OPS = {   # every property exercises the root specification with the calls IT talks about (no misattributed alarms)
    "C02": {"read", "get", "typed", "listings", "ext"},
    "C11": {"read", "new", "set", "get", "typed", "listings"},
    "C10": {"read", "new", "newoptonly", "set", "get", "merge", "write", "tags", "listings", "ext"},
    "C07": {"read", "new", "set", "get", "write", "tags", "typed"},
    "C03": {"read", "new", "set", "get", "merge"},
    "C01": {"readdirs", "readconfig", "confdirs", "get"},
    "C13": {"read", "readdirs"},
    "C15": {"readconfig_opt", "readconfig", "get"},
    "C09": {"read", "new", "set", "typed"},
    "C17": {"read", "readdirs", "set", "ext", "write", "merge"},
    "C12": {"readdirs", "readhist", "confdirs", "get"},
    "ALL": None,
}


def empty_override_scenarios(rnd, n):
    """Targeted histories for C01: a file of higher priority that defines a key WITHOUT a value (`KEY=`, `KEY`-less forms excluded)
    overrides the value a lower file gave it - in the main file of the higher layer, in a drop-in, inside a section and outside;
    read through the two-directory read and the general one, then every key is asked for and the object dumped."""
    hs = []
    for i in range(n):
        m = Mixed(rnd, 600 + i, ops={"readdirs", "readconfig", "get"})
        m.script.append("mkdir %s" % hx(m.R + "/out"))
        m.conv.append(None)
        low = ["A=1", "B=two words", "[S]", "C=3", "D=4"]
        tree = {"/usr/etc/cfg.conf": low}
        over = rnd.sample(["A", "B", "C", "D"], rnd.randint(1, 3))
        for j, k in enumerate(over):
            f = rnd.choice(["/etc/cfg.conf", "/usr/etc/cfg.conf.d/a.conf", "/etc/cfg.conf.d/a.conf", "/etc/cfg.conf.d/b.conf"])
            lines = tree.setdefault(f, [])
            sec = k in "CD"
            if sec and "[S]" not in lines:
                lines.append("[S]")
            if not sec and "[S]" in lines:
                lines.insert(lines.index("[S]"), k + rnd.choice(["=", " =", "= "]))
            else:
                lines.append(k + rnd.choice(["=", " =", "= "]))
        for f, lines in sorted(tree.items()):
            m.files.add(f)
            m.seen_by[f] = [(None, "A"), (None, "B"), ("S", "C"), ("S", "D")]
            m.add("file %s %s" % (hx(m.R + f), hx("\n".join(lines) + "\n")), None)
            m.script.append("echo f")
            m.conv.append(lambda ev, root, f=f, lines=lines: [{"e": "file", "path": codes(f), "lines": [codes(x) for x in lines]}])
        m.op_readdirs(1)
        m.op_dump(1)
        for g, k in ((None, "A"), ("", "B"), ("S", "C"), ("[S]", "D")):
            m.op_get_exact(1, g, k)
        m.op_free(1)
        hs.append(m)
    return hs


def quoted_scenarios(rnd, n):
    """Targeted histories for the writer's quoting decision (C07): a parsed file that BEGINS with a section and holds values which
    need their quotes (outer blanks, a comment character inside), next to plain ones in varying order; then group-less keys are set
    (they are written first, so every later entry is emitted at another position than it is stored at); write, read back, dump."""
    hs = []
    pool = ['a="  two words  "', 'b="x # y"', "c=plain", 'd=" lead"', 'e="trail "', "f=p q", 'g="#"', "h=",
            'i="p # q" # behind a quoted text that holds the character itself', 'j="#" #c']
    for i in range(n):
        m = Mixed(rnd, 900 + i, ops={"read", "set", "write"})
        m.script.append("mkdir %s" % hx(m.R + "/out"))
        m.conv.append(None)
        ents = rnd.sample(pool, rnd.randint(2, 5))
        lines = ["[S]"] + ents[:len(ents) // 2 + 1] + (["[T]"] + ents[len(ents) // 2 + 1:] if len(ents) > 2 else [])
        m.files.add("/f1.conf")
        m.add("file %s %s" % (hx(m.R + "/f1.conf"), hx("\n".join(lines) + "\n")), None)
        m.script.append("echo f")
        m.conv.append(lambda ev, root, lines=lines: [{"e": "file", "path": codes("/f1.conf"), "lines": [codes(x) for x in lines]}])
        m.add("readfile 1 %s x3d x23" % hx(m.R + "/f1.conf"), lambda ev, root: [{"e": "readfile", "h": 1, "path": codes("/f1.conf"), "delim": [61], "comment": [35], "rc": ev["rc"]}])
        m.live.add(1)
        for k in rnd.sample(["n1", "n2", "n3"], rnd.randint(1, 3)):
            v = rnd.choice(["1", "x y", " z ", ""])
            g = rnd.choice([None, "", "S"])
            m.add("set String 1 %s %s %s" % (hx(g), hx(k), hx(v)), lambda ev, root, g=g, k=k, v=v: [{"e": "set", "h": 1, "g": opt(g), "k": opt(k), "v": opt(v), "rc": ev["rc"]}])
        m.op_write(1)
        f = "/out/w%d.conf" % m.nout
        m.add("readfile 2 %s x3d x23" % hx(m.R + f), lambda ev, root, f=f: [{"e": "readfile", "h": 2, "path": codes(f), "delim": [61], "comment": [35], "rc": ev["rc"]}])
        m.live.add(2)
        m.op_dump(1); m.op_dump(2); m.op_free(1); m.op_free(2)
        hs.append(m)
    return hs


def tagless_scenarios(rnd, n):
    """Targeted histories for read-only calls on objects WITHOUT delimiter / comment tag (C10): an option object used as a plain
    object is the base of a merge with a parsed file whose entries carry comments (the merge takes the tags of the base, the
    comments of the override); then the read-only calls - write, getters, listings, another merge with it as input - each followed
    by a full dump with the tags."""
    hs = []
    for i in range(n):
        m = Mixed(rnd, 800 + i, ops={"read", "set", "write", "merge", "get", "listings", "tags"})
        m.script.append("mkdir %s" % hx(m.R + "/out"))
        m.conv.append(None)
        lines = ["# about a", "a=1 # trailing", "[S]", "# about b", "b=2"][:rnd.randint(2, 5)]
        m.files.add("/f1.conf")
        m.seen_by["/f1.conf"] = [(None, "a"), ("S", "b")]
        m.add("file %s %s" % (hx(m.R + "/f1.conf"), hx("\n".join(lines) + "\n")), None)
        m.script.append("echo f")
        m.conv.append(lambda ev, root, lines=lines: [{"e": "file", "path": codes("/f1.conf"), "lines": [codes(x) for x in lines]}])
        m.op_newoptonly(1)
        if rnd.random() < 0.5:
            m.op_set(1)
        m.add("readfile 2 %s x3d x23" % hx(m.R + "/f1.conf"), lambda ev, root: [{"e": "readfile", "h": 2, "path": codes("/f1.conf"), "delim": [61], "comment": [35], "rc": ev["rc"]}])
        m.live.add(2)
        m.src[2] = ["/f1.conf"]
        m.op_merge(3, 1, 2)
        m.op_dump(3)
        for _ in range(rnd.randint(2, 6)):
            x = rnd.random()
            if x < 0.4:
                m.op_write(3)
            elif x < 0.6:
                m.op_get(3)
            elif x < 0.75:
                m.op_keys(3)
            elif x < 0.9:
                m.op_merge(4, 3, 2); m.op_dump(4); m.op_free(4)
            else:
                m.op_write(1)
            m.op_dump(3); m.op_dump(1)
        for h in (1, 2, 3):
            m.op_free(h)
        hs.append(m)
    return hs


def join_scenarios(rnd, n):
    """Targeted histories for read-only calls on an object read under JOIN_SAME_ENTRIES from exactly ONE file (the result is the
    option object itself, it keeps the option): keys defined repeatedly, then writes - also a refused one into a missing
    directory -, getters and listings, each followed by a full dump."""
    hs = []
    for i in range(n):
        m = Mixed(rnd, 700 + i, ops={"readconfig_opt", "write", "get", "listings"})
        m.optmode = "join"
        m.script.append("mkdir %s" % hx(m.R + "/out"))
        m.conv.append(None)
        lines = ["a=one", "b=1", "a=two"] + (["[S]", "c=x", "c=y", "c=z"] if rnd.random() < 0.6 else []) + (["a=three"] if rnd.random() < 0.3 else [])
        f = "/etc/cfg.conf"
        m.files.add(f)
        m.seen_by[f] = [(None, "a"), (None, "b"), ("S", "c")]
        m.add("file %s %s" % (hx(m.R + f), hx("\n".join(lines) + "\n")), None)
        m.script.append("echo f")
        m.conv.append(lambda ev, root, f=f, lines=lines: [{"e": "file", "path": codes(f), "lines": [codes(x) for x in lines]}])
        m.op_readconfig_opt(1)
        m.src[1] = [f]
        m.op_dump(1)
        for _ in range(rnd.randint(2, 6)):
            x = rnd.random()
            if x < 0.45:
                m.op_write(1)
            elif x < 0.6:
                m.add("write 1 %s %s" % (hx(m.R + "/no/such/dir"), hx("w.conf")), lambda ev, root: [{"e": "write", "h": 1, "path": codes("/no/such/dir/w.conf"), "rc": ev["rc"], "dir_ok": False}])
            elif x < 0.8:
                m.op_get(1)
            else:
                m.op_keys(1)
            m.op_dump(1)
        m.op_free(1)
        hs.append(m)
    return hs


def run_mixed(exe, rnd, n, verdict, pid, nops=(10, 60), comments=False):
    hs = [Mixed(rnd, i, ops=OPS.get(pid), comments=comments, errloc=(pid in ("C13", "ALL")), bad_rate=0.4 if pid == "C13" else (0.06 if pid == "ALL" else 0.0)).build(rnd.randint(*nops)) for i in range(n)]
    if pid == "C01":
        hs += empty_override_scenarios(rnd, max(40, n // 4))
    if pid == "C07":
        hs += quoted_scenarios(rnd, max(40, n // 3))
    if pid == "C10":
        hs += tagless_scenarios(rnd, max(40, n // 3)) + join_scenarios(rnd, max(30, n // 4))
    res = core.run_cases(exe, [(i, h.script) for i, h in enumerate(hs)])
    events = []
    spans = []
    for i, h in enumerate(hs):
        out = res.get(i)
        if out is None or out["crash"]:
            nev = len((out or {}).get("ev", []))
            printing = [l for l in h.script if l.split()[0] not in ("file", "mkdir", "rm", "onerr_free")]
            culprit = printing[nev] if nev < len(printing) else "?"
            verdict.violation("%s:mixed:crash:%s" % (pid, culprit.split()[0]), {"kind": "script", "script": h.script, "crash": (out or {}).get("crash")},
                              "mixed API history crashed at `%s`\n%s" % (culprit[:120], (out or {}).get("crash", "")[:900]))
            continue
        evs = h.events(out["ev"], out["root"])
        spans.append((len(events), len(events) + len(evs), i))
        events += evs
    if not events:
        return 0
    ok, tr, _ = core.validate_trace("Trace_Econf", os.path.join(core.SPEC, "Trace_Econf.cfg"), events, timeout=3000)
    mism = [x for x in tr.json_lines() if "mismatch" in x]
    if not ok and not mism:
        raise core.ToolFailure("Trace_Econf did not consume the trace:\n" + tr.out[-2500:])
    bad = set()
    for x in mism:
        j = x["mismatch"] - 1
        for a, b, i in spans:
            if a <= j < b and i not in bad:
                bad.add(i)
                ev = events[j]
                prev = [e for e in events[a:j] if e["e"] not in ("file",)][-4:]
                verdict.violation("%s:mixed:%s" % (pid, ev["e"]), {"kind": "script", "script": hs[i].script, "event": ev, "before": prev, "spec": x.get("spec")},
                                  "mixed API history rejected by the root specification (Trace_Econf) at event %d: %s\nprevious: %s\nspecification expects: %s" % (
                                      j - a, json.dumps(ev)[:600], json.dumps(prev)[:700], canon(x.get("spec"))[:700]))
    return len(spans) - len(bad)
