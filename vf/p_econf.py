"""Mixed API histories validated against the ROOT specification (spec/Econf.tla via Trace_Econf.tla):
files written by the harness, single-file and two-directory layered reads, setters, getters, merges,
econf_writeFile followed by reads of the written file, dumps, the error-location record, frees.
The specification predicts every result end to end (Parser -> object -> Merge -> Writer -> Parser ...).
Used by the C07, C10 and C11 checks as an additional binding of the composed behaviour."""
import json
import os
import random

from . import core
from .core import hx, codes, ROOT, canon
from .p_parser import file_bytes

SECS = [None, "", "A", "[A]", "B", "C c"]
KEYS = ["x", "y", "z", "k1", "k2"]
VALS = ["v", "a b", "", "12", "x=y", "v\n w", "true", "No", "v\n w\n\tx y", "0x10"]
FILES = ["/f1.conf", "/f2.conf", "/usr/etc/cfg.conf", "/etc/cfg.conf", "/usr/etc/cfg.conf.d/a.conf", "/usr/etc/cfg.conf.d/b.conf",
         "/etc/cfg.conf.d/a.conf", "/etc/cfg.conf.d/c.conf", "/usr/etc/cfg.conf.d/note.txt"]


def opt(s):
    return [] if s is None else [codes(s)]


def dump_st(d, comments=True):
    st = d.get("st")
    if st is None:
        return None
    ents = []
    for sec in st["secs"]:
        for k in sec["keys"]:
            ents.append({"g": codes(sec["g"]) if sec["g"] is not None else [], "k": codes(k["k"]), "v": codes(k["v"]) if k["v"] is not None else [],
                         "cb": codes((k.get("cb") or "") if comments else ""), "ca": codes((k.get("ca") or "") if comments else "")})
    return {"groups": [codes(g) for g in st["groups"]], "ents": ents}


class Mixed:
    def __init__(self, rnd, idx, ops=None, comments=False, errloc=False, bad_rate=0.06):
        self.ops = ops            # None = everything
        self.comments = comments  # compare comments in dumps (beyond every registered property: own use only)
        self.with_errloc = errloc
        self.bad_rate = bad_rate
        self.r = rnd
        # C15 histories: one parsing option per history; files are generated from THAT option's grammar (the property is
        # silent about files outside it)
        self.optmode = rnd.choice(["python", "join"]) if ops and "readconfig_opt" in ops else "none"
        self.R = ROOT + "/mx%d" % (idx % 16)
        self.script = ["rm %s" % hx(self.R)]
        self.conv = [None]
        self.live = set()
        self.files = set()
        self.nout = 0

    def add(self, line, conv):
        self.script.append(line)
        self.conv.append(conv)

    def rel(self, p, root):
        p = p.replace(root + "/" + self.R.split("/")[-1], "")
        while "//" in p:
            p = p.replace("//", "/")
        return p

    def op_file(self):
        from gen import gram
        f = self.r.choice(FILES)
        g = gram.random_file(self.r, self.r.randint(1, 8), self.optmode, self.bad_rate, D="=", C="#")
        self.files.add(f)
        # framing (Parser.tla FileBytes): the final newline is optional and means nothing
        fnl = not (g["lines"] and g["lines"][-1] and self.r.random() < 0.25)
        self.add("file %s %s" % (hx(self.R + f), hx(file_bytes(g["lines"], fnl))), None)
        lines = g["lines"]
        self.script.append("echo f")
        self.conv.append(lambda ev, root, f=f, lines=lines: [{"e": "file", "path": codes(f), "lines": lines}])

    def op_read(self, h):
        f = self.r.choice(sorted(self.files) + ["/missing.conf"]) if self.files else "/missing.conf"
        self.add("readfile %d %s x3d x23" % (h, hx(self.R + f)),
                 lambda ev, root, h=h, f=f: [{"e": "readfile", "h": h, "path": codes(f), "delim": [61], "comment": [35], "rc": ev["rc"]}])
        self.live.add(h)
        self.errloc()

    def op_readdirs(self, h):
        self.add("readdirs %d %s %s %s %s x3d x23" % (h, hx(self.R + "/usr/etc"), hx(self.R + "/etc"), hx("cfg"), hx(self.r.choice(["conf", ".conf"]))),
                 lambda ev, root, h=h: [{"e": "readdirs", "h": h, "dirs": [codes("/usr/etc"), codes("/etc")], "name": codes("cfg"), "sfx": codes("conf"),
                                         "delim": [61], "comment": [35], "python": False, "join": False, "rc": ev["rc"]}])
        self.live.add(h)
        self.errloc()

    def op_readconfig_opt(self, h):
        """layered read through an option object: PYTHON_STYLE / JOIN_SAME_ENTRIES apply to the main file AND to every drop-in"""
        py = (self.optmode == "python") if self.optmode != "none" else self.r.random() < 0.5
        opt = ("PYTHON_STYLE=1" if py else "JOIN_SAME_ENTRIES=1") + ";PARSING_DIRS=%s/usr/etc:%s/etc" % (self.R, self.R)
        self.script.append("newopt %d %s" % (h, hx(opt)))
        self.conv.append(lambda ev, root: [])
        self.add("readconfig %d - - %s %s x3d x23" % (h, hx("cfg"), hx("conf")),
                 lambda ev, root, h=h, py=py: [{"e": "readdirs", "h": h, "dirs": [codes("/usr/etc"), codes("/etc")], "name": codes("cfg"), "sfx": codes("conf"),
                                               "delim": [61], "comment": [35], "python": py, "join": not py, "rc": ev["rc"]}])
        # a failed read leaves the caller's option object in place: release it so that the model (Null after failure) and the
        # library agree again
        self.script.append("onerr_free %d" % h)
        self.conv.append(None)
        self.live.add(h)

    def errloc(self):
        if not self.with_errloc:
            return
        self.add("errloc", lambda ev, root: [{"e": "errloc", "file": codes(self.rel(ev["file"] or "", root)), "line": ev["line"]}])

    def op_new(self, h):
        self.add("newkf %d x3d x23" % h, lambda ev, root, h=h: [{"e": "new", "h": h, "d": 61, "c": 35, "rc": ev["rc"]}])
        self.live.add(h)

    def op_set(self, h):
        g, k, v = self.r.choice(SECS), self.r.choice(KEYS), self.r.choice(VALS)
        self.add("set String %d %s %s %s" % (h, hx(g), hx(k), hx(v)),
                 lambda ev, root, h=h, g=g, k=k, v=v: [{"e": "set", "h": h, "g": opt(g), "k": opt(k), "v": opt(v), "rc": ev["rc"]}])

    def op_get(self, h):
        g, k = self.r.choice(SECS), self.r.choice(KEYS + ["a", "b"])
        self.add("get String %d %s %s" % (h, hx(g), hx(k)),
                 lambda ev, root, h=h, g=g, k=k: [{"e": "get", "h": h, "g": opt(g), "k": opt(k), "rc": ev["rc"], "out": opt(ev.get("out"))}])

    def op_merge(self, h, a, b):
        self.add("merge %d %d %d" % (h, a, b), lambda ev, root, h=h, a=a, b=b: [{"e": "merge", "h": h, "a": a, "b": b, "rc": ev["rc"]}])
        self.live.add(h)

    def op_write(self, h):
        self.nout += 1
        f = "/out/w%d.conf" % self.nout
        self.add("write %d %s %s" % (h, hx(self.R + "/out"), hx("w%d.conf" % self.nout)),
                 lambda ev, root, h=h, f=f: [{"e": "write", "h": h, "path": codes(f), "rc": ev["rc"]}])
        self.files.add(f)

    def op_dump(self, h):
        self.add("dumpx %d" % h, lambda ev, root, h=h: [{"e": "dump", "h": h, "isnull": ev["st"] is None, "st": dump_st(ev, self.comments) or {"groups": [], "ents": []},
                                                          "cmp_comments": self.comments,
                                                          "path": codes(self.rel(ev["st"]["path"], root)) if ev["st"] else []}])

    def op_free(self, h):
        self.add("free %d" % h, lambda ev, root, h=h: [{"e": "free", "h": h, "ret_null": ev["ret_null"]}])
        self.live.discard(h)

    def build(self, nops):
        self.script.append("mkdir %s" % hx(self.R + "/out"))
        self.conv.append(None)
        for _ in range(3):
            self.op_file()
        allow = lambda o: self.ops is None or o in self.ops
        for _ in range(nops):
            live = sorted(self.live)
            x = self.r.random()
            free = [h for h in range(1, 7) if h not in self.live]
            if x < 0.12:
                self.op_file()
            elif x < 0.24 and free and allow("read"):
                self.op_read(free[0])
            elif x < 0.32 and free and allow("readdirs"):
                self.op_readdirs(free[0])
            elif x < 0.37 and free and allow("readconfig_opt"):
                self.op_readconfig_opt(free[0])
            elif x < 0.38 and free and allow("new"):
                self.op_new(free[0])
            elif x < 0.58 and live and allow("set"):
                self.op_set(self.r.choice(live))
            elif x < 0.70 and live and allow("get"):
                self.op_get(self.r.choice(live))
            elif x < 0.78 and len(live) >= 2 and free and allow("merge"):
                a, b = self.r.sample(live, 2)
                self.op_merge(free[0], a, b)
            elif x < 0.88 and live and allow("write"):
                self.op_write(self.r.choice(live))
            elif x < 0.97 and live:
                self.op_dump(self.r.choice(live))
            elif live:
                self.op_free(self.r.choice(live))
        for h in sorted(self.live):
            self.op_dump(h)
        for h in sorted(self.live):
            self.op_free(h)
        return self

    def events(self, evs, root):
        out = [{"e": "reset"}]
        it = iter(evs)
        for line, conv in zip(self.script, self.conv):
            op = line.split()[0]
            if op in ("file", "mkdir", "rm", "onerr_free"):
                continue
            ev = next(it, None)
            if ev is None:
                break
            if conv:
                out += conv(ev, root)
        return out


OPS = {   # every property exercises the root specification with the calls IT talks about (no misattributed alarms)
    "C11": {"read", "new", "set", "get"},
    "C10": {"read", "new", "set", "get"},
    "C07": {"read", "new", "set", "get", "write"},
    "C03": {"read", "new", "set", "get", "merge"},
    "C01": {"readdirs", "get"},
    "C13": {"read", "readdirs"},
    "C15": {"readconfig_opt", "get"},
    "ALL": None,
}


def run_mixed(exe, rnd, n, verdict, pid, nops=(10, 60), comments=False):
    hs = [Mixed(rnd, i, ops=OPS.get(pid), comments=comments, errloc=(pid in ("C13", "ALL")), bad_rate=0.4 if pid == "C13" else (0.06 if pid == "ALL" else 0.0)).build(rnd.randint(*nops)) for i in range(n)]
    res = core.run_cases(exe, [(i, h.script) for i, h in enumerate(hs)])
    events = []
    spans = []
    for i, h in enumerate(hs):
        out = res.get(i)
        if out is None or out["crash"]:
            nev = len((out or {}).get("ev", []))
            printing = [l for l in h.script if l.split()[0] not in ("file", "mkdir", "rm", "onerr_free")]
            culprit = printing[nev] if nev < len(printing) else "?"
            verdict.violation("%s:mixed:crash:%s" % (pid, culprit.split()[0]), {"kind": "script", "script": h.script, "crash": (out or {}).get("crash")},
                              "mixed API history crashed at `%s`\n%s" % (culprit[:120], (out or {}).get("crash", "")[:900]))
            continue
        evs = h.events(out["ev"], out["root"])
        spans.append((len(events), len(events) + len(evs), i))
        events += evs
    if not events:
        return 0
    ok, tr, _ = core.validate_trace("Trace_Econf", os.path.join(core.SPEC, "Trace_Econf.cfg"), events, timeout=3000)
    mism = [x for x in tr.json_lines() if "mismatch" in x]
    if not ok and not mism:
        raise core.ToolFailure("Trace_Econf did not consume the trace:\n" + tr.out[-2500:])
    bad = set()
    for x in mism:
        j = x["mismatch"] - 1
        for a, b, i in spans:
            if a <= j < b and i not in bad:
                bad.add(i)
                ev = events[j]
                prev = [e for e in events[a:j] if e["e"] not in ("file",)][-4:]
                verdict.violation("%s:mixed:%s" % (pid, ev["e"]), {"kind": "script", "script": hs[i].script, "event": ev, "before": prev, "spec": x.get("spec")},
                                  "mixed API history rejected by the root specification (Trace_Econf) at event %d: %s\nprevious: %s\nspecification expects: %s" % (
                                      j - a, json.dumps(ev)[:600], json.dumps(prev)[:700], canon(x.get("spec"))[:700]))
    return len(spans) - len(bad)
