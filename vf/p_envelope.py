"""C04 / C14 — arbitrary content and long fields: the specification is an ENVELOPE here
(spec/Envelope.tla); memory safety is observed by AddressSanitizer + UBSan + the driver watchdog.

C04 universes (DESIGN 5.7): (a) every byte string up to a length over the structural alphabet
    extended with NUL and 0xff; (b) byte-level mutations of conventional files; (c) random bytes;
    each x delimiter sets x comment sets x {default, JOIN_SAME_ENTRIES, PYTHON_STYLE}.  For every input
    the driver's `envelope` command reads, and on success calls every listing, all typed / defaulted /
    extended getters on every listed key, merges with two partners in both roles, writes and re-reads.
C14: field kind x length across BUFSIZ, 64 Ki, 1 Mi and NAME_MAX / PATH_MAX through every API that
    copies the field; Envelope!TLong demands out_len = len with intact head and tail markers."""
import itertools
import json
import os
import random
import time

from . import core
from .core import hx, ROOT

ALPHA = [b" ", b"\t", b"\n", b"=", b":", b"#", b";", b'"', b"[", b"]", b"a", b"1", b"\x00", b"\xff"]
PARAMS = [("=", "#", 0), (" \t", "#;", 0), (":=", ";", 1), ("=", "#", 2), ("", "#", 0), (" =", "#", 0)]


def env_case(i, data, delim, comment, mode):
    R = ROOT + "/e%d" % (i % 16)
    p = R + "/etc/p.conf"
    big = ["watchdog 300"] if len(data) > 20000 else []      # thousands of entries through 17 getters each and 4 merges: quadratic
    return big + ["file %s %s" % (hx(p), hx(data)), "envelope %s %s %s %d %s" % (hx(p), hx(delim), hx(comment), mode, hx(R + "/out"))] + (["watchdog 20"] if big else [])


def run_env(exe, inputs, verdict, pid="C04"):
    """inputs: list of (data bytes, delim, comment, mode). Returns aggregated class events, counters."""
    # several inputs per driver case to keep process/IO overhead low; crash isolation by re-running singly
    batch = 200
    cases = []
    members = {}
    cur, curbytes = [], 0
    for k, (data, d, c, m) in enumerate(inputs):
        # a batch is closed after 200 inputs or ~60 kB of content (big inputs take long: few of them per process)
        if cur and (len(cur) >= batch or curbytes + len(data) > 60000):
            cases.append((cur[0], cur)); cur, curbytes = [], 0
        cur.append(k); curbytes += len(data)
    if cur:
        cases.append((cur[0], cur))
    for b, ks in cases:
        members[b] = ks
    cases = [(b, [ln for k in ks for ln in (["echo %d" % k] + env_case(k, *inputs[k]))]) for b, ks in cases]
    res = core.run_cases(exe, cases, per_case_timeout=1300)
    classes = {}
    n_ok = n_parse = 0
    redo = []
    for b, _ in cases:
        out = res.get(b)
        ev = (out or {}).get("ev", [])
        cur = None
        done = set()
        for e in ev:
            if e["op"] == "echo":
                cur = int(e["id"])
            elif e["op"] == "envelope" and cur is not None:
                done.add(cur)
                key = (e["rc"], e["obj"], e["rcs_ok"], e["write_rc"], e["reread_rc"])
                classes[key] = classes.get(key, 0) + 1
                if e["rc"] == "ECONF_SUCCESS" and e["nkeys"] > 0:
                    n_ok += 1
                elif e["rc"] not in ("ECONF_SUCCESS", "ECONF_NOFILE"):
                    n_parse += 1
        if out is None or out["crash"]:
            # the input after the last completed one is the culprit; run the rest one by one
            rest = [k for k in members[b] if k not in done]
            redo += rest
    crashes = 0
    if redo:
        single = [(k, env_case(k, *inputs[k])) for k in redo]
        r2 = core.run_cases(exe, single, per_case_timeout=400)
        for k in redo:
            out = r2.get(k)
            data, d, c, m = inputs[k]
            if out is None or out["crash"]:
                crashes += 1
                kind = "hang" if "timeout" in ((out or {}).get("crash") or "") else "memory"
                where = ""
                cr = (out or {}).get("crash") or ""
                for ln in cr.splitlines():
                    if "/repo/lib/" in ln:
                        where = ln.split("/repo/lib/")[1].split(")")[0].strip()
                        break
                verdict.violation("%s:%s:%s" % (pid, kind, where.split(":")[0] if where else "?"),
                                  {"kind": "bytes", "data": list(data), "delim": d, "comment": c, "mode": m, "crash": cr},
                                  "file content %r (delimiters %r, comment %r, option mode %d): %s at %s\n%s" % (bytes(data), d, c, m, kind, where, cr[:900]))
                classes[("CRASH", False, False, "-", "-")] = classes.get(("CRASH", False, False, "-", "-"), 0) + 1
            else:
                for e in out["ev"]:
                    if e["op"] == "envelope":
                        key = (e["rc"], e["obj"], e["rcs_ok"], e["write_rc"], e["reread_rc"])
                        classes[key] = classes.get(key, 0) + 1
    events = [{"e": "class", "rc": k[0], "obj": k[1], "rcs_ok": k[2], "write_rc": k[3], "reread_rc": k[4], "n": n, "ended": k[0] != "CRASH"} for k, n in sorted(classes.items())]
    return events, n_ok, n_parse, crashes


def mutate(rnd, data):
    data = bytearray(data)
    for _ in range(rnd.randint(1, 3)):
        op = rnd.random()
        pos = rnd.randrange(len(data) + 1)
        if op < 0.3 and data:
            del data[min(pos, len(data) - 1)]
        elif op < 0.6:
            data.insert(pos, rnd.choice(b" \t\n=:#;\"[]a1\x00\xff\\"))
        elif op < 0.9 and data:
            data[min(pos, len(data) - 1)] = rnd.choice(b" \t\n=:#;\"[]a1\x00\xff\\")
        elif op < 0.95:
            # a word the library itself uses as a marker, in a place of its own or inside a line
            data[pos:pos] = rnd.choice([b"_none_", b"[_none_]\n", b"\n[_none_]\n", b"(null)", b"_none_=", b"=_none_\n",
                                        # text that means something to the formatting functions
                                        b"%s", b"%n", b"%s%s%s%s%s%s", b"%99999999d", b"%%", b"%1$s", b"%*d", b"%ls", b"\\n", b"%c%c%c%c%c%c%c%c%c%c%hn"])
        else:
            data = data[:pos]
    return bytes(data)


def count_sweep(tier):
    """Cardinality sweeps: conventional files in which ONE structure is repeated n times, for every n in a range that
    crosses the growth steps of the object's arrays and lists (the partners of the envelope's merges add 1..3 more)."""
    ns = list(range(0, 73 if tier == "quick" else 301)) + [127, 128, 129, 255, 256, 257, 511, 512, 513, 1023, 1024, 1025]
    if tier == "thorough":
        ns += [4095, 4096, 4097]
    out = []
    for n in sorted(set(ns)):
        files = [
            b"".join(b"[s%d]\n" % i for i in range(n)),                                   # header-only sections
            b"".join(b"[s%d]\nk=%d\n" % (i, i) for i in range(n)),                         # sections with one key
            b"g=0\n" + b"".join(b"[s%d]\nk=%d\nl=%d\n" % (i, i, i) for i in range(n)),     # group-less key + sections with two keys
            b"".join(b"k%d=%d\n" % (i, i) for i in range(n)),                              # group-less keys
            b"[s]\n" + b"".join(b"k%d=%d\n" % (i, i) for i in range(n)),                   # keys of one section
            b"".join(b"k=%d\n" % i for i in range(n)),                                    # one key repeated
            b"k=v\n" + b"".join(b" c%d\n" % i for i in range(n)),                          # continuation lines
            b"".join(b"# c%d\n" % i for i in range(n)) + b"k=v\n",                         # comment lines before an entry
            b"".join(b"k%d\n" % i for i in range(n)),                                     # keys without delimiter
            b"".join(b"[%s]\nk%d=1\n" % (b"ab"[i % 2:i % 2 + 1], i) for i in range(n)),      # two sections re-opened alternately
        ]
        for j, data in enumerate(files):
            out.append((data, "=", "#", 0))
            if n <= 80:
                out.append((data, "=", "#", 1))                                           # JOIN_SAME_ENTRIES
                if j in (3, 6, 8):
                    out.append((data, " \t", "#;", 0))
    return out


def run_sweep(tier):
    """Run-length sweeps: ONE structural character repeated n times behind a key, behind a delimiter, in front of an entry - for
    every n across the growth steps of the line buffer (getline starts at 120 bytes and doubles), with and without the final
    newline, under plain / blank / mixed delimiter sets: the places where 'the rest of the line' is empty, all blanks, or ends
    exactly at the end of the allocation."""
    ns = list(range(0, 8)) + [n + d for n in (120, 240, 480, 960, 1920, 3840, 7680) for d in (-4, -3, -2, -1, 0, 1, 2)] + [8190, 8191, 8192, 8193]
    if tier == "thorough":
        ns = sorted(set(ns + list(range(0, 260))))
    out = []
    for c in (b" ", b"\t", b"=", b"#", b'"', b"[", b"]", b":", b";"):
        for n in ns:
            run = c * n
            for data in (b"k" + run, b"k=" + run, b"k " + run, run + b"k=v", b"a=1\nk" + run, b"[s]" + run):
                for nl in (b"", b"\n"):
                    for d, cm, m in ((" =", "#", 0), ("=", "#;", 0), (" \t", "#", 0)):
                        out.append((data + nl, d, cm, m))
    return out


def check_c04(exe, tier, seed, verdict):
    rnd = random.Random(seed)
    inputs = []
    maxlen = 5 if tier == "quick" else 6
    alpha = ALPHA[:12]
    for n in range(0, 4):                      # NUL and 0xff: all strings up to length 3 over the full alphabet
        for tup in itertools.product(ALPHA, repeat=n):
            if b"\x00" in tup or b"\xff" in tup:
                inputs.append((b"".join(tup), "=", "#", 0))
                inputs.append((b"k=v\n" + b"".join(tup), " =", "#;", 0))
    nstr = 0
    for n in range(0, maxlen + 1):
        for tup in itertools.product(alpha, repeat=n):
            data = b"".join(tup)
            nstr += 1
            # the full product with the first two parameter sets, the others on a sample
            inputs.append((data, PARAMS[0][0], PARAMS[0][1], PARAMS[0][2]))
            if n >= 3 and rnd.random() < (0.2 if tier == "quick" else 0.1):
                d, c, m = rnd.choice(PARAMS[1:])
                inputs.append((data, d, c, m))
    # every file of up to 4 (5) lines over a pool in which the library's own marker word appears as section, key and value
    for v in (b"%s%s%s%s%s%s%s%s", b"%n", b"%99999999d", b"%%", b"100%", b"%1$s %2$s", b"%*.*f", b"%hhn%n%ln"):
        for tmpl in (b"k=%b\n", b"[%b]\nk=1\n", b"%b=1\n", b"# %b\nk=1 # %b\n", b"k=\"%b\"\n", b"k=a\n %b\n"):
            for d_, c_, m_ in (("=", "#", 0), ("=", "#", 1), (" =", "#;", 0)):
                inputs.append((tmpl.replace(b"%b", v), d_, c_, m_))
    pool = [b"[_none_]", b"[a]", b"k=1", b"j=2", b"_none_=1", b"k=_none_", b"", b"_none_"]
    for n in range(1, 5 if tier == "quick" else 6):
        for tup in itertools.product(pool, repeat=n):
            inputs.append((b"\n".join(tup) + b"\n", "=", "#", 0))
            if n <= 3:
                inputs.append((b"\n".join(tup) + b"\n", "=", "#", 1))
    from gen import gram
    nmut = 30000 if tier == "quick" else 400000
    for _ in range(nmut):
        f = gram.random_file(rnd, rnd.randint(1, 10), rnd.choice(["none", "none", "join", "python"]), 0.1)
        data = b"\n".join(bytes(l) for l in f["lines"]) + (b"\n" if rnd.random() < 0.8 else b"")
        data = mutate(rnd, data)
        mode = 1 if f["par"]["join"] else 2 if f["par"]["python"] else 0
        inputs.append((data, bytes(f["par"]["delim"]).decode("latin-1"), bytes(f["par"]["comment"]).decode("latin-1"), mode))
    for _ in range(1000 if tier == "quick" else 50000):
        data = bytes(rnd.randrange(256) for _ in range(rnd.randint(0, 200)))
        d, c, m = rnd.choice(PARAMS)
        inputs.append((data, d, c, m))
    # very long lines / only structural characters
    for ch in b"[]=#\" \t\\":
        for n in (8190, 8192, 8193, 70000):
            inputs.append((bytes([ch]) * n, "=", "#", 0))
            inputs.append((b"k=" + bytes([ch]) * n + b"\n x\n", "=", "#;", rnd.choice([0, 1, 2])))
    ncount = len(inputs)
    inputs += count_sweep(tier)
    ncount = len(inputs) - ncount
    nrun = len(inputs)
    inputs += run_sweep(tier)
    nrun = len(inputs) - nrun
    events, n_ok, n_parse, crashes = run_env(exe, inputs, verdict)
    # the same kind of content as the LAST of several drop-ins of a layered read (a main file and two well-formed drop-ins come
    # first): whatever is wrong with it, the read answers with a code - through the merged-result and the history entry points
    lrnd = random.Random(seed + 9)
    lsample = lrnd.sample(inputs, min(len(inputs), 600 if tier == "quick" else 6000)) + [(b"[broken\n", "=", "#", 0), (b"k v\n", "=", "#", 0), (b"[]\n", "=", "#", 0), (b"[a] x\n", "=", "#", 0)] * 3
    lcases = []
    for j, (data, d_, c_, m_) in enumerate(lsample):
        T_ = ROOT + "/lay%d" % (j % 16)
        ndrop = 2 + j % 3
        # the main file: group-less keys / sections only / empty in turn (what a merge does with the override's entries depends on
        # which of these the base has); the merged result is USED (every listing and value) before it is released
        dl = (d_ or "=")[-1]
        sc = ["rm %s" % hx(T_), "file %s %s" % (hx(T_ + "/etc/c.conf"), hx(["m%s1\n" % dl, "[M]\nm%s1\n" % dl, ""][j % 3]))]
        sc += ["file %s %s" % (hx(T_ + "/%s/c.conf.d/%02d.conf" % ("usr" if q % 2 else "etc", q)), hx("d%d%s1\n" % (q, (d_ or "=")[-1]))) for q in range(ndrop)]
        sc += ["file %s %s" % (hx(T_ + "/etc/c.conf.d/zz.conf"), hx(data)),
               "readdirs 1 %s %s %s %s %s %s" % (hx(T_ + "/usr"), hx(T_ + "/etc"), hx("c"), hx("conf"), hx(d_), hx(c_)), "dumpx 1", "free 1",
               "readhist 2 %s %s %s %s %s %s" % (hx(T_ + "/usr"), hx(T_ + "/etc"), hx("c"), hx("conf"), hx(d_), hx(c_))] + ["free %d" % q for q in range(2, 9)]
        lcases.append((j, sc))
    lres = core.run_cases(exe, lcases)
    for j, (data, d_, c_, m_) in enumerate(lsample):
        out = lres.get(j)
        if out is None or out["crash"]:
            verdict.violation("C04:layered:crash", {"kind": "layered", "data": list(data[:400]), "delim": d_, "comment": c_, "crash": (out or {}).get("crash")},
                              "file content %r as the last of several drop-ins (delimiters %r, comment %r): memory error / crash\n%s" % (data[:120], d_, c_, ((out or {}).get("crash") or "")[:800]))
        else:
            n_ok += 1
    # big files on a thread with a 256 KiB stack (uninstrumented build): what a read puts on the stack must not grow with the
    # number of lines or the size of the file
    big = {"many-entries": b"".join(b"key%d=value %d\n" % (i, i) for i in range(60000)),
           "many-sections": b"".join(b"[s%d]\nk=%d\n" % (i, i) for i in range(30000)),
           "many-comment-lines": b"".join(b"# comment line number %d\n" % i for i in range(50000)) + b"k=v\n",
           "many-continuation-lines": b"k=v\n" + b"".join(b"  continued %d\n" % i for i in range(50000)),
           "one-long-line": b"k=" + b"v" * 3000000 + b"\n"}
    bcases = []
    for nm, data in big.items():
        pth = ROOT + "/bigstack/%s.conf" % nm
        bcases.append((nm, ["watchdog 900", "file %s %s" % (hx(pth), hx(data)), "readfile 1 %s x3d x23" % hx(pth), "groups 1", "free 1",
                            "newopt 2 %s" % hx("JOIN_SAME_ENTRIES=1;ROOT_PREFIX=" + ROOT + "/bigstack/r-" + nm), "file %s %s" % (hx(ROOT + "/bigstack/r-" + nm + "/etc/c.conf"), hx(data)),
                            "readconfig 2 - - %s %s x3d x23" % (hx("c"), hx("conf")), "free 2"]))
    bres = core.run_cases(core.build("plain"), bcases, per_case_timeout=900, env={"DRV_STACK_KB": "256"})
    for nm, _ in bcases:
        out = bres.get(nm)
        rds = [e for e in (out or {}).get("ev", []) if e["op"].startswith("read")]
        if out is None or out["crash"] or len(rds) != 2 or any(e["rc"] != "ECONF_SUCCESS" for e in rds):
            verdict.violation("C04:small-stack:%s" % nm, {"kind": "bigfile", "name": nm, "bytes": len(big[nm]), "crash": (out or {}).get("crash"), "reads": rds},
                              "file %s (%d bytes) read on a thread with a 256 KiB stack: %s" % (nm, len(big[nm]), (out or {}).get("crash") or [e["rc"] for e in rds]))
        else:
            n_ok += 2
    ok, tr, _ = core.validate_trace("Envelope", os.path.join(core.SPEC, "Envelope.cfg"), events, timeout=600)
    mism = [x for x in tr.json_lines() if "mismatch" in x]
    if not ok and not mism:
        raise core.ToolFailure("Envelope did not consume the trace:\n" + tr.out[-2000:])
    for x in mism:
        e = events[x["mismatch"] - 1]
        if e["rc"] == "CRASH":
            continue          # reported above with the failing input
        verdict.violation("C04:envelope:%s" % e["rc"], {"kind": "class", "event": e}, "outside the envelope: %s (%d inputs)" % (json.dumps(e), e["n"]))
    cov = {"evaluations": len(inputs), "distinct_nontrivial": n_ok + n_parse,
           "rule": "(plus a sample of the inputs as the LAST of three to five drop-ins of a layered read behind a main file with group-less keys / with sections only / without content in turn, merged-result (used through every listing and getter afterwards) and history entry points; plus five big files - 60000 entries, 30000 sections, 50000 comment lines, 50000 continuation lines, one line of 3 MB - read plainly and under JOIN_SAME_ENTRIES on a thread with a 256 KiB stack; plus every file of <= 4 lines over a pool in which the library's own marker word _none_ appears as section name, key and value, and that word and printf conversion specifications as value, key, section name, comment, continuation - among the mutations) every byte string of length <= %d over the %d-symbol structural alphabet (blank, tab, newline, = : # ; \" [ ] a 1, NUL, 0xff): %d strings with delimiter '=' comment '#', a sample with the other parameter sets (blank / mixed / no delimiters, JOIN_SAME_ENTRIES, PYTHON_STYLE); %d byte-level mutations (insert/delete/replace/truncate, 1-3 edits) of random conventional files of all grammars; random byte strings; very long lines of structural characters around BUFSIZ; %d cardinality sweeps (every count 0..%d, and around 128/256/512/1024, of: distinct sections with 0/1/2 keys, keys without / in one section, repetitions of one key, continuation lines, comment lines, keys without delimiter, re-opened sections - the counts at which the object's arrays and lists grow); %d run-length sweeps (one structural character repeated n times behind a key / a delimiter / a header or in front of an entry, n across the growth steps 120, 240, ... 7680, 8192 of the line buffer, with and without final newline, plain / blank / mixed delimiter sets). Each input: read; on success every listing, 17 getter calls on every key, 4 merges, write, re-read. Aggregated event classes validated by Envelope.tla; ASan/UBSan abort = violation with the input. non-trivial = read succeeded with >= 1 entry (%d) or failed with a parse error (%d)." % (
               maxlen, len(alpha), nstr, nmut, ncount, 72 if tier == "quick" else 300, nrun, n_ok, n_parse),
           "samples": events[:4], "exhaustive": False, "event_classes": len(events), "crashing_inputs": crashes,
           "trusted_base": ["gcc ASan/UBSan", "driver watchdog (20 s alarm per case)", "TLC 1.8.0 (envelope classes)"]}
    return cov


KINDS = ["value", "quoted", "key", "section", "contline", "cbefore", "cafter", "cbefore3", "cafter3", "joined", "lastline", "lastcont"]     # (last two: the last line of a file without final newline)


def check_c14(exe, tier, seed, verdict):
    BUFSIZ = 8192
    lens = [1, BUFSIZ - 2, BUFSIZ - 1, BUFSIZ, BUFSIZ + 1, BUFSIZ + 2, 2 * BUFSIZ, 65536] + ([1 << 20] if tier == "thorough" else [200000])
    cases = []
    for kind in KINDS:
        for n in lens:
            cases.append(("%s-%d" % (kind, n), ["longprobe %s %d %s" % (kind, n, hx(ROOT + "/lg"))]))
    # dense sweep: every length that crosses the small growth steps (64, 128, 256, ...) and the stdio buffer size
    dense = list(range(1, 331 if tier == "quick" else 1100)) + list(range(BUFSIZ - 70, BUFSIZ + 71)) + \
        ([] if tier == "quick" else list(range(2 * BUFSIZ - 70, 2 * BUFSIZ + 71)) + list(range(65536 - 70, 65536 + 71)))
    dense = [n for n in dense if n not in lens]
    for kind in KINDS:
        for b in range(0, len(dense), 40):
            cases.append(("%s-%d..%d" % (kind, dense[b], dense[min(b + 39, len(dense) - 1)]),
                          ["longprobe %s %d %s" % (kind, n, hx(ROOT + "/lg")) for n in dense[b:b + 40]]))
    for n in (6, 200, 254, 255, 256):
        cases.append(("filename-%d" % n, ["longname filename %d %s" % (n, hx(ROOT + "/ln%d" % n))]))
    for n in (12, 200, 250, 251, 252, 253, 254, 255, 256):
        cases.append(("mainname-%d" % n, ["longname mainname %d %s" % (n, hx(ROOT + "/lm%d" % n))]))
    for n in (8, 254, 255):
        cases.append(("dropins-%d" % n, ["longname dropins %d %s" % (n, hx(ROOT + "/ld%d" % n))]))
    for n in (200, 4093, 4094, 4095, 4096, 4097, 4098):
        cases.append(("path-%d" % n, ["longname path %d %s" % (n, hx(ROOT + "/lp%d" % n))]))
    # long option strings
    for n in (BUFSIZ - 1, BUFSIZ + 1, 70000):
        long_root = "/r" + "x" * n
        cases.append(("opt-%d" % n, ["newopt 1 %s" % hx("ROOT_PREFIX=" + long_root + ";PARSING_DIRS=" + ":".join("/d" + "y" * (n // 3) for _ in range(3))),
                                      "readconfig 1 %s %s %s %s x3d x23" % (hx("p"), hx("/usr"), hx("c"), hx("conf")), "free 1"]))
    # lists of drop-in directory postfixes whose entries have DIFFERENT lengths, in every order (the process-wide list and the
    # CONFIG_DIRS option): each directory of the list is looked into, however long its postfix is next to the others
    post_lists = [[".d", ".dd"], [".dd", ".d"], [".d", ".conf.d", "." + "p" * 100 + ".d"], ["." + "p" * 100 + ".d", ".d"], [".d", "." + "q" * 240 + ".d"],
                  ["/a", "/" + "b" * 200, "/cc"]]
    for n, pl_ in enumerate(post_lists):
        R = ROOT + "/pl%d" % n
        sc = []
        for j, post in enumerate(pl_):
            sc.append("file %s %s" % (hx("%s/%s/cfg%s/f%d.conf" % (R, "usr/etc" if j % 2 else "etc", post, j)), hx("K%d=%d\n" % (j, j))))
        sc += ["setconfdirs " + " ".join(hx(p_) for p_ in pl_), "readdirs 1 %s %s %s %s x3d x23" % (hx(R + "/usr/etc"), hx(R + "/etc"), hx("cfg"), hx("conf"))]
        sc += ["get String 1 - %s" % hx("K%d" % j) for j in range(len(pl_))] + ["free 1", "setconfdirs"]
        if all(":" not in p_ for p_ in pl_):
            sc += ["newopt 2 %s" % hx("CONFIG_DIRS=%s;PARSING_DIRS=%s/usr/etc:%s/etc" % (":".join(pl_), R, R)), "readconfig 2 - - %s %s x3d x23" % (hx("cfg"), hx("conf"))]
            sc += ["get String 2 - %s" % hx("K%d" % j) for j in range(len(pl_))] + ["free 2"]
        cases.append(("postfixes-%d" % n, sc))
    # root prefixes of growing length: every layer below the prefix is looked into (vendor, /run, /etc; with and without project)
    rp_lens = [60, 200, 240, 250, 256, 262, 300, 1000, 3000]
    for n in rp_lens:
        R = ROOT + "/rp%d" % n
        R += ("/" + "r" * 49) * (n // 50)
        for prj in ("", "/prj"):
            tag = "rootprefix-%d%s" % (n, prj.replace("/", "-"))
            sc = ["file %s %s" % (hx(R + "/usr/lib" + prj + "/cfg.conf"), hx("U=1\nK=usr\n")), "file %s %s" % (hx(R + "/run" + prj + "/cfg.conf.d/r.conf"), hx("R=1\nK=run\n")),
                  "file %s %s" % (hx(R + "/etc" + prj + "/cfg.conf.d/e.conf"), hx("E=1\nK=etc\n")),
                  "newopt 1 %s" % hx("ROOT_PREFIX=" + R), "readconfig 1 %s %s %s %s x3d x23" % (hx("prj") if prj else "-", hx("/usr/lib"), hx("cfg"), hx("conf"))]
            sc += ["get String 1 - %s" % hx(k_) for k_ in ("U", "R", "E", "K")] + ["free 1"]
            cases.append((tag, sc))
    # PARSING_DIRS lists that are long as a WHOLE (every entry a legal path): each listed directory is a layer
    pd_shapes = [(2, 300), (5, 950), (8, 1000), (4, 2000), (12, 700)]
    for k_, L_ in pd_shapes:
        R = ROOT + "/pdl%d_%d" % (k_, L_)
        dirs = []
        for j in range(k_):
            d_ = R + "/l%d" % j
            while len(d_) + 60 < L_:
                d_ += "/" + ("%d" % (j % 10)) * 49
            dirs.append(d_)
        sc = []
        for j, d_ in enumerate(dirs):
            sc.append("file %s %s" % (hx(d_ + "/cfg.conf.d/d%d.conf" % j), hx("D%d=%d\nTOP=%d\n" % (j, j, j))))
        sc.append("file %s %s" % (hx(dirs[-1] + "/cfg.conf"), hx("MAIN=%d\n" % (k_ - 1))))
        sc += ["newopt 1 %s" % hx("PARSING_DIRS=" + ":".join(dirs)), "readconfig 1 - - %s %s x3d x23" % (hx("cfg"), hx("conf"))]
        sc += ["get String 1 - %s" % hx("D%d" % j) for j in range(k_)] + ["get String 1 - %s" % hx("TOP"), "get String 1 - %s" % hx("MAIN"), "free 1"]
        cases.append(("parsingdirs-%d-%d" % (k_, L_), sc))
    res = core.run_cases(exe, cases, per_case_timeout=120)
    for k_, L_ in pd_shapes:
        out = res.get("parsingdirs-%d-%d" % (k_, L_))
        if out and not out["crash"]:
            got = [(e["rc"], e.get("out")) for e in out["ev"] if e["op"] == "get"]
            want = [("ECONF_SUCCESS", str(j)) for j in range(k_)] + [("ECONF_SUCCESS", str(k_ - 1))] * 2
            if got != want:
                verdict.violation("C14:parsing-dirs", {"kind": "parsingdirs", "dirs": k_, "each": L_, "got": got},
                                  "PARSING_DIRS with %d directories of about %d bytes each (%d bytes in all): the layers delivered %s, expected %s" % (k_, L_, k_ * L_, got, want))
    for n in rp_lens:
        for prj in ("", "-prj"):
            out = res.get("rootprefix-%d%s" % (n, prj))
            if out and not out["crash"]:
                gets = [e for e in out["ev"] if e["op"] == "get"]
                got = [(e["rc"], e.get("out")) for e in gets]
                want = [("ECONF_SUCCESS", "1")] * 3 + [("ECONF_SUCCESS", "etc")]
                if got != want:
                    verdict.violation("C14:root-prefix", {"kind": "rootprefix", "len": n, "project": bool(prj), "got": got},
                                      "ROOT_PREFIX of about %d bytes (%s project directory): keys U (vendor), R (/run), E (/etc), K (override) came back as %s" % (n, "with" if prj else "without", got))
    for n, pl_ in enumerate(post_lists):
        out = res.get("postfixes-%d" % n)
        if out and not out["crash"]:
            gets = [e for e in out["ev"] if e["op"] == "get"]
            for k_, e in enumerate(gets):
                j = k_ % len(pl_)
                if e["rc"] != "ECONF_SUCCESS" or e.get("out") != str(j):
                    verdict.violation("C14:postfix-list", {"kind": "postfixes", "list": pl_, "entry": j, "via": "econf_set_conf_dirs" if k_ < len(pl_) else "CONFIG_DIRS", "got": e},
                                      "drop-in directory list %s (%s): the file in directory cfg%s was not read (%s)" % (
                                          [p_ if len(p_) < 20 else p_[:8] + "...(%d bytes)" % len(p_) for p_ in pl_], "econf_set_conf_dirs" if k_ < len(pl_) else "CONFIG_DIRS",
                                          pl_[j] if len(pl_[j]) < 20 else "<%d bytes>" % len(pl_[j]), e["rc"]))
    # the longest fields once more with the whole script interpreted by a thread whose stack is 256 KiB (uninstrumented build):
    # what the library puts on the stack must not grow with the length (or the number) of the fields it handles
    small = [("smallstack-%s-%d" % (kind, n), ["watchdog 600", "longprobe %s %d %s" % (kind, n, hx(ROOT + "/ls"))]) for kind in KINDS for n in (65536, 1 << 20)]
    small.append(("smallstack-many-comments", ["file %s %s" % (hx(ROOT + "/lsm/in.conf"), hx("".join("#%s\nk%d=v #%s\n" % ("c" * 10000, j, "t" * 10000) for j in range(20)))),
                   "readfile 1 %s x3d x23" % hx(ROOT + "/lsm/in.conf"), "write 1 %s %s" % (hx(ROOT + "/lsm"), hx("out.conf")),
                   "readfile 2 %s x3d x23" % hx(ROOT + "/lsm/out.conf"), "get String 2 - %s" % hx("k19"), "free 1", "free 2"]))
    res.update(core.run_cases(core.build("plain"), small, per_case_timeout=600, env={"DRV_STACK_KB": "256"}))
    cases = cases + small
    events = []
    nn = 0
    for cid, _ in cases:
        out = res.get(cid)
        if out is None or out["crash"]:
            where = ""
            for ln in ((out or {}).get("crash") or "").splitlines():
                if "/repo/lib/" in ln:
                    where = ln.split("/repo/lib/")[1].split(")")[0].strip()
                    break
            verdict.violation("C14:crash:%s" % cid.split("-")[0], {"kind": "long", "case": cid, "crash": (out or {}).get("crash")},
                              "long field %s: buffer overrun / crash at %s\n%s" % (cid, where, ((out or {}).get("crash") or "")[:900]))
            continue
        for e in out["ev"]:
            if e["op"] == "long":
                if e["api"].endswith(")") and e["rc"] == "ECONF_SUCCESS":     # lookups BY a long key / section: only existence is observed
                    e = dict(e, out_len=e["len"], head_ok=True, tail_ok=True)
                events.append({"e": "long", "kind": e["kind"], "len": e["len"], "api": e["api"], "rc": e["rc"], "out_len": e["out_len"],
                               "head_ok": e["head_ok"], "tail_ok": e["tail_ok"]})
                if e["len"] >= BUFSIZ - 2:
                    nn += 1
    ok, tr, _ = core.validate_trace("Envelope", os.path.join(core.SPEC, "Envelope.cfg"), events, timeout=600)
    mism = [x for x in tr.json_lines() if "mismatch" in x]
    if not ok and not mism:
        raise core.ToolFailure("Envelope did not consume the trace:\n" + tr.out[-2000:])
    for x in mism:
        e = events[x["mismatch"] - 1]
        verdict.violation("C14:%s:%s" % (e["kind"], e["api"].replace(" ", "")), {"kind": "long", "event": e, "spec": x["spec"]},
                          "%s of %d bytes through %s: %s, %d bytes came back, head intact %s, tail intact %s" % (e["kind"], e["len"], e["api"], e["rc"], e["out_len"], e["head_ok"], e["tail_ok"]))
    cov = {"evaluations": len(events), "distinct_nontrivial": nn,
           "rule": "field kinds {value, quoted value, key, section name, continuation line, comment before, comment after, comment block of three lines before, comment pieces behind the three lines of a value, second definition joined under JOIN_SAME_ENTRIES, value / continuation on the last line of a file that does not end with a newline} x lengths {EVERY length 1..%d and BUFSIZ-70..BUFSIZ+70%s, 2*BUFSIZ, 64 Ki, %s} through: econf_readFile, plain / extended getters, listings, econf_mergeFiles + getters, econf_writeFile + econf_readFile + getters, the object itself once more after it was written, and the setters; file names of 6..256 bytes read directly and as drop-in; MAIN file names of 12..256 bytes (with suffix) through econf_readDirs, econf_readConfig and econf_readDirsHistory; paths of 200 and PATH_MAX-3 .. PATH_MAX+2 bytes; option strings of 8 Ki .. 70 Ki; drop-in directory postfix lists whose entries differ in length (2 .. 243 bytes) in every order, as process-wide list and as CONFIG_DIRS; ROOT_PREFIX values of 60 .. 3000 bytes with files in the vendor, /run and /etc layer below them; PARSING_DIRS lists of 2..12 directories of 300..2000 bytes each (up to 8400 bytes as a whole) with a drop-in in every one. The field carries distinct head and tail markers; Envelope!TLong requires out_len = len and both markers (names beyond NAME_MAX / PATH_MAX: an error code, no crash). Every kind once more at 64 Ki and 1 Mi on a thread with a 256 KiB stack (uninstrumented build), plus 20 entries with two 10000-byte comments each, written and read back there. non-trivial = length >= BUFSIZ-2." % (330 if tier == "quick" else 1099, "" if tier == "quick" else ", around 2*BUFSIZ and 64 Ki", "1 Mi" if tier == "thorough" else "200000"),
           "samples": events[:3], "exhaustive": True,
           "trusted_base": ["gcc ASan/UBSan", "TLC 1.8.0 (Envelope!TLong)", "drv.c longprobe/longname"]}
    return cov


def check(pid, tier, seed):
    t0 = time.time()
    exe = core.build("asan")
    verdict = core.Verdict(pid)
    cov = (check_c04 if pid == "C04" else check_c14)(exe, tier, seed, verdict)
    rc = verdict.finish()
    core.write_evidence(pid, tier, seed, "exploration", cov,
                        ["memory safety is observed (ASan/UBSan), not modelled", "allocation-failure paths are not exercised"], time.time() - t0, len(verdict.violations))
    return rc


def replay(pid, path):
    with open(path) as f:
        rec = json.load(f)
    print(json.dumps(rec, indent=1)[:3000])
    c = rec["case"]
    if c.get("kind") == "bytes":
        exe = core.build("asan")
        out = core.run_cases(exe, [("r", env_case(0, bytes(c["data"]), c["delim"], c["comment"], c["mode"]))], jobs=1)["r"]
        print(json.dumps(out, indent=1)[:4000])
    return 0
