"""C10 / C11 — the object API against KeyFile.tla.

C11  M: MC_KeyFile — the operational object refines an ordered map at every reachable object
        (SetRefines, SetLocal, ListingIsMapOrder, GetIsLookup, SpellingsAgree).
     F: one shortest setter history per reachable object is exported with the expected result of
        every probe call and replayed on the real object (3 constructors + parsed file).
     B: random histories of up to 60 calls over <= 3 handles recorded and validated by Trace_KeyFile.
C10  B: query sequences (every getter of every type incl. failing ones, defaults, listings, ext
        getter, path, tags, write, merge as input) with a FULL dump after every call; Trace_KeyFile
        rejects a query after which any object's listing or full-dump fingerprint (incl. the answers of all typed getters for every key) moved.
"""
import hashlib
import json
import os
import random
import time

from . import core
from .core import hx, codes, canon, ROOT
from .p_parser import export, write_cfg, cfg_text, file_bytes

TYPES = ["Int", "Int64", "UInt", "UInt64", "Float", "Double", "String", "Bool"]


def opt(s):
    return [] if s is None else [codes(s)]


def tok_opt(o):
    """exported optional string (<<>> / <<codes>>) -> script token"""
    return "-" if o == [] else hx(bytes(o[0]))


def dump_st(d):
    st = d.get("st")
    if st is None:
        return None
    ents = []
    for sec in st["secs"]:
        for k in sec["keys"]:
            ents.append({"g": codes(sec["g"]) if sec["g"] is not None else [], "k": codes(k["k"]),
                         "v": codes(k["v"]) if k["v"] is not None else []})
    return {"groups": [codes(g) for g in st["groups"]], "ents": ents}


def full_fp(dump_ev, cat_ev=None):
    """fingerprint of everything observable: extended dump (values as stored, comments, lines, value
    lists, path, tags) + bytes of a fresh write."""
    h = hashlib.sha256(json.dumps(dump_ev.get("st"), sort_keys=True).encode())
    if cat_ev is not None:
        h.update(json.dumps(cat_ev.get("data")).encode())
    return h.hexdigest()[:24]


# --------------------------------------------------------------------------------------
# C11 forward replay
# --------------------------------------------------------------------------------------
PARSED_LINES = [b"x=v1", b"[A]", b"y=", b"x=V 2", b"x=v1", b"[B]"]


def ctor_script(h, ctor, path):
    if ctor == "kf":
        return ["newkf %d x3d x23" % h]
    if ctor == "ini":
        return ["newini %d" % h]
    if ctor == "opt":
        return ["newopt %d x" % h]
    return ["file %s %s" % (hx(path), hx(b"\n".join(PARSED_LINES) + b"\n")), "readfile %d %s x3d x23" % (h, hx(path))]


def replay_histories(exe, recs, verdict):
    cases = []
    for i, r in enumerate(recs):
        s = ctor_script(1, r["ctor"], ROOT + "/kf%d/p.conf" % (i % 16))
        for op in r["hist"]:
            s.append("set String 1 %s %s %s" % (tok_opt(op["g"]), tok_opt(op["k"]), hx(bytes(op["v"]))))
        s.append("dump 1")
        for p in r["gets"]:
            s.append("get String 1 %s %s" % (tok_opt(p["g"]), tok_opt(p["k"])))
            s.append("getdef String 1 %s %s %s" % (tok_opt(p["g"]), tok_opt(p["k"]), hx("dflt")))
        for p in r["keys"]:
            s.append("keys 1 %s" % tok_opt(p["g"]))
        s += ["groups 1", "dump 1", "free 1"]
        cases.append((i, s))
    res = core.run_cases(exe, cases)
    ok = 0
    for i, r in enumerate(recs):
        out = res.get(i)
        case = {"kind": "history", "ctor": r["ctor"], "hist": r["hist"]}
        fp = "C11:fwd:%s" % r["ctor"]
        if out is None or out["crash"]:
            verdict.violation(fp + ":crash", dict(case, crash=(out or {}).get("crash")), "object API crashed on history %s\n%s" % (show_hist(r), (out or {}).get("crash", "")[:800]))
            continue
        ev = out["ev"]
        dumps = [e for e in ev if e["op"] == "dump"]
        gets = [e for e in ev if e["op"] in ("get", "getdef")]
        keys = [e for e in ev if e["op"] == "keys"]
        grp = [e for e in ev if e["op"] == "groups"][0]
        sets = [e for e in ev if e["op"] == "set"]
        bad = None
        if any(e["rc"] != "ECONF_SUCCESS" for e in sets):
            bad = "a setter call failed: %s" % [e["rc"] for e in sets]
        elif dump_st(dumps[0]) != r["dump"]:
            bad = "listing after the history is %s, expected %s" % (canon(dump_st(dumps[0])), canon(r["dump"]))
        elif dump_st(dumps[1]) != r["dump"]:
            bad = "listing changed by the probe (read-only) calls"
        else:
            for j, p in enumerate(r["gets"]):
                g, gd = gets[2 * j], gets[2 * j + 1]
                want_out = core.uncodes(p["out"][0]) if p["out"] else None
                if p["found"]:
                    if g["rc"] != "ECONF_SUCCESS" or (g["out"] or "") != (want_out or "") or gd["rc"] != "ECONF_SUCCESS" or (gd["out"] or "") != (want_out or ""):
                        bad = "get(%s,%s) = %s/%r, with default %s/%r, expected %r" % (p["g"], p["k"], g["rc"], g["out"], gd["rc"], gd["out"], want_out)
                        break
                else:
                    if g["rc"] != "ECONF_NOKEY" or gd["rc"] != "ECONF_NOKEY" or gd["out"] != "dflt":
                        bad = "absent key get(%s,%s): %s, with default %s/%r (expected ECONF_NOKEY and the default)" % (p["g"], p["k"], g["rc"], gd["rc"], gd["out"])
                        break
            if not bad:
                for p, e in zip(r["keys"], keys):
                    got = [codes(x) for x in e["out"]]
                    if p["out"] == []:
                        if not (e["rc"] == "ECONF_NOKEY" or (e["rc"] == "ECONF_SUCCESS" and got == [])):
                            bad = "keys(%s) on a section without keys: %s %s" % (p["g"], e["rc"], got)
                    elif e["rc"] != "ECONF_SUCCESS" or got != p["out"]:
                        bad = "keys(%s) = %s %s, expected %s" % (p["g"], e["rc"], got, p["out"])
                    if bad:
                        break
            if not bad:
                want = r["dump"]["groups"]
                got = [codes(x) for x in grp["out"]]
                if want == []:
                    if not (grp["rc"] in ("ECONF_NOGROUP", "ECONF_SUCCESS") and got == []):
                        bad = "groups() with no section: %s %s" % (grp["rc"], got)
                elif grp["rc"] != "ECONF_SUCCESS" or got != want:
                    bad = "groups() = %s %s, expected %s" % (grp["rc"], got, want)
        if bad:
            verdict.violation(fp, dict(case, problem=bad), "history %s on a %s object: %s" % (show_hist(r), r["ctor"], bad))
        else:
            ok += 1
    return ok


def show_hist(r):
    return " ; ".join("set(%s,%s,%s)" % ("NULL" if op["g"] == [] else repr(core.uncodes(op["g"][0])), core.uncodes(op["k"][0]), core.uncodes(op["v"])) for op in r["hist"]) or "(no calls)"


# --------------------------------------------------------------------------------------
# random histories -> trace events
# --------------------------------------------------------------------------------------
SECS = [None, "", "A", "[A]", "B", "[B]", "C c"]
KEYS = ["x", "y", "z", "k4", "k5", "k6", "k7", "k8", "k9", "k10"]
VALS = ["v", "Yes Please", "TRUE", "0x10", "1e3", "", "42", "-7", "a b  c", "tRuE", "No", "2.5", "0755", "yes", "nOnE", "  \"q r\"", "\"x\"  ",
        # texts on which a getter succeeds or fails at the edge of its range (what they leave behind must not matter later)
        "1e-320", "1e40", "99999999999999999999999", "-1", "4294967296", "\"ends in blanks  \"", "\", \""]
BOOLW = ["1", "0", "yes", "YES", "no", "No", "true", "TRUE", "false", "fAlSe"]


def conventional_small(rnd):
    lines = []
    for _ in range(rnd.randint(1, 6)):
        x = rnd.random()
        if x < 0.2:
            lines.append(b"[" + rnd.choice(["A", "B", "C c"]).encode() + b"]")
        elif x < 0.3:
            lines.append(b"# note")
        elif x < 0.42:
            # a key without delimiter: stored without a value (after an entry the same text continues that entry's value)
            lines.append(rnd.choice(KEYS[:5]).encode())
        elif x < 0.47:
            lines.append(rnd.choice(KEYS[:5]).encode() + b"=" + rnd.choice(VALS).encode() + b" # why")
        else:
            k = rnd.choice(KEYS[:5]).encode()
            v = rnd.choice(VALS).encode()
            if v[:1] == b"0" and False:
                pass
            lines.append(k + b"=" + v)
    return lines


class Hist:
    """builds a driver script and, from the driver's answers, the trace events"""

    def __init__(self, rnd, cid, with_fp=False):
        self.r = rnd
        self.cid = cid
        self.script = []
        self.plan = []       # per script line that yields an event: a function(ev) -> trace event(s)
        self.live = set()
        self.with_fp = with_fp
        self.root = ROOT + "/h%s" % (abs(hash(cid)) % 16)
        self.nw = 0

    def add(self, line, conv):
        self.script.append(line)
        self.plan.append(conv)

    def new(self, h):
        kind = self.r.choice(["kf", "ini", "opt", "parsed", "parsed"])
        if kind == "parsed":
            lines = conventional_small(self.r)
            p = self.root + "/f%d.conf" % h
            self.script.append("file %s %s" % (hx(p), hx(b"\n".join(lines) + b"\n")))
            self.plan.append(None)
            self.add("readfile %d %s x3d x23" % (h, hx(p)),
                     lambda ev, h=h, lines=lines: [{"e": "read", "h": h, "rc": ev["rc"], "lines": [list(x) for x in lines], "delim": [61], "comment": [35]}])
        else:
            self.add({"kf": "newkf %d x3d x23", "ini": "newini %d", "opt": "newopt %d x"}[kind] % h,
                     lambda ev, h=h: [{"e": "new", "h": h, "rc": ev["rc"]}])
        self.live.add(h)

    def dump(self, h):
        if self.with_fp and h in self.live:
            self.nw += 1
            name = "w%d.conf" % self.nw
            self.script.append("write %d %s %s" % (h, hx(self.root), hx(name)))
            self.plan.append("write")
            self.script.append("cat %s" % hx(self.root + "/" + name))
            self.plan.append("cat")
            self.add("dumpt %d" % h, "dumpfp")       # extended dump + the answers of all typed getters for every key
        else:
            self.add("dump %d" % h, lambda ev, h=h: [{"e": "dump", "h": h, "isnull": ev["st"] is None,
                                                       "st": dump_st(ev) or {"groups": [], "ents": []}, "fp": "-"}])

    def setter(self, h):
        r = self.r
        T = r.choice(["String", "String", "String", "Int", "Bool", "UInt64"])
        g = r.choice(SECS)
        k = r.choice(KEYS) if r.random() < 0.93 else r.choice([None, ""])
        if T == "String":
            v = r.choice(VALS + [None])
            tok, text = hx(v), (v if v is not None else None)
        elif T == "Bool":
            v = r.choice(BOOLW)
            tok, text = hx(v), v
        else:
            n = r.choice([0, 7, 42, 100000, 2147483647]) if T != "Int" else r.choice([0, -5, 42, 2147483647, -2147483648])
            tok, text = str(n), str(n)
        self.add("set %s %d %s %s %s" % (T, h, hx(g), hx(k), tok),
                 lambda ev, h=h, T=T, g=g, k=k, text=text: [{"e": "set", "h": h if h in self.live_at else 0, "T": T, "g": opt(g), "k": opt(k), "v": opt(text), "rc": ev["rc"]}])

    def getter(self, h, types=("String",)):
        r = self.r
        T = r.choice(types)
        g = r.choice(SECS)
        k = r.choice(KEYS) if r.random() < 0.95 else r.choice([None, ""])
        isdef = r.random() < 0.4
        if isdef:
            if T == "String":
                d = r.choice(["dflt", "", None])
                dtok = hx(d)
            elif T in ("Float",):
                d, dtok = None, "3fc00000"
            elif T == "Double":
                d, dtok = None, "3ff8000000000000"
            elif T == "Bool":
                d, dtok = None, "1"
            else:
                d, dtok = None, "5"
            line = "getdef %s %d %s %s %s" % (T, h, hx(g), hx(k), dtok)
        else:
            d = None
            line = "get %s %d %s %s" % (T, h, hx(g), hx(k))
        dn = {"Float": "3fc00000", "Double": "3ff8000000000000", "Bool": "1"}.get(T, "5")
        self.add(line, lambda ev, h=h, T=T, g=g, k=k, isdef=isdef, d=d, dn=dn: [{
            "e": "get", "h": h if h in self.live_at else 0, "T": T, "g": opt(g), "k": opt(k), "rc": ev["rc"], "isdef": isdef,
            "def": opt(d), "out": opt(ev.get("out")) if T == "String" else [],
            # typed default: what came back and what was passed as default, as text (C11: the default exactly when absent)
            "outs": str(ev.get("out")), "defs": dn}])

    def listing(self, h):
        if self.r.random() < 0.5:
            self.add("groups %d" % h, lambda ev, h=h: [{"e": "groups", "h": h if h in self.live_at else 0, "rc": ev["rc"], "out": [codes(x) for x in ev["out"]]}])
        else:
            g = self.r.choice([None, "", "A", "B", "C c", "nope"])
            self.add("keys %d %s" % (h, hx(g)), lambda ev, h=h, g=g: [{"e": "keys", "h": h if h in self.live_at else 0, "g": opt(g), "rc": ev["rc"], "out": [codes(x) for x in ev["out"]]}])

    def other_query(self, h):
        r = self.r
        x = r.random()
        if x < 0.3:
            self.add("ext %d %s %s" % (h, hx(r.choice(SECS)), hx(r.choice(KEYS))), lambda ev: [{"e": "query"}])
        elif x < 0.45:
            self.add("path %d" % h, lambda ev: [{"e": "query"}])
        elif x < 0.6:
            self.add("tags %d" % h, lambda ev: [{"e": "query"}])
        elif x < 0.8:
            self.nw += 1
            self.add("write %d %s %s" % (h, hx(self.root), hx("q%d.conf" % self.nw)), lambda ev: [{"e": "query"}])
        else:
            others = [o for o in self.live if o != h]
            if others:
                o = r.choice(others)
                a, b = (h, o) if r.random() < 0.5 else (o, h)
                self.add("merge 9 %d %d" % (a, b), lambda ev: [{"e": "query"}])
                self.script.append("free 9")
                self.plan.append(None)
                self.dump(o)          # the OTHER input of the merge must be untouched as well
            else:
                self.add("errstring %d" % r.randint(0, 24), lambda ev: [{"e": "query"}])      # codes the library defines (others: C13, single-threaded)

    def free(self, h):
        self.add("free %d" % h, lambda ev, h=h: [{"e": "free", "h": h, "ret_null": ev["ret_null"]}])
        self.live.discard(h)

    @property
    def live_at(self):
        return self._live_now

    def events(self, evs):
        """evs: driver events in order (one per script line that prints). Returns trace events."""
        out = [{"e": "reset"}]
        it = iter(evs)
        # replay liveness alongside
        self._live_now = set()
        pend_cat = None
        for line, conv in zip(self.script, self.plan):
            op = line.split()[0]
            if op in ("file", "mkdir", "rm", "cbreset", "cbrejectpath", "cbopenfd"):
                continue
            ev = next(it, None)
            if ev is None:
                break
            if op in ("newkf", "newini", "newopt", "readfile"):
                self._live_now.add(int(line.split()[1]))
            if conv is None:
                if op == "free":
                    pass
                continue
            if conv == "write":
                continue
            if conv == "cat":
                pend_cat = ev
                continue
            if conv == "dumpfp":
                h = int(line.split()[1])
                out.append({"e": "dump", "h": h, "isnull": ev["st"] is None, "st": dump_st(ev) or {"groups": [], "ents": []},
                            "fp": full_fp(ev, pend_cat)})
                pend_cat = None
                continue
            out.extend(conv(ev))
            if op == "free":
                self._live_now.discard(int(line.split()[1]))
        return out


def random_history(rnd, cid, nops, query_heavy=False):
    h = Hist(rnd, cid, with_fp=query_heavy)
    h.new(1)
    if rnd.random() < 0.5:
        h.new(2)
    for _ in range(nops):
        live = sorted(h.live)
        tgt = rnd.choice(live) if live and rnd.random() < 0.97 else 0
        x = rnd.random()
        if query_heavy:
            if x < 0.12 and tgt:
                h.setter(tgt)
            elif x < 0.6:
                h.getter(tgt, TYPES)
            elif x < 0.75:
                h.listing(tgt)
            elif tgt:
                h.other_query(tgt)
            else:
                h.listing(tgt)
            if tgt:
                h.dump(tgt)
        else:
            if x < 0.5:
                h.setter(tgt)
            elif x < 0.75:
                h.getter(tgt)
            elif x < 0.9:
                h.listing(tgt)
            elif x < 0.95 and tgt:
                h.dump(tgt)
            elif len(h.live) < 3:
                h.new(max(h.live | {0}) + 1)
    for x in sorted(h.live):
        h.dump(x)
    for x in sorted(h.live):
        h.free(x)
    return h


def run_histories(exe, hists, verdict, pid):
    cases = [(i, h.script) for i, h in enumerate(hists)]
    res = core.run_cases(exe, cases)
    events = []
    spans = []
    for i, h in enumerate(hists):
        out = res.get(i)
        if out is None or out["crash"]:
            # find the call that crashed
            nev = len((out or {}).get("ev", []))
            printing = [l for l in h.script if l.split()[0] not in ("file", "mkdir", "rm")]
            culprit = printing[nev] if nev < len(printing) else "?"
            verdict.violation("%s:crash:%s" % (pid, " ".join(culprit.split()[:2])), {"kind": "script", "script": h.script, "crash": (out or {}).get("crash"), "at": culprit},
                              "object API crashed at call `%s`\n%s" % (culprit, (out or {}).get("crash", "")[:900]))
            continue
        evs = h.events(out["ev"])
        spans.append((len(events), len(events) + len(evs), i))
        events.extend(evs)
    if not events:
        return 0
    ok, tr, _ = core.validate_trace("Trace_KeyFile", os.path.join(core.SPEC, "Trace_KeyFile.cfg"), events, timeout=3000)
    mism = [x for x in tr.json_lines() if "mismatch" in x]
    if not ok and not mism:
        raise core.ToolFailure("Trace_KeyFile did not consume the trace:\n" + tr.out[-2500:])
    bad = set()
    for x in mism:
        j = x["mismatch"] - 1
        for a, b, i in spans:
            if a <= j < b:
                if i in bad:
                    break
                bad.add(i)
                ev = events[j]
                prev = [e for e in events[a:j] if e["e"] != "dump"][-3:]
                kind = ev["e"] + (":" + ev.get("T", "") if ev["e"] in ("get", "set") else "")
                if ev["e"] == "dump":
                    last = [e for e in events[a:j] if e["e"] not in ("dump",)]
                    lastq = last[-1] if last else {}
                    kind = "dump-after:%s:%s" % (lastq.get("e"), lastq.get("T", ""))
                verdict.violation("%s:trace:%s" % (pid, kind), {"kind": "script", "script": hists[i].script, "event": ev, "before": prev, "spec": x.get("spec")},
                                  "history rejected by Trace_KeyFile at event %d: %s\nprevious calls: %s\nspecification expects: %s" % (
                                      j - a, json.dumps(ev)[:500], json.dumps(prev)[:600], canon(x.get("spec"))[:600]))
                break
    return len(spans) - len(bad)


# --------------------------------------------------------------------------------------
def check(pid, tier, seed):
    t0 = time.time()
    exe = core.build("asan")
    verdict = core.Verdict(pid)
    rnd = random.Random(seed)
    if pid == "C11":
        maxops = 3 if tier == "quick" else 4
        mc = core.tlc_ok("MC_KeyFile", write_cfg(_kf_cfg(maxops + 1, False)), timeout=3000)
        if mc.violated:
            verdict.violation("C11:model", {"tlc": mc.out[-3000:]}, "TLC: the operational object does not refine the ordered map\n" + mc.out[-1500:])
        r = core.tlc_ok("MC_KeyFile", write_cfg(_kf_cfg(maxops, True)), timeout=3000)
        recs = r.json_lines()
        okf = replay_histories(exe, recs, verdict)
        n = 300 if tier == "quick" else 5000
        hists = [random_history(rnd, "c11-%d" % i, rnd.randint(5, 60)) for i in range(n)]
        acc = run_histories(exe, hists, verdict, "C11")
        from . import p_econf
        nmix = 150 if tier == "quick" else 4000
        acc += p_econf.run_mixed(exe, rnd, nmix, verdict, "C11")
        nn = sum(1 for h in hists if len(h.script) > 20) + nmix
        cov = {"states": mc.distinct, "transitions": mc.generated, "traces_validated_against_impl": okf + acc,
               "evaluations": len(recs) + len(hists), "distinct_nontrivial": len([x for x in recs if len(x["hist"]) >= 2]) + nn,
               "rule": "MC_KeyFile: every object reachable by <= %d setter calls over sections {NULL,\"\",A,[A],B,[B]} x keys {x,y} x 2 values from newKeyFile / newIniFile / newKeyFile_with_options / a parsed file with a repeated key, a value-less key and a key-less section; refinement invariants checked for every next call at every object (%d objects). Forward: one shortest history per object reachable by <= %d calls (%d) replayed with 42 probe calls each. Backward: %d random histories of 5..60 calls (setters of several types, getters with/without default incl. NULL default, listings, NULL object, NULL/empty key, bracketed sections, growth beyond 8 entries) validated by Trace_KeyFile; + %d mixed histories (files, single and layered reads, setters, merges, writes and reads of the written files) validated end to end against the root specification Econf.tla (Trace_Econf). non-trivial = history with an overwrite or >= 2 calls / random history with > 20 calls." % (
                   maxops + 1, mc.distinct, maxops, len(recs), len(hists), nmix),
               "samples": [{"ctor": recs[50]["ctor"], "history": show_hist(recs[50]), "expected_listing": recs[50]["dump"]}] if len(recs) > 50 else [],
               "exhaustive": True, "trusted_base": ["TLC 1.8.0", "gcc ASan/UBSan", "drv.c"]}
    else:
        mc = core.tlc_ok("MC_KeyFile", write_cfg(_kf_cfg(3, False)), timeout=3000)
        n = 250 if tier == "quick" else 4000
        hists = [random_history(rnd, "c10-%d" % i, rnd.randint(3, 30), query_heavy=True) for i in range(n)]
        acc = run_histories(exe, hists, verdict, "C10")
        # use as an input of a merge, systematically: every pair of the Merge universe (TLC export, lists of <= 2 entries) as
        # parsed files whose first keys have no value; the full extended dump of BOTH inputs before and after the call
        from . import p_merge
        rm, recsm, _ = export("MC_Merge", {"MaxLen": 2, "Export": "TRUE", "Hdr": "FALSE", "NoV": "FALSE"}, ["MergeIsRef"], seed=seed)
        nmerge = p_merge.inputs_unchanged(exe, [(x["b"], x["o"]) for x in recsm], verdict, "C10")
        acc += nmerge
        # read-only calls inside mixed histories against the root specification: merges (also with a tag-less option object as
        # base and a parsed file with comments as override), writes, listings, the extended getter; every dump compares
        # content AND the delimiter / comment tags
        from . import p_econf
        nmix = 200 if tier == "quick" else 4000
        acc += p_econf.run_mixed(exe, random.Random(seed + 10), nmix, verdict, "C10")
        nq = sum(1 for h in hists for l in h.script if l.split()[0] in ("get", "getdef", "keys", "groups", "ext", "path", "tags", "write", "merge"))
        cov = {"states": mc.distinct, "transitions": mc.generated, "traces_validated_against_impl": acc,
               "evaluations": nq, "distinct_nontrivial": sum(1 for h in hists if any(l.startswith("get Bool") or l.startswith("getdef Bool") or l.startswith("get Int") for l in h.script)),
               "rule": "%d random query sequences (3..30 calls) on parsed and built objects holding mixed-case / non-boolean / numeric / empty / absent values: getters of all 8 types with and without default (incl. failing ones), key and section listings, extended getter, path, tags, econf_writeFile, use as either input of econf_mergeFiles; after EVERY call the object is dumped in full (listing, values as stored, comments, line numbers, value lists, bytes of a fresh write); Trace_KeyFile accepts a query only if listing and full-dump fingerprint (incl. the answers of all typed getters for every key) are unchanged since the last setter. In the model queries are UNCHANGED objs by construction (KeyFile.tla); %d query calls validated. Merge as a query, systematically: %d pairs of parsed files (every pair of entry lists of length <= 2 over {group-less,A,B} x {x,y} exported by TLC from MC_Merge, first key of the file / of each section without a value): the extended dump of both inputs is identical before and after econf_mergeFiles; + mixed histories (merges with tag-less option objects as base, writes, listings, extended getter) validated against the root specification with the delimiter / comment tags part of every dump. non-trivial = sequence with a Bool or Int getter." % (len(hists), nq, nmerge),
               "samples": [hists[0].script[:12]], "exhaustive": False,
               "trusted_base": ["TLC 1.8.0", "gcc ASan/UBSan", "drv.c"]}
    rc = verdict.finish()
    core.write_evidence(pid, tier, seed, "model_checking", cov,
                        ["state not reachable through the public dump (allocation sizes) is not observed",
                         "the sentinel text _none_ is never used as section, key or value"], time.time() - t0, len(verdict.violations))
    return rc


def _kf_cfg(maxops, exp):
    t = "SPECIFICATION Spec\nVIEW view\nCHECK_DEADLOCK FALSE\n"
    for i in ("SetRefines", "SetLocal", "ListingIsMapOrder", "GetIsLookup", "SpellingsAgree"):
        t += "INVARIANT %s\n" % i
    t += "CONSTRAINT ExportCase\nCONSTANTS\n MaxOps = %d\n Export = %s\n" % (maxops, "TRUE" if exp else "FALSE")
    return t


def replay(pid, path):
    with open(path) as f:
        rec = json.load(f)
    print(json.dumps(rec, indent=1)[:6000])
    c = rec["case"]
    if c.get("script"):
        exe = core.build("asan")
        out = core.run_cases(exe, [("r", c["script"])], jobs=1)["r"]
        print(json.dumps(out, indent=1)[:5000])
    return 0
