"""C01 / C06 / C12 (and the tree part of C13) — layered reads against Layers.tla.

M  TLC: Read(tree) (operational: reverse main scan, drop-ins ascending, masking, fold of
   MergeImpl) = UapiRef(tree) (the sentence of C01) for every tree of the bounded universe;
   history folds to the result (C12); callback protocol (MC_Callback, C06).
F  every tree is exported with expected result / callback sequence / history, materialised at
   the DOCUMENTED paths for each parameter shape, and read through the real entry points.
B  callback/fault scenarios are recorded as traces (Begin, Callback*, End) and validated by
   Trace_Layers.tla."""
import json
import os
import random
import time

from . import core
from .core import hx, codes, canon, ROOT
from .p_parser import export, write_cfg, cfg_text

NAMES = {1: ".conf", 2: ".h.conf", 3: "10-a.conf", 4: "9-b.conf", 5: "B.conf", 6: "a.conf", 7: "a.conf.bak", 8: "conf", 9: "\xc3\xa9.conf",
         10: "+z.conf", 11: ".-x.conf"}     # (10, 11: sort in front of the directory entries "." resp. "..")
CARRY = [2, 3, 4, 5, 6, 9, 10, 11]      # names that carry the suffix .conf


def idd(l, r):
    """identity of file (layer, name number) as it appears in keys and values: Layers!Digit (0..9, then a, b)"""
    return "%d%s" % (l, "%d" % r if r < 10 else chr(87 + r))


def body(l, r, shape):
    s = ""
    r = "%d" % r if r < 10 else chr(87 + r)      # Layers!Digit: 0..9, then a, b
    l = "%d" % l
    if shape in ("b", "n", "h"):
        s += "K=%s%s\nU%s%s=1\n" % (l, r, l, r)
    if shape == "h":
        s += "[S]\n"                     # header-only section
    if shape == "c":
        s += "# nothing is set here\n  # really nothing\n"
    if shape in ("b", "s"):
        s += "[S]\nK=%s%s\nU%s%s=1\n" % (l, r, l, r)
    return s


# --------------------------------------------------------------------------------------
# parameter shapes: how a tree is laid out on disk and which call reads it
# --------------------------------------------------------------------------------------
class Shape:
    """layers: directory of each layer; mainname; ddirs: drop-in directories (relative to the layer dir);
    call(h, cb): script line reading the tree into handle h."""

    def __init__(self, name, nlay=3, opts="", sfx="conf", cn="cfg"):
        self.name = name
        self.nlay = nlay
        self.opts = opts          # further items of the option string (JOIN_SAME_ENTRIES=1, PYTHON_STYLE=1): no effect on these trees
        self.sfx = sfx            # the suffix in play: every "conf" of the file, directory and argument names is replaced by it
        self.cn = cn              # the configuration's name: every "cfg" of the file, directory and argument names is replaced by it

    def rn(self, s):
        if self.sfx == "conf" and self.cn == "cfg":
            return s
        return s.replace("cfg", "\0N").replace("conf", self.sfx).replace("\0N", self.cn)

    def optx(self, s):
        return hx(self.opts + ";" + s if self.opts else s)

    def layout(self, R):
        layers, mainname, ddirs = self._layout(R)
        return layers, (self.rn(mainname) if mainname else mainname), [self.rn(d) for d in ddirs]

    def _layout(self, R):
        n = self.name
        std3 = [R + "/usr/lib/prj", R + "/run/prj", R + "/etc/prj"]
        flat3 = [R + "/usr/lib", R + "/run", R + "/etc"]
        if n in ("std", "dotsuffix"):
            return std3, "cfg.conf", ["cfg.conf.d"]
        if n == "noproject":
            return flat3, "cfg.conf", ["cfg.conf.d"]
        if n == "nosuffix":
            return std3, "cfg", ["cfg.d"]
        if n == "nosuffix2":
            return [R + "/usr/etc", R + "/etc"], "cfg", ["cfg.d"]
        if n == "noname":
            return flat3, None, ["prj.d"]
        if n == "parsing_dirs":
            return [R + "/p%d" % i for i in range(1, self.nlay + 1)], "cfg.conf", ["cfg.conf.d"]
        if n in ("config_dirs", "config_dirs_over_global"):
            return std3, "cfg.conf", ["cfg.conf.d", "cfg.d"]
        if n == "set_conf_dirs":
            return std3, "cfg.conf", ["cfg.conf.d", "cfg/conf.d"]
        if n in ("readdirs", "readdirscb", "readhist", "readhistcb", "rc2", "rc2cb", "readdirscb_rel", "readhistcb_rel"):
            return [R + "/usr/etc", R + "/etc"], "cfg.conf", ["cfg.conf.d"]
        if n == "readdirs_nulldist":
            return [R + "/none", R + "/etc"], "cfg.conf", ["cfg.conf.d"]
        if n in ("readfile", "readfilecb"):          # the single-file entry points: a "tree" of one layer with a main file only
            return [R + "/single"], "cfg.conf", ["cfg.conf.d"]
        raise ValueError(n)

    def pre(self, R):
        if self.name.endswith("_rel"):
            return ["chdir %s" % hx(R)]       # relative directory arguments: the callback must see the relative paths
        if self.name == "set_conf_dirs":
            return ["setconfdirs %s %s" % (hx(self.rn(".conf.d")), hx(self.rn("/conf.d")))]
        if self.name == "config_dirs_over_global":
            # the object's own CONFIG_DIRS list has priority over the process-wide list: the directories of the global list
            # hold decoy files that must not be read
            return ["setconfdirs %s" % hx(".other.d")]
        return []

    def decoys(self, R):
        if self.name == "config_dirs_over_global":
            return ["file %s %s" % (hx(d + "/" + self.rn("cfg.other.d") + "/zz.conf"), hx("DECOY=1\n")) for d in self.layout(R)[0]]
        return []

    def post(self):
        if self.name.endswith("_rel"):
            return ["chdir %s" % hx("/")]
        if self.name in ("set_conf_dirs", "config_dirs_over_global"):
            return ["setconfdirs"]
        return []

    def call(self, h, R, cb=True, delim="=", comment="#"):
        n = self.name
        c = "cb" if cb else ""
        dc = "%s %s" % (hx(delim), hx(comment))
        if n == "std":
            return ["newopt %d %s" % (h, self.optx("ROOT_PREFIX=" + R)),
                    "readconfig%s %d %s %s %s %s %s" % (c, h, hx("prj"), hx("/usr/lib"), hx(self.cn), hx(self.sfx), dc)]
        if n == "dotsuffix":
            return ["newopt %d %s" % (h, self.optx("ROOT_PREFIX=" + R)),
                    "readconfig%s %d %s %s %s %s %s" % (c, h, hx("prj"), hx("/usr/lib"), hx(self.cn), hx("." + self.sfx), dc)]
        if n == "noproject":
            return ["newopt %d %s" % (h, self.optx("ROOT_PREFIX=" + R)),
                    "readconfig%s %d - %s %s %s %s" % (c, h, hx("/usr/lib"), hx(self.cn), hx(self.sfx), dc)]
        if n == "nosuffix":
            return ["newopt %d %s" % (h, self.optx("ROOT_PREFIX=" + R)),
                    "readconfig%s %d %s %s %s - %s" % (c, h, hx("prj"), hx("/usr/lib"), hx(self.cn), dc)]
        if n == "noname":
            return ["newopt %d %s" % (h, self.optx("ROOT_PREFIX=" + R)),
                    "readconfig%s %d %s %s - %s %s" % (c, h, hx("prj"), hx("/usr/lib"), hx(self.sfx), dc)]
        if n == "parsing_dirs":
            dirs = ":".join(R + "/p%d" % i for i in range(1, self.nlay + 1))
            return ["newopt %d %s" % (h, self.optx("PARSING_DIRS=" + dirs)),
                    "readconfig%s %d %s %s %s %s %s" % (c, h, hx("prj"), hx("/usr/lib"), hx(self.cn), hx(self.sfx), dc)]
        if n in ("config_dirs", "config_dirs_over_global"):
            return ["newopt %d %s" % (h, self.optx("CONFIG_DIRS=" + self.rn(".conf.d") + ":.d;ROOT_PREFIX=" + R)),
                    "readconfig%s %d %s %s %s %s %s" % (c, h, hx("prj"), hx("/usr/lib"), hx(self.cn), hx(self.sfx), dc)]
        if n == "set_conf_dirs":
            return ["newopt %d %s" % (h, self.optx("ROOT_PREFIX=" + R)),
                    "readconfig%s %d %s %s %s %s %s" % (c, h, hx("prj"), hx("/usr/lib"), hx(self.cn), hx(self.sfx), dc)]
        if n in ("readdirs", "readdirscb"):
            return ["readdirs%s %d %s %s %s %s %s" % ("cb" if (cb or n == "readdirscb") else "", h, hx(R + "/usr/etc"), hx(R + "/etc"), hx(self.cn), hx(self.sfx), dc)]
        if n in ("readhist", "readhistcb"):
            return ["%s %d %s %s %s %s %s" % (n, h, hx(R + "/usr/etc"), hx(R + "/etc"), hx(self.cn), hx("." + self.sfx), dc)]
        if n == "readdirscb_rel":
            return ["readdirscb %d %s %s %s %s %s" % (h, hx("usr/etc"), hx("etc"), hx(self.cn), hx(self.sfx), dc)]
        if n == "readhistcb_rel":
            return ["readhistcb %d %s %s %s %s %s" % (h, hx("usr/etc"), hx("etc"), hx(self.cn), hx("." + self.sfx), dc)]
        if n in ("rc2", "rc2cb"):
            return ["newopt %d %s" % (h, self.optx("PARSING_DIRS=%s/usr/etc:%s/etc" % (R, R))),
                    "readconfig%s %d %s - %s %s %s" % ("cb" if n == "rc2cb" else "", h, hx("prj"), hx(self.cn), hx(self.sfx), dc)]
        if n == "readdirs_nulldist":
            return ["readdirs%s %d - %s %s %s %s" % (c, h, hx(R + "/etc"), hx(self.cn), hx(self.sfx), dc)]
        if n in ("readfile", "readfilecb"):
            return ["readfile%s %d %s %s" % ("cb" if n == "readfilecb" else "", h, hx(R + "/single/cfg.conf"), dc)]
        raise ValueError(n)


SUFFIXES = ["conf", "ini", "cfg2x", "conf.local", "x1"]      # (a dot inside; two characters; FIVE entries: the cases of one driver process are every 16th, the rotation must not have a period that divides 16)
CFGNAMES = ["cfg", "cfg", "a.b", "cfg", "x y", "cfg", "n=1", "org.example.app", "cfg"]     # (period 9 against the suffixes' 4)


def materialise(tree, shape, R, contents=None, pd=None):
    """tree: dict(main=[kinds], drop=[[names]...], shp='bb').  Returns (script lines, {path: (l, r)})."""
    layers, mainname, ddirs = shape.layout(R)
    s = ["rm %s" % hx(R)]
    paths = {}
    mshape, dshape = tree["shp"][0], tree["shp"][1]
    for i, kind in enumerate(tree["main"], start=1):
        d = layers[i - 1]
        if kind != "absent" and mainname:
            p = d + "/" + mainname
            data = (contents or {}).get((i, 0))
            if kind == "regular":
                s.append("file %s %s" % (hx(p), hx(data if data is not None else body(i, 0, mshape))))
            elif kind == "empty":
                s.append("file %s x" % hx(p))
            elif kind == "dangling":
                s.append("symlink %s %s" % (hx(R + "/no/such/target"), hx(p)))
            else:
                s.append("symlink %s %s" % (hx("/dev/null"), hx(p)))
            paths[p] = (i, 0)
        for n in tree["drop"][i - 1]:
            dd = ddirs[(pd or {}).get((i, n), 1) - 1]
            p = d + "/" + dd + "/" + shape.rn(NAMES[n])
            data = (contents or {}).get((i, n))
            if tree.get("dnull") and n in tree["dnull"][i - 1]:
                # a drop-in switched off: by a link to /dev/null or, every second time, by an EMPTY regular file of that name
                if (i + n + len(tree["main"])) % 2:
                    s.append("symlink %s %s" % (hx("/dev/null"), hx(p)))
                else:
                    s.append("file %s x" % hx(p))
            else:
                s.append("file %s %s" % (hx(p), hx(data if data is not None else body(i, n, dshape))))
            paths[p] = (i, n)
    return s, paths


def norm(p):
    while "//" in p:
        p = p.replace("//", "/")
    return p


def listing_of_dump(d):
    st = d.get("st")
    if st is None:
        return None
    ents = []
    for sec in st["secs"]:
        for k in sec["keys"]:
            ents.append({"g": codes(sec["g"]) if sec["g"] is not None else [], "k": codes(k["k"]),
                         "v": codes(k["v"]) if k["v"] is not None else []})
    return ents


def as_map(ents):
    m = {}
    for e in ents:
        m.setdefault((tuple(e["g"]), tuple(e["k"])), tuple(e["v"]))
    return m


def f4_class(rec):
    """Known finding F4: without a main file the first consulted drop-in is the merge base and is never
    masked by a same-named drop-in of a higher layer."""
    K = [tuple(f) for f in rec["log"]]
    return bool(K) and K[0][1] != 0 and any(f[1] == K[0][1] for f in K[1:])


def f4_expect(rec):
    """expected map if (and only if) the first consulted drop-in stays unmasked: the reference result plus that file's
    entries wherever no later file defines the key (it is the merge base: everything else overrides it)."""
    m = as_map(rec["exp"]["ents"])
    l, r = rec["log"][0]
    if rec.get("dnull") and r in rec["dnull"][l - 1]:
        return m          # the unmasked first drop-in is a link to /dev/null: nothing of it can show
    dshape = rec["shp"][1]
    for sec, on in (("", dshape in "bnh"), ("S", dshape in "bs")):
        if on:
            m.setdefault((tuple(codes(sec)), tuple(codes("U" + idd(l, r)))), (49,))
            m.setdefault((tuple(codes(sec)), (75,)), tuple(codes("%d%d" % (l, r))))
    return m


def f4_tree(main, drop, pd=None):
    """f4_class computed from a tree: no main file that can be opened and the first consulted drop-in has a namesake in a
    higher layer (within a layer: drop-in directories in list order, names byte-wise)"""
    if any(k not in ("absent", "dangling") for k in main):
        return False
    seq = []
    for l in range(1, len(drop) + 1):
        ns = [n for n in drop[l - 1] if n not in (1, 7, 8)]
        seq += [(l, n) for n in sorted(ns, key=lambda n: ((pd[l - 1][n - 1] if pd else 1), NAMES[n].encode("latin-1")))]
    return bool(seq) and any(n == seq[0][1] for _, n in seq[1:])


def tree_text(t):
    nul = t.get("dnull") or [[] for _ in t["drop"]]
    return "main=%s drop=%s shape=%s" % (t["main"], [[NAMES[n] + ("->/dev/null" if n in nul[i] else "") for n in d] for i, d in enumerate(t["drop"])], t["shp"])


# --------------------------------------------------------------------------------------
# C01
# --------------------------------------------------------------------------------------
def replay_trees(exe, recs, shape, verdict, pid, check_log=True, check_order=False):
    cases = []
    metas = []
    shape0 = shape
    for i, r in enumerate(recs):
        R = ROOT + "/t%d" % (i % 16)
        # the suffix in play rotates from case to case (conf, ini, cfg2x: different lengths): consecutive layered reads of one
        # process must not remember anything about the previous call's suffix
        shape = Shape(shape0.name, shape0.nlay, shape0.opts, sfx=SUFFIXES[i % len(SUFFIXES)], cn=CFGNAMES[i % len(CFGNAMES)])
        t = {"main": r["main"], "drop": r["drop"], "shp": r["shp"], "dnull": r.get("dnull")}
        pdmap = {(l, n): r["pd"][l - 1][n - 1] for l in range(1, len(r["drop"]) + 1) for n in r["drop"][l - 1]} if r.get("pd") else None
        if pdmap and len(shape.layout(R)[2]) < 2:
            pdmap = None
        s, paths = materialise(t, shape, R, pd=pdmap)
        s = shape.pre(R) + s + shape.decoys(R) + shape.call(1, R, cb=True) + ["dump 1", "free 1"] + shape.post()
        cases.append((i, s))
        metas.append((t, paths))
    shape = shape0
    res = core.run_cases(exe, cases)
    n_ok = 0
    for i, r in enumerate(recs):
        t, paths = metas[i]
        out = res.get(i)
        case = {"kind": "tree", "shape": shape.name, "nlay": shape.nlay, "tree": t, "exp": {"rc": r["rc"], "ents": r["exp"]["ents"], "log": r["log"]}}
        fp = "%s:%s:%s" % (pid, shape.name, classify(t))
        if out is None or out["crash"]:
            verdict.violation(fp + ":crash", dict(case, crash=(out or {}).get("crash")),
                              "layered read crashed on tree %s (shape %s)\n%s" % (tree_text(t), shape.name, (out or {}).get("crash", "")[:900]))
            continue
        root = out["root"]
        ev = out["ev"]
        rd = next(e for e in ev if e["op"].startswith("read"))
        dm = next(e for e in ev if e["op"] == "dump")
        if rd["rc"] != r["rc"]:
            verdict.violation(fp + ":rc", dict(case, got=rd["rc"]), "tree %s (shape %s): expected %s, library returned %s" % (tree_text(t), shape.name, r["rc"], rd["rc"]))
            continue
        if r["rc"] == "ECONF_SUCCESS":
            got = listing_of_dump(dm)
            if got is None or as_map(got) != as_map(r["exp"]["ents"]) or (check_order and got != r["exp"]["ents"]):
                if got is not None and f4_class(r) and as_map(got) == f4_expect(r):
                    fp = "%s:%s:first-dropin-unmasked-without-main" % (pid, shape.name)
                verdict.violation(fp + ":content", dict(case, got=got),
                                  "tree %s (shape %s): result differs from the UAPI reference\nexpected %s\nlibrary  %s" % (
                                      tree_text(t), shape.name, show_ents(r["exp"]["ents"]), show_ents(got or [])))
                continue
        if check_log:
            rp = {norm(k.replace(ROOT, root)): v for k, v in paths.items()}
            log = []
            for c in rd.get("cb", []):
                p = norm(c["p"])
                if p.endswith("/.") or p.endswith("/.."):
                    continue          # Dev_DotEntriesWithoutSuffix: directory entries seen when no suffix is given
                log.append(list(rp.get(p, (0, p))))
            want = [list(x) for x in r["log"]]
            if log != want or not all(c["d"] for c in rd.get("cb", [])):
                verdict.violation(fp + ":callback-sequence", dict(case, got=log),
                                  "tree %s (shape %s): callback sequence %s, expected %s" % (tree_text(t), shape.name, log, want))
                continue
        n_ok += 1
    return n_ok


def show_ents(ents):
    return " ".join("%s/%s=%s" % (core.uncodes(e["g"]) or "-", core.uncodes(e["k"]), core.uncodes(e["v"])) for e in ents) or "(empty)"


def classify(t):
    f = []
    hasmain = [k for k in t["main"] if k != "absent"]
    if not hasmain:
        f.append("nomain")
    elif hasmain[-1] in ("empty", "devnull"):
        f.append("silent-main")
    names = [n for d in t["drop"] for n in d if n in CARRY]
    if len(names) != len(set(names)):
        f.append("masked")
    if names:
        f.append("dropins")
    return "+".join(f) or "mainonly"


def nontrivial_tree(r):
    nfiles = len(r["log"])
    return nfiles >= 2


def tree_export(nlay, nameset, maxdrops, shapes, invariants=("LayeredIsUapi", "HistoryFolds"), sample=1, seed=1, nd=1, maxnull=0):
    consts = {"ND": nd, "MaxNull": maxnull, "NLay": nlay, "NameSet": "{" + ",".join(str(n) for n in nameset) + "}", "MaxDrops": maxdrops,
              "Shapes": "{" + ",".join('"%s"' % s for s in shapes) + "}", "Export": "TRUE"}
    cfg = cfg_text(list(invariants), consts, constraint="ExportCase")
    cfg = cfg.replace("CONSTRAINT ExportCase", "CONSTRAINT Bound\nCONSTRAINT ExportCase")
    p = write_cfg(cfg)
    r = core.tlc_ok("MC_Layers", p, timeout=3000)
    recs = []
    n = 0
    for ln in r.out.splitlines():
        if ln.startswith('"{'):
            n += 1
            if sample > 1 and (n + seed) % sample:
                continue
            recs.append(json.loads(json.loads(ln)))
    recs.sort(key=canon)          # TLC's output order depends on worker scheduling
    return r, recs, n


def check_c01(exe, tier, seed, verdict):
    rnd = random.Random(seed)
    # exhaustive: 3 layers x 4 main kinds x all subsets of 3 (quick) / 4 (thorough) suffix-carrying names
    names = [3, 4, 6] if tier == "quick" else [3, 4, 5, 6]
    shapes = ["bb", "ns", "sn", "hs", "bh"] if tier == "quick" else ["bb", "ns", "sn", "nn", "ss", "bs", "hs", "hb", "sh", "bh", "hh"]
    r, recs, total = tree_export(3, names, 12, shapes[:1] if tier == "quick" else shapes[:1])
    if r.violated:
        verdict.violation("C01:model", {"tlc": r.out[-3000:]}, "TLC: Read(tree) differs from UapiRef(tree)\n" + r.out[-1500:])
    n = replay_trees(exe, recs, Shape("std"), verdict, "C01")
    states = r.distinct
    nn = sum(1 for x in recs if nontrivial_tree(x) and x["masked"] > 0 or (len(x["log"]) >= 2))
    evals = len(recs)
    samples = [{"tree": tree_text({"main": x["main"], "drop": x["drop"], "shp": x["shp"]}), "expect": x["rc"], "result": show_ents(x["exp"]["ents"])}
               for x in recs[7000:7002]]
    # other content shapes and the whole name pool (names without the suffix, dot file): bounded number of drop-ins
    r2, recs2, total2 = tree_export(3, [1, 2, 3, 4, 5, 6, 7, 8, 9, 10, 11], 2, shapes)
    if r2.violated:
        verdict.violation("C01:model", {"tlc": r2.out[-3000:]}, "TLC: Read(tree) differs from UapiRef(tree)\n" + r2.out[-1500:])
    if tier == "thorough":
        # (three drop-ins per tree over the nine-name pool, every fourth tree exported: TLC checks all of them, the replay of
        # 2.5 million trees with all their expectations no longer fits into memory next to the other checks)
        r2b, recs2b, total2b = tree_export(3, [1, 2, 3, 4, 5, 6, 7, 8, 9], 3, shapes, sample=4, seed=seed)
        if r2b.violated:
            verdict.violation("C01:model", {"tlc": r2b.out[-3000:]}, "TLC: Read(tree) differs from UapiRef(tree)\n" + r2b.out[-1500:])
        recs2 = recs2 + recs2b
        total2 += total2b
    if tier == "quick":
        recs2 = rnd.sample(recs2, min(len(recs2), 12000))
    n += replay_trees(exe, recs2, Shape("std"), verdict, "C01")
    evals += len(recs2)
    states += r2.distinct
    nn += sum(1 for x in recs2 if len(x["log"]) >= 2)
    # drop-ins switched off by a symbolic link to /dev/null (at most one per tree): the link masks the same-named files of the
    # lower layers and contributes nothing
    r5, recs5, total5 = tree_export(3, [3, 6], 6, ["bb"], maxnull=1)
    if r5.violated:
        verdict.violation("C01:model", {"tlc": r5.out[-3000:]}, "TLC: Read differs from UapiRef with /dev/null drop-ins\n" + r5.out[-1500:])
    recs5 = [x for x in recs5 if any(x["dnull"])]
    if tier == "quick" and len(recs5) > 2500:
        recs5 = rnd.sample(recs5, 2500)
    n += replay_trees(exe, recs5, Shape("std"), verdict, "C01")
    evals += len(recs5)
    states += r5.distinct
    # parameter shapes x covering trees
    cover = rnd.sample(recs, 300) + rnd.sample(recs2, 300)
    pshapes = ["dotsuffix", "noproject"]
    for sn in pshapes:
        n += replay_trees(exe, cover, Shape(sn), verdict, "C01")
        evals += len(cover)
    # drop-in directory LISTS (CONFIG_DIRS option, econf_set_conf_dirs): every drop-in sits in one of two postfix
    # directories; within a layer the directories are applied in list order
    r4, recs4, total4 = tree_export(3, [3, 6], 4, ["bb"], nd=2)
    if r4.violated:
        verdict.violation("C01:model", {"tlc": r4.out[-3000:]}, "TLC: Read differs from UapiRef with two postfix directories\n" + r4.out[-1500:])
    states += r4.distinct
    for sn in ("config_dirs", "set_conf_dirs", "config_dirs_over_global"):
        cc4 = recs4 if tier == "thorough" or len(recs4) <= 1500 else rnd.sample(recs4, 1500)
        n += replay_trees(exe, cc4, Shape(sn), verdict, "C01")
        evals += len(cc4)
    # shapes that change the tree universe
    for sn, nlay in (("parsing_dirs", 1), ("parsing_dirs", 2), ("parsing_dirs", 4), ("readdirs", 2), ("readdirs_nulldist", 2)):
        if sn == "readdirs_nulldist":
            rr, cc, _ = tree_export(2, [3, 6], 4, ["bb"])
            cc = [x for x in cc if x["main"][0] == "absent" and not x["drop"][0]]
        else:
            rr, cc, _ = tree_export(nlay, [3, 4, 6] if nlay < 4 else [3, 6], 12 if (nlay < 4 or tier == "thorough") else 4, ["bb"])
        if rr.violated:
            verdict.violation("C01:model", {"tlc": rr.out[-3000:]}, "TLC: Read(tree) differs from UapiRef(tree) (NLay=%d)" % nlay)
        if len(cc) > 600:
            cc = rnd.sample(cc, 600)
        n += replay_trees(exe, cc, Shape(sn, nlay), verdict, "C01")
        evals += len(cc)
        states += rr.distinct
    # no main file at all: <project>.d drop-ins only
    nomain = [x for x in recs if all(k == "absent" for k in x["main"])]
    n += replay_trees(exe, nomain, Shape("noname"), verdict, "C01")
    evals += len(nomain)
    # suffix absent: every name counts
    rs, cs, _ = tree_export(3, [1, 6, 7, 8], 2 if tier == "quick" else 4, ["bb"], invariants=("HistoryFolds",))
    n += replay_nosuffix(exe, cs, verdict)
    evals += len(cs)
    # project and config name both NULL: refused, not crash
    n += check_null_args(exe, verdict)
    # layered reads over trees with RANDOM conventional contents (the trees above carry contents by identity):
    # predicted by the root specification's concrete layered read (Econf!ReadDirsResult)
    from . import p_econf
    nmix = 150 if tier == "quick" else 3000
    n += p_econf.run_mixed(exe, random.Random(seed + 1), nmix, verdict, "C01")
    evals += nmix
    cov = {"states": states, "transitions": states, "traces_validated_against_impl": n,
           "evaluations": evals, "distinct_nontrivial": nn,
           "rule": "(the suffix - conf / ini / cfg2x - and the configuration's name - cfg / a.b / x y / n=1 / org.example.app - rotate from tree to tree within one driver process) TLC enumerates every tree: 3 layers x main {absent,regular,empty,/dev/null} x every subset of %d suffix-carrying drop-in names per layer (%d trees, all replayed through econf_readConfigWithCallback with ROOT_PREFIX) + whole name pool (dot file, names without the suffix, name not longer than the suffix) with <= %d drop-ins x %d content-shape pairs (%d trees) + parameter shapes (suffix with dot, project NULL, CONFIG_DIRS list, econf_set_conf_dirs, PARSING_DIRS with 1/2/4 layers, econf_readDirs, NULL directory, <project>.d without config name, absent suffix, project+name NULL) x covering trees. Compared: return code, unordered (section,key)->value map, callback path sequence. non-trivial = >= 2 files consulted." % (
               len(names), total, 2 if tier == "quick" else 3, len(shapes), total2),
           "samples": samples, "exhaustive": True,
           "trusted_base": ["TLC 1.8.0", "gcc ASan/UBSan", "drv.c materialises trees at the documented paths"]}
    return cov


def replay_nosuffix(exe, recs, verdict):
    """suffix absent (NULL): main file <name>, drop-in directory <name>.d, every file name counts.
    The model's Carries() is the suffix rule, so expectations are recomputed here from the exported
    per-file observations: main + all drop-ins ascending by (layer, byte order), masking by name."""
    shape = Shape("nosuffix")
    cases = []
    for i, r in enumerate(recs):
        R = ROOT + "/t%d" % (i % 16)
        t = {"main": r["main"], "drop": r["drop"], "shp": r["shp"]}
        s, paths = materialise(t, shape, R)
        cases.append((i, s + shape.call(1, R, cb=True) + ["dump 1", "free 1"]))
    res = core.run_cases(exe, cases)
    ok = 0
    for i, r in enumerate(recs):
        t = {"main": r["main"], "drop": r["drop"], "shp": r["shp"]}
        out = res.get(i)
        fp = "C01:nosuffix:%s" % classify(t)
        if out is None or out["crash"]:
            verdict.violation(fp + ":crash", {"kind": "tree", "shape": "nosuffix", "tree": t, "crash": (out or {}).get("crash")},
                              "layered read without suffix crashed on %s\n%s" % (tree_text(t), (out or {}).get("crash", "")[:900]))
            continue
        rd = next(e for e in out["ev"] if e["op"].startswith("readconfig"))
        dm = next(e for e in out["ev"] if e["op"] == "dump")
        # reference: highest main, then for each name its highest layer, ascending (layer, name)
        files = []
        hm = [l for l, k in enumerate(t["main"], 1) if k != "absent"]
        if hm:
            files.append((hm[-1], 0))
        eff = []
        for l, d in enumerate(t["drop"], 1):
            for n in sorted(d, key=lambda n: NAMES[n].encode("latin-1")):
                if not any(n in t["drop"][j] for j in range(l, len(t["drop"]))):
                    eff.append((l, n))
        files += eff
        want = {}
        for (l, rr) in files:
            if rr == 0 and t["main"][l - 1] != "regular":
                continue
            for sec in ("", "S"):
                want[(tuple(codes(sec)), (75,))] = tuple(codes("%d%d" % (l, rr)))
                want[(tuple(codes(sec)), tuple(codes("U" + idd(l, rr))))] = (49,)
        exp_rc = "ECONF_SUCCESS" if (hm or any(t["drop"])) else "ECONF_NOFILE"
        got = listing_of_dump(dm)
        if rd["rc"] != exp_rc or (exp_rc == "ECONF_SUCCESS" and as_map(got or []) != want):
            verdict.violation(fp + ":content", {"kind": "tree", "shape": "nosuffix", "tree": t, "got": got, "rc": rd["rc"]},
                              "tree %s read without suffix: rc %s (expected %s), result %s" % (tree_text(t), rd["rc"], exp_rc, show_ents(got or [])))
            continue
        ok += 1
    return ok


def check_null_args(exe, verdict):
    R = ROOT + "/nullargs"
    s = ["newopt 1 %s" % hx("ROOT_PREFIX=" + R), "readconfig 1 - %s - %s x3d x23" % (hx("/usr/lib"), hx("conf")), "free 1",
         "readconfig 2 - %s - %s x3d x23" % (hx("/usr/lib"), hx("conf")), "free 2",
         "readconfig 3 - - - - x3d x23", "free 3"]
    out = core.run_cases(exe, [("na", s)], jobs=1)["na"]
    if out["crash"]:
        verdict.violation("C01:nullargs:crash", {"kind": "script", "script": s, "crash": out["crash"]},
                          "econf_readConfig with project == NULL and config_name == NULL crashed instead of refusing\n" + out["crash"][:900])
        return 0
    for e in out["ev"]:
        if e["op"] == "readconfig" and e["rc"] == "ECONF_SUCCESS":
            verdict.violation("C01:nullargs:accepted", {"kind": "script", "script": s, "ev": e}, "project and config name both NULL accepted")
            return 0
    return 1


# --------------------------------------------------------------------------------------
# C06: callback protocol
# --------------------------------------------------------------------------------------
POISON = "[poison\n"


def fault_script(tree, shape, R, rej_files, late=True, entry="cfg", pd=None):
    """Materialise with late-bound content: every regular file holds a poison line (a parse error)
    until the callback is called for it; rej_files: set of (l, r) the callback rejects."""
    s, paths = materialise(tree, shape, R, pd=pd)
    pre = []
    mshape, dshape = tree["shp"][0], tree["shp"][1]
    if late:
        s2 = []
        for ln in s:
            s2.append(ln)
        s = ["rm %s" % hx(R)]
        for p, (l, r) in paths.items():
            kind = tree["main"][l - 1] if r == 0 else "regular"
            if kind == "regular":
                s.append("file %s %s" % (hx(p), hx(POISON)))
                pre.append("cblate %s %s" % (hx(p), hx(body(l, r, mshape if r == 0 else dshape))))
            elif kind == "empty":
                s.append("file %s %s" % (hx(p), hx(POISON)))
                pre.append("cblate %s x" % hx(p))
            else:
                s.append("symlink %s %s" % (hx("/dev/null"), hx(p)))
    rej = []
    for p, f in paths.items():
        if f in rej_files:
            rej.append(p)
    return s, pre, paths, rej


def round_robin(rnd, pools):
    """one list out of several pools, taking from each in turn (every pool shuffled; a pool given twice gets a double share): every
    entry point has its share of a budget that covers only the beginning of the list"""
    seen = {}
    its = []
    for p_ in pools:
        if id(p_) not in seen:
            q = list(p_)
            rnd.shuffle(q)
            seen[id(p_)] = iter(q)
        its.append(seen[id(p_)])
    out = []
    live = True
    while live:
        live = False
        for it in its:
            v = next(it, None)
            if v is not None:
                out.append(v)
                live = True
    return out


def check_c06(exe, tier, seed, verdict):
    rnd = random.Random(seed)
    mc = core.tlc_ok("MC_Callback", os.path.join(core.SPEC, "MC_Callback.cfg"), timeout=3000)
    if mc.violated:
        verdict.violation("C06:model", {"tlc": mc.out[-3000:]}, "TLC: callback protocol invariant violated in the model\n" + mc.out[-1500:])
    # trees: 3 layers, names {2,5}: every tree, every single rejected position + random subsets
    r, recs, total = tree_export(3, [3, 6], 12, ["bb"])
    r2, recs2, _ = tree_export(2, [3, 4, 6], 12, ["bb"])
    entries3 = ["std"]
    entries2 = ["readdirscb", "readhistcb", "rc2cb", "readdirscb_rel", "readhistcb_rel"]
    scen = []
    budget = 1500 if tier == "quick" else 20000
    r1, recs1, _ = tree_export(1, [], 0, ["bb"])
    pool = round_robin(rnd, [[(x, "std") for x in recs if len(x["log"]) >= 1]] * 2 + [[(x, e) for x in recs2 if len(x["log"]) >= 1] for e in entries2])
    # two drop-in directories per layer (CONFIG_DIRS list / econf_set_conf_dirs): a rejection in the first directory must
    # not be forgotten when the second one is read
    r4, recs4, _ = tree_export(3, [3, 6], 4, ["bb"], nd=2)
    pool2 = [(x, e) for x in recs4 if len(x["log"]) >= 2 and any(2 in row for row in x["pd"]) for e in ("config_dirs", "set_conf_dirs")]
    rnd.shuffle(pool2)
    pool = [(x, "readfilecb") for x in recs1] * 3 + pool2[:len(pool2) if tier == "thorough" else 120] + pool
    for x, ent in pool:
        K = [tuple(f) for f in x["log"]]
        choices = [set()] + [{f} for f in K]
        if len(K) >= 3:
            choices.append(set(rnd.sample(K, 2)))
        for rej in choices:
            scen.append((x, ent, rej))
        if len(scen) >= budget:
            break
    cases = []
    metas = []
    for i, (x, ent, rej) in enumerate(scen):
        R = ROOT + "/c%d" % (i % 16)
        t = {"main": x["main"], "drop": x["drop"], "shp": x["shp"]}
        shape = Shape(ent, len(x["main"]))
        pdmap = {(l, n): x["pd"][l - 1][n - 1] for l in range(1, len(x["drop"]) + 1) for n in x["drop"][l - 1]} if ent in ("config_dirs", "set_conf_dirs") else None
        s, pre, paths, rejp = fault_script(t, shape, R, rej, pd=pdmap)
        sc = s + ["cbreset"] + pre
        if i % 3 == 0:
            # the caller's callback itself performs a LAYERED read of an unrelated configuration (a policy, say) with its own main
            # file and drop-ins before it answers: the outer read must go on with the file it asked about
            N = R + "/nested"
            sc += ["file %s %s" % (hx(N + "/etc/pol.conf"), hx("K=nested\nN=1\n")), "file %s %s" % (hx(N + "/usr/pol.conf.d/aa.conf"), hx("A=1\n")),
                   "file %s %s" % (hx(N + "/etc/pol.conf.d/zz.conf"), hx("K=evil\nEVIL=1\n[S]\nK=evil\n")),
                   "cbreaddirs %s %s %s %s" % (hx(N + "/usr"), hx(N + "/etc"), hx("pol"), hx("conf"))]
        # rejection by exact path (one) or by k-th call
        K = [tuple(f) for f in x["log"]]
        mask = 0
        for f in rej:
            mask |= 1 << K.index(f)
        sc.append("cbrejectk %d" % mask)
        # every second scenario next to process-wide requirements that every file of the tree FULFILS (owner, group, permission
        # masks, set in varying order): the library's own checks pass, the caller's check is still asked about every file
        req = [["requireperms 444 555"], ["requireowner 0", "requireperms 444 555"], ["requireperms 004 001", "requiregroup 0"], ["requireowner 0"]][(i // 2) % 4] if i % 2 else []
        # the callback opens a descriptor of its own at every call and keeps it: afterwards all of them are still open, and the
        # library closed no descriptor that was not open (fdcheck)
        sc += req + shape.pre(R) + ["cbopenfd 1"] + shape.call(1, R, cb=True) + ["fdcheck", "cbopenfd 0"] + shape.post() + (["resetsec"] if req else [])
        if ent.startswith("readhistcb"):
            sc += ["dump %d" % h for h in range(1, 9)] + ["free %d" % h for h in range(1, 9)]
        else:
            sc += ["dump 1", "free 1"]
        sc += ["cbreset"]
        cases.append((i, sc))
        metas.append((t, paths, K, rej, ent))
    res = core.run_cases(exe, cases)
    events = []
    n_scen = 0
    nn = 0
    for i, (x, ent, rej) in enumerate(scen):
        t, paths, K, rejs, _ = metas[i]
        out = res.get(i)
        fp = "C06:%s:rej%d" % (ent, len(rej))
        case = {"kind": "callback", "entry": ent, "tree": t, "rejected": sorted(rej)}
        if out is None or out["crash"]:
            verdict.violation(fp + ":crash", dict(case, crash=(out or {}).get("crash")),
                              "read with callback crashed: %s rejecting %s\n%s" % (tree_text(t), sorted(rej), (out or {}).get("crash", "")[:900]))
            continue
        root = out["root"]
        rp = {norm(k.replace(ROOT, root)): v for k, v in paths.items()}
        if ent.endswith("_rel"):      # relative directory arguments: only the relative composition is "the exact path"
            rp = {norm(k.replace(ROOT + "/c%d/" % (i % 16), "")): v for k, v in paths.items()}
        rd = next(e for e in out["ev"] if e["op"].startswith("read"))
        dumps = [e for e in out["ev"] if e["op"] == "dump"]
        fds_ok = all(e["bad"] == 0 for e in out["ev"] if e["op"] == "fdcheck")
        # trace: Begin, Callback*, End
        events.append({"e": "begin", "main": t["main"], "drop": t["drop"], "shp": t["shp"], "nlay": len(t["main"]),
                       "faults": [{"f": list(f), "x": ["reject"]} for f in sorted(rej)], "attrs": [],
                       "flags": {"owner": False, "group": False, "nosym": False}, "setters": [],
                       "pd": x["pd"] if ent in ("config_dirs", "set_conf_dirs") else [[1] * len(NAMES) for _ in t["main"]]})
        for c in rd.get("cb", []):
            f = rp.get(norm(c["p"]), (0, 0))
            events.append({"e": "callback", "f": list(f), "verdict": c["v"], "data_ok": c["d"]})
        if ent.startswith("readhistcb"):
            ents = None
            nobj = rd["n"]
            hist = []
            absrp = {norm(k.replace(ROOT, root)): v for k, v in paths.items()}     # econf_getPath is absolute also for relative names (C17)
            if ent.endswith("_rel"):
                # a relative name is made absolute with realpath(): a main file that is a link to /dev/null reports the
                # link target; only the highest such main file is ever consulted
                dn = [f for f in sorted(paths.values()) if f[1] == 0 and t["main"][f[0] - 1] == "devnull"]
                if dn:
                    absrp["/dev/null"] = dn[-1]
            for h in range(rd["n"]):
                d = dumps[h]
                hist.append({"f": list(absrp.get(norm(d["st"]["path"]), (0, 0))) if d["st"] else [0, 0],
                             "obs": {"groups": sections_of(d), "ents": listing_of_dump(d) or []}})
            events.append({"e": "end", "rc": rd["rc"], "has_obj": bool(rd["arr"]), "kind": "hist", "hist": hist, "ents": [], "heap_ok": True, "fds_ok": fds_ok, "cbused": True})
        else:
            got = listing_of_dump(dumps[0]) if dumps and dumps[0]["st"] else None
            events.append({"e": "end", "rc": rd["rc"], "has_obj": bool(rd.get("obj")) and not (rd["rc"] != "ECONF_SUCCESS" and rd.get("same")),
                           "kind": "visible" if f4_class(x) else "cfg", "hist": [], "heap_ok": True, "fds_ok": fds_ok, "cbused": True,
                           "ents": sorted_ents(got or [])})
        n_scen += 1
        if len(K) >= 3 and rej and K.index(sorted(rej, key=K.index)[0]) > 0:
            nn += 1
    ok, tr, _ = core.validate_trace("Trace_Layers", os.path.join(core.SPEC, "Trace_Layers.cfg"), events, timeout=3000)
    mism = [x for x in tr.json_lines() if "mismatch" in x]
    if not ok and not mism:
        raise core.ToolFailure("Trace_Layers did not consume the trace:\n" + tr.out[-2500:])
    for x in mism[:40]:
        i = x["mismatch"] - 1
        # find the Begin of this scenario
        j = i
        while j > 0 and events[j]["e"] != "begin":
            j -= 1
        k = j + 1
        while k < len(events) and events[k]["e"] != "begin":
            k += 1
        verdict.violation("C06:trace:%s" % events[i]["e"], {"kind": "callback-trace", "events": events[j:k], "rejected_at": i - j, "spec": x.get("spec")},
                          "callback trace rejected by Trace_Layers at event %d (%s):\n%s\nspec expected: %s" % (
                              i - j, events[i]["e"], "\n".join(json.dumps(e) for e in events[j:k])[:1500], canon(x.get("spec"))))
    acc = n_scen - len(mism)
    cov = {"states": mc.distinct, "transitions": mc.generated, "traces_validated_against_impl": acc,
           "evaluations": n_scen, "distinct_nontrivial": nn,
           "rule": "(every second scenario runs next to process-wide owner / group / permission requirements that every file fulfils) MC_Callback: all trees (2 names, 3 layers) x all verdict vectors in the multi-step model (Begin, Callback*, End). Traces: %d scenarios = trees of 3 layers (econf_readConfigWithCallback) and 2 layers (econf_readDirsWithCallback, econf_readDirsHistoryWithCallback, econf_readConfigWithCallback+PARSING_DIRS) x {accept all, reject each single consulted file, reject a random pair}; every regular file holds a poison line until the callback has been called for it (late-bound content); recorded Callback(path,verdict,data pointer) and End(code,out-pointer,result) events validated by Trace_Layers.tla. non-trivial = >= 3 consulted files and the first rejected one is not the first." % n_scen,
           "samples": [events[0], events[1]] if len(events) > 1 else events, "exhaustive": False,
           "trusted_base": ["TLC 1.8.0", "gcc ASan/UBSan", "drv.c callback + late-bound content"]}
    return cov


def sections_of(d):
    st = d.get("st")
    if not st:
        return []
    bearing = []
    for sec in st["secs"]:
        if sec["g"] is not None and sec["keys"] and codes(sec["g"]) not in bearing:
            bearing.append(codes(sec["g"]))
    return [g for g in [codes(x) for x in st["groups"]] if g in bearing]


def sorted_ents(ents):
    # unordered map as a sorted list of first definitions
    m = {}
    for e in ents:
        m.setdefault((tuple(e["g"]), tuple(e["k"])), e)
    return [m[k] for k in sorted(m)]


# --------------------------------------------------------------------------------------
# C12: entry points agree, history faithful
# --------------------------------------------------------------------------------------
def check_c12(exe, tier, seed, verdict):
    rnd = random.Random(seed)
    names = [3, 4, 6]
    r, recs, total = tree_export(2, names, 12, ["bb", "ns", "sn", "hs", "bh"] if tier == "thorough" else ["bb", "sn", "hs"], maxnull=1)
    if r.violated:
        verdict.violation("C12:model", {"tlc": r.out[-3000:]}, "TLC: HistoryFolds / LayeredIsUapi violated for 2 layers\n" + r.out[-1500:])
    if tier == "quick" and len(recs) > 1500:
        recs = rnd.sample(recs, 1500)
    entries = ["readdirs", "readdirscb", "rc2", "rc2cb", "readhist", "readhistcb"]
    cases = []
    metas = []
    SPECIAL = [":v2", ";x", " sp", "=#", "%s", "[a]", "\\", "..d", "\xc3\xa4", "tb ", "\ttab"]
    ents_of = {}
    for i, x in enumerate(recs):
        # every fourth tree lives in a directory whose name holds characters that mean something elsewhere (list separators of
        # the option strings, blanks, delimiter / comment / format characters, brackets): the entry points take the two
        # directories verbatim (only the option-string route cannot name such a directory and is left out there)
        special = i % 4 == 3
        R = ROOT + "/e%d%s" % (i % 16, SPECIAL[(i // 4) % len(SPECIAL)] if special else "")
        sp_ = SPECIAL[(i // 4) % len(SPECIAL)] if special else ""
        ents_of[i] = [e for e in entries if not (e.startswith("rc2") and (":" in sp_ or ";" in sp_))]
        t = {"main": x["main"], "drop": x["drop"], "shp": x["shp"], "dnull": x.get("dnull")}
        s, paths = materialise(t, Shape("readdirs", 2), R)
        sc = list(s)
        h = 1
        for ent in ents_of[i]:
            sh = Shape(ent, 2)
            call = sh.call(h, R, cb=ent.endswith("cb"))
            sc += ["cbreset"] + call
            if ent.startswith("readhist"):
                sc += ["dump %d" % k for k in range(h, h + 8)] + ["free %d" % k for k in range(h, h + 8)]
            else:
                sc += ["dump %d" % h, "free %d" % h]
            h += 10
        # suffix spellings / process-wide drop-in list on the same tree
        sc += ["setconfdirs %s" % hx(".conf.d"), "readdirs 70 %s %s %s %s x3d x23" % (hx(R + "/usr/etc"), hx(R + "/etc"), hx("cfg"), hx(".conf")),
               "dump 70", "free 70", "setconfdirs"]
        # the two directories given as RELATIVE names (the process stands in the tree's root) - right after a read with the SAME
        # relative names from another working directory (a small tree of its own)
        sc += ["file %s %s" % (hx(R + "/elsewhere/etc/cfg.conf"), hx("ELSEWHERE=1\n")), "file %s %s" % (hx(R + "/elsewhere/usr/etc/cfg.conf.d/e.conf"), hx("E=1\n")),
               "chdir %s" % hx(R + "/elsewhere"), "readdirs 84 %s %s %s %s x3d x23" % (hx("usr/etc"), hx("etc"), hx("cfg"), hx("conf")), "free 84"]
        sc += ["chdir %s" % hx(R), "cbreset", "readdirs 80 %s %s %s %s x3d x23" % (hx("usr/etc"), hx("etc"), hx("cfg"), hx("conf")), "dump 80", "free 80",
               "readdirscb 81 %s %s %s %s x3d x23" % (hx("usr/etc"), hx("etc"), hx("cfg"), hx("conf")), "dump 81", "free 81", "chdir %s" % hx("/")]
        # the two directories spelt with a trailing slash / with doubled slashes
        sc += ["cbreset", "readdirs 82 %s %s %s %s x3d x23" % (hx(R + "/usr/etc/"), hx(R + "/etc/"), hx("cfg"), hx("conf")), "dump 82", "free 82",
               "readdirscb 83 %s %s %s %s x3d x23" % (hx(R + "//usr//etc"), hx(R + "/etc//"), hx("cfg"), hx("conf")), "dump 83", "free 83"]
        cases.append((i, sc))
        metas.append((t, paths))
    res = core.run_cases(exe, cases)
    ok = 0
    nn = 0
    for i, x in enumerate(recs):
        t, paths = metas[i]
        out = res.get(i)
        fp = "C12:%s" % classify(t)
        case = {"kind": "entrypoints", "tree": t, "exp": {"rc": x["rc"], "ents": x["exp"]["ents"], "hist": x["hist"]}}
        if out is None or out["crash"]:
            verdict.violation(fp + ":crash", dict(case, crash=(out or {}).get("crash")), "entry points crashed on %s\n%s" % (tree_text(t), (out or {}).get("crash", "")[:900]))
            continue
        root = out["root"]
        rp = {norm(k.replace(ROOT, root)): v for k, v in paths.items()}
        ev = out["ev"]
        # split events per entry point
        reads = [(j, e) for j, e in enumerate(ev) if e["op"].startswith("read")]
        bad = False
        for (j, rd), ent in zip(reads, ents_of[i] + ["readdirs+set_conf_dirs", None, "readdirs(relative directories)", "readdirscb(relative directories)", "readdirs(trailing slashes)", "readdirscb(doubled slashes)"]):
            if ent is None:         # (the read from the other working directory: only there to come first)
                continue
            nxt = [e for e in ev[j + 1:j + 10] if e["op"] == "dump"]
            if rd["rc"] != x["rc"]:
                verdict.violation(fp + ":rc:" + ent, dict(case, entry=ent, got=rd["rc"]), "%s on %s: rc %s, expected %s" % (ent, tree_text(t), rd["rc"], x["rc"]))
                bad = True
                break
            if x["rc"] != "ECONF_SUCCESS":
                continue
            if ent.startswith("readhist"):
                nmem = rd["n"]
                hist = []
                for d in nxt[:nmem]:
                    st = d["st"]
                    hist.append({"f": list(rp.get(norm(st["path"]), (0, 0))) if st else [0, 0],
                                 "obs": {"groups": sections_of(d), "ents": listing_of_dump(d) or []}})
                if hist != x["hist"]:
                    verdict.violation(fp + ":history:" + ent, dict(case, entry=ent, got=hist),
                                      "%s on %s: history %s\nexpected %s" % (ent, tree_text(t), canon(hist)[:600], canon(x["hist"])[:600]))
                    bad = True
                    break
            else:
                got = listing_of_dump(nxt[0]) if nxt else None
                if got is None or as_map(got) != as_map(x["exp"]["ents"]):
                    if got is not None and f4_class(x) and as_map(got) == f4_expect(x):
                        fp = "C12:first-dropin-unmasked-without-main"
                    verdict.violation(fp + ":content:" + ent, dict(case, entry=ent, got=got),
                                      "%s on %s: result %s\nexpected %s" % (ent, tree_text(t), show_ents(got or []), show_ents(x["exp"]["ents"])))
                    bad = True
                    break
        if not bad:
            ok += 1
            if len(x["log"]) >= 2:
                nn += 1
    # NULL / empty directory arguments
    ok += check_null_dirs(exe, verdict)
    ok += check_blank_dirs(exe, verdict)
    ok += check_option_object_reuse(exe, verdict)
    ok += check_confdirs(exe, rnd.sample(recs, min(len(recs), 300)), verdict)
    nreq = check_requirements_agree(exe, rnd.sample(recs, min(len(recs), 400 if tier == "quick" else 3000)), verdict)
    ok += nreq
    # suffix absent / empty: every directory entry counts (names with and without ".conf", dot files)
    rns, recsns, _ = tree_export(2, [1, 6, 7, 8], 4, ["bb", "hs"], invariants=("HistoryFolds",))
    if tier == "quick" and len(recsns) > 600:
        recsns = rnd.sample(recsns, 600)
    nns = check_nosuffix_fold(exe, recsns, verdict)
    ok += nns
    ok += check_longnames_fold(exe, verdict)
    cov = {"states": r.distinct, "transitions": r.generated, "traces_validated_against_impl": ok,
           "evaluations": len(recs) * 9, "distinct_nontrivial": nn,
           "rule": "every 2-layer tree (main x4 per layer, every subset of 3 names per layer, content shapes) exported by TLC (%d trees, %d replayed): econf_readDirs, econf_readDirsWithCallback, econf_readConfig(+WithCallback) with PARSING_DIRS=<the same two directories>, econf_readDirsHistory(+WithCallback) econf_readDirs under econf_set_conf_dirs, and econf_readDirs(+WithCallback) with the directories as relative names, with trailing and with doubled slashes are all run on the SAME tree and each compared with the specification's expectation (so with each other; every fourth tree in a directory whose name holds list separators, blanks, delimiter / comment / format characters, brackets or non-ASCII bytes - all entry points; the option-string route is left out only where the name holds its list separators `:` `;`); history members: path -> file identity, own content, order; model invariant HistoryFolds: folding the history with masking gives the result. The same under a non-default process-wide drop-in directory list (for every second tree put in force AFTER the option objects of the econf_readConfig variants were made), and with the suffix NULL / empty (every directory entry counts; %d trees over the names .conf, a.conf, a.conf.bak, conf): all merged-result entry points agree, both history variants agree and the delivered history folded with masking (Trace_Layers!THistFold) gives the result; the same with ONE drop-in name of 6, 64, 200, 254 and 255 bytes present in both layers. While a process-wide requirement (owner / group / file permission bits / directory permission bits, in rotation) is in force that one file of the tree does not fulfil, the six entry points answer with the same return code and result (%d trees). non-trivial = >= 2 files consulted and all seven calls compared." % (total, len(recs), nns, nreq),
           "samples": [{"tree": tree_text({"main": x["main"], "drop": x["drop"], "shp": x["shp"]}), "history": x["hist"]} for x in recs[100:101]],
           "exhaustive": tier == "thorough",
           "trusted_base": ["TLC 1.8.0", "gcc ASan/UBSan", "drv.c"]}
    return cov


def check_requirements_agree(exe, recs, verdict):
    """C12 while a process-wide requirement is in force that ONE file of the tree does not fulfil (owner, group, file permission
    bits, permission bits of its directory): all six entry points are run on the same tree and must answer with the same return
    code and - where they succeed - the same result (no expectation from the model is used: the entry points are compared with
    each other; what the requirement means is C16's business)."""
    entries = ["readdirs", "readdirscb", "rc2", "rc2cb", "readhist", "readhistcb"]
    cases, metas = [], []
    kinds = ["owner", "group", "fileperm", "dirperm"]
    for i, x in enumerate(recs):
        R = ROOT + "/q%d" % (i % 16)
        t = {"main": x["main"], "drop": x["drop"], "shp": x["shp"], "dnull": x.get("dnull")}
        s, paths = materialise(t, Shape("readdirs", 2), R)
        files = sorted(p for p in paths if p)
        if not files:
            continue
        kind = kinds[i % 4]
        victim = files[(i // 4) % len(files)]
        sc = list(s)
        if kind == "owner":
            sc += ["chown %s 1 0" % hx(victim), "requireowner 0"]
        elif kind == "group":
            sc += ["chown %s 0 1" % hx(victim), "requiregroup 0"]
        elif kind == "fileperm":
            sc += ["chmod %s 640" % hx(victim), "requireperms 004 001"]
        else:
            sc += ["chmod %s 750" % hx(os.path.dirname(victim)), "requireperms 004 001"]
        h = 1
        for ent in entries:
            sc += ["cbreset"] + Shape(ent, 2).call(h, R, cb=ent.endswith("cb"))
            sc += ["dump %d" % h, "free %d" % h] if not ent.startswith("readhist") else ["free %d" % k for k in range(h, h + 8)]
            h += 10
        sc += ["resetsec", "chmod %s 755" % hx(os.path.dirname(victim))]
        cases.append((i, sc))
        metas.append((i, t, kind, victim))
    res = core.run_cases(exe, cases)
    ok = 0
    for i, t, kind, victim in metas:
        out = res.get(i)
        fp = "C12:requirement:%s" % kind
        case = {"kind": "requirements", "tree": t, "requirement": kind, "victim": victim.replace(ROOT, "")}
        if out is None or out["crash"]:
            verdict.violation(fp + ":crash", dict(case, crash=(out or {}).get("crash")), "entry points crashed under a %s requirement on %s" % (kind, tree_text(t)))
            continue
        ev = out["ev"]
        reads = [(j, e) for j, e in enumerate(ev) if e["op"].startswith("read")]
        rcs = [e["rc"] for _, e in reads]
        lists = []
        for (j, rd), ent in zip(reads, entries):
            if not ent.startswith("readhist"):
                nxt = [e for e in ev[j + 1:j + 3] if e["op"] == "dump"]
                lists.append(as_map(listing_of_dump(nxt[0]) or []) if nxt and rd["rc"] == "ECONF_SUCCESS" else None)
        if len(set(rcs)) != 1 or any(l != lists[0] for l in lists):
            verdict.violation(fp, dict(case, got=dict(zip(entries, rcs))),
                              "entry points disagree on %s while a %s requirement is in force that %s does not fulfil: %s" % (tree_text(t), kind, victim.replace(ROOT, ""), dict(zip(entries, rcs))))
        else:
            ok += 1
    return ok


def check_confdirs(exe, recs, verdict):
    """C12 with a NON-default process-wide drop-in directory list: <name>.conf.d AND <name>/alt.d, the second one
    populated.  All merged-result entry points must agree, both history variants must agree, and the history
    folded with masking (Trace_Layers!THistFold, FoldMerge of the specification) must give that result."""
    cases = []
    for i, x in enumerate(recs):
        R = ROOT + "/cd%d" % (i % 16)
        t = {"main": x["main"], "drop": x["drop"], "shp": x["shp"]}
        s, paths = materialise(t, Shape("readdirs", 2), R)
        for l, d in ((1, R + "/usr/etc"), (2, R + "/etc")):
            if (i + l) % 3:
                s.append("file %s %s" % (hx(d + "/cfg/alt.d/zz-alt%d.conf" % l), hx("K=alt%d\nALT%d=1\n" % (l, l))))
            if (i + l) % 4 == 0:   # same name as a normal drop-in of the other postfix directory of a HIGHER layer is avoided: unique names only
                s.append("file %s %s" % (hx(d + "/cfg/alt.d/y-alt.conf"), hx("Y=%d\n" % l)))
        # every second tree: the option objects of the two econf_readConfig variants are made BEFORE the list is put in force
        # (while another list, or the default one, is): what counts is the list in force when the read happens
        early = {}
        sc = list(s)
        if i % 2:
            if i % 4 == 1:
                sc.append("setconfdirs %s" % hx(".other.d"))
            for ent, hh in (("rc2", 21), ("rc2cb", 31)):
                c_ = Shape(ent, 2).call(hh, R, cb=ent.endswith("cb"))
                sc.append(c_[0])
                early[ent] = c_[1:]
        sc += ["setconfdirs %s %s" % (hx(".conf.d"), hx("/alt.d"))]
        h = 1
        for ent in ("readdirs", "readdirscb", "rc2", "rc2cb"):
            sc += ["cbreset"] + (early[ent] if ent in early else Shape(ent, 2).call(h, R, cb=ent.endswith("cb"))) + ["dump %d" % h, "free %d" % h]
            h += 10
        for ent in ("readhist", "readhistcb"):
            sc += ["cbreset"] + Shape(ent, 2).call(h, R, cb=ent.endswith("cb")) + ["dump %d" % k for k in range(h, h + 10)] + ["free %d" % k for k in range(h, h + 10)]
            h += 10
        sc += ["setconfdirs", "cbreset"]
        cases.append((i, sc))
    res = core.run_cases(exe, cases)
    events = []
    idx = []
    for i, x in enumerate(recs):
        out = res.get(i)
        t = {"main": x["main"], "drop": x["drop"], "shp": x["shp"]}
        if out is None or out["crash"]:
            verdict.violation("C12:confdirs:crash", {"kind": "tree", "tree": t, "crash": (out or {}).get("crash")}, "entry points under econf_set_conf_dirs crashed on %s\n%s" % (tree_text(t), (out or {}).get("crash", "")[:800]))
            continue
        ev = out["ev"]
        reads = [(j, e) for j, e in enumerate(ev) if e["op"].startswith("read")]
        rcs = [e["rc"] for _, e in reads]
        if len(set(rcs)) != 1:
            verdict.violation("C12:confdirs:rc", {"kind": "tree", "tree": t, "rcs": rcs}, "entry points disagree under a non-default drop-in directory list on %s: %s" % (tree_text(t), rcs))
            continue
        if rcs[0] != "ECONF_SUCCESS":
            continue
        results = []
        hists = []
        for (j, rd) in reads:
            dumps = []
            for e in ev[j + 1:]:
                if e["op"] == "dump":
                    dumps.append(e)
                elif e["op"].startswith("read"):
                    break
            if rd["op"].startswith("readhist"):
                hists.append([{"name": codes(os.path.basename(d["st"]["path"])), "ents": listing_of_dump(d) or []} for d in dumps[:rd["n"]] if d["st"]])
            else:
                results.append(sorted_ents(listing_of_dump(dumps[0]) or []))
        events.append({"e": "histfold", "hist": hists[0], "results": results, "hist2_same": hists[0] == hists[1]})
        idx.append(i)
    if not events:
        return 0
    okk, tr, _ = core.validate_trace("Trace_Layers", os.path.join(core.SPEC, "Trace_Layers.cfg"), events, timeout=1200)
    mism = [x for x in tr.json_lines() if "mismatch" in x]
    if not okk and not mism:
        raise core.ToolFailure("Trace_Layers (histfold) did not consume the trace:\n" + tr.out[-2000:])
    for m in mism[:20]:
        i = idx[m["mismatch"] - 1]
        x = recs[i]
        e = events[m["mismatch"] - 1]
        t = {"main": x["main"], "drop": x["drop"], "shp": x["shp"]}
        fp = "C12:confdirs:first-dropin-unmasked-without-main:content:histfold" if f4_class(x) and e["hist2_same"] and len({canon(r) for r in e["results"]}) == 1 else "C12:confdirs:histfold"
        verdict.violation(fp, {"kind": "tree", "tree": t, "event": e, "spec": m.get("spec")},
                          "under econf_set_conf_dirs({.conf.d, /alt.d}) on %s: history (%d members, both variants equal: %s) folded with masking gives %s\nmerged results: %s" % (
                              tree_text(t), len(e["hist"]), e["hist2_same"], show_ents(m["spec"]["folded"]), [show_ents(r) for r in e["results"]][:2]))
    return len(events) - len(mism)


def check_nosuffix_fold(exe, recs, verdict):
    """C12 with the suffix absent (NULL) or empty: the main file is <name>, the drop-in directory <name>.d, and EVERY
    entry of that directory counts.  Merged-result entry points must agree, both history variants must agree, and the
    history folded with masking (Trace_Layers!THistFold) must give that result."""
    cases = []
    for i, x in enumerate(recs):
        R = ROOT + "/ns%d" % (i % 16)
        t = {"main": x["main"], "drop": x["drop"], "shp": x["shp"]}
        sh = Shape("nosuffix2", 2)
        s, paths = materialise(t, sh, R)
        sfx = "-" if i % 2 else "x"
        u, e = hx(R + "/usr/etc"), hx(R + "/etc")
        sc = list(s)
        h = 1
        for call in ("readdirs %d %s %s %s %s x3d x23" % (h, u, e, hx("cfg"), sfx), "readdirscb %d %s %s %s %s x3d x23" % (h + 10, u, e, hx("cfg"), sfx)):
            hh = int(call.split()[1])
            sc += ["cbreset", call, "dump %d" % hh, "free %d" % hh]
        for hh, cb in ((21, ""), (31, "cb")):
            sc += ["cbreset", "newopt %d %s" % (hh, hx("PARSING_DIRS=%s/usr/etc:%s/etc" % (R, R))),
                   "readconfig%s %d %s - %s %s x3d x23" % (cb, hh, hx("prj"), hx("cfg"), sfx), "dump %d" % hh, "free %d" % hh]
        for hh, cb in ((41, ""), (61, "cb")):
            sc += ["cbreset", "readhist%s %d %s %s %s %s x3d x23" % (cb, hh, u, e, hx("cfg"), sfx)] + ["dump %d" % k for k in range(hh, hh + 14)] + ["free %d" % k for k in range(hh, hh + 14)]
        sc += ["cbreset"]
        cases.append((i, sc))
    res = core.run_cases(exe, cases)
    events = []
    idx = []
    for i, x in enumerate(recs):
        out = res.get(i)
        t = {"main": x["main"], "drop": x["drop"], "shp": x["shp"]}
        if out is None or out["crash"]:
            verdict.violation("C12:nosuffix:crash", {"kind": "tree", "tree": t, "crash": (out or {}).get("crash")}, "entry points without suffix crashed on %s\n%s" % (tree_text(t), (out or {}).get("crash", "")[:800]))
            continue
        ev = out["ev"]
        reads = [(j, e) for j, e in enumerate(ev) if e["op"].startswith("read")]
        rcs = [e["rc"] for _, e in reads]
        if len(set(rcs)) != 1:
            verdict.violation("C12:nosuffix:rc", {"kind": "tree", "tree": t, "rcs": rcs}, "entry points disagree when no suffix is given on %s: %s" % (tree_text(t), rcs))
            continue
        if rcs[0] != "ECONF_SUCCESS":
            continue
        results = []
        hists = []
        for (j, rd) in reads:
            dumps = []
            for e in ev[j + 1:]:
                if e["op"] == "dump":
                    dumps.append(e)
                elif e["op"].startswith("read"):
                    break
            if rd["op"].startswith("readhist"):
                hists.append([{"name": codes(os.path.basename(d["st"]["path"])), "ents": listing_of_dump(d) or []} for d in dumps[:rd["n"]] if d["st"]])
            else:
                results.append(sorted_ents(listing_of_dump(dumps[0]) or []))
        events.append({"e": "histfold", "hist": hists[0], "results": results, "hist2_same": hists[0] == hists[1]})
        idx.append(i)
    if not events:
        return 0
    okk, tr, _ = core.validate_trace("Trace_Layers", os.path.join(core.SPEC, "Trace_Layers.cfg"), events, timeout=1200)
    mism = [x for x in tr.json_lines() if "mismatch" in x]
    if not okk and not mism:
        raise core.ToolFailure("Trace_Layers (histfold, no suffix) did not consume the trace:\n" + tr.out[-2000:])
    for m in mism[:20]:
        i = idx[m["mismatch"] - 1]
        x = recs[i]
        e = events[m["mismatch"] - 1]
        t = {"main": x["main"], "drop": x["drop"], "shp": x["shp"]}
        verdict.violation("C12:nosuffix:histfold", {"kind": "tree", "tree": t, "event": e, "spec": m.get("spec")},
                          "suffix %s on %s: history (%d members, both variants equal: %s) folded with masking gives %s\nmerged results: %s" % (
                              "NULL" if i % 2 else "empty", tree_text(t), len(e["hist"]), e["hist2_same"], show_ents(m["spec"]["folded"]), [show_ents(r) for r in e["results"]][:2]))
    return len(events) - len(mism)


def check_merged_paths(exe, tier, seed, verdict):
    """C17: econf_getPath of a layered read's result is "" as soon as two or more files were consulted - also when the
    later files set nothing (drop-ins holding only comments)."""
    rnd = random.Random(seed)
    r, recs, total = tree_export(3, [3, 6], 12, ["bb", "bc", "nc", "sc"])
    r2, recs2, _ = tree_export(2, [3, 6], 12, ["bb", "bc", "hc"])
    pool = [(x, "std") for x in recs if x["rc"] == "ECONF_SUCCESS"] + [(x, e) for x in recs2 if x["rc"] == "ECONF_SUCCESS" for e in ("readdirs", "rc2")]
    rnd.shuffle(pool)
    pool = pool[:1200 if tier == "quick" else 20000]
    cases = []
    for i, (x, ent) in enumerate(pool):
        R = ROOT + "/mp%d" % (i % 16)
        t = {"main": x["main"], "drop": x["drop"], "shp": x["shp"]}
        shape = Shape(ent, len(x["main"]))
        s, paths = materialise(t, shape, R)
        cases.append((i, s + shape.call(1, R, cb=False) + ["path 1", "free 1"]))
    res = core.run_cases(exe, cases)
    ok = 0
    for i, (x, ent) in enumerate(pool):
        out = res.get(i)
        t = {"main": x["main"], "drop": x["drop"], "shp": x["shp"]}
        if out is None or out["crash"]:
            verdict.violation("C17:mergedpath:crash", {"kind": "tree", "tree": t, "crash": (out or {}).get("crash")}, "layered read + econf_getPath crashed on %s" % tree_text(t))
            continue
        rd = next(e for e in out["ev"] if e["op"].startswith("read"))
        pe = next(e for e in out["ev"] if e["op"] == "path")
        if rd["rc"] != "ECONF_SUCCESS":
            continue        # C01's business
        if x["merged"] and pe["out"] != "":
            verdict.violation("C17:mergedpath:%s" % ("dropins-set-nothing" if x["shp"][1] == "c" else "content"),
                              {"kind": "tree", "entry": ent, "tree": t, "got": pe["out"], "consulted": x["log"]},
                              "%s on %s: %d files consulted and merged, econf_getPath returns %r instead of the empty string" % (ent, tree_text(t), len(x["hist"]), pe["out"]))
            continue
        ok += 1
    return ok, sum(1 for x, _ in pool if x["merged"] and x["shp"][1] == "c")


def check_longnames_fold(exe, verdict):
    """C12 with drop-in names up to NAME_MAX: the SAME long name in both layers (the vendor file must be masked), next to a main
    file and a short-named drop-in; all merged-result entry points against the delivered history folded with masking."""
    cases = []
    lens = [6, 64, 200, 254, 255]
    for i, n in enumerate(lens):
        R = ROOT + "/lnf%d" % i
        name = "n" * (n - 5) + ".conf"
        u, e = R + "/usr/etc", R + "/etc"
        sc = ["rm %s" % hx(R), "file %s %s" % (hx(u + "/cfg.conf"), hx("M=main\n")),
              "file %s %s" % (hx(u + "/cfg.conf.d/" + name), hx("A=dist\nONLYDIST=1\n")), "file %s %s" % (hx(e + "/cfg.conf.d/" + name), hx("A=etc\n")),
              "file %s %s" % (hx(e + "/cfg.conf.d/zz.conf"), hx("Z=1\n"))]
        h = 1
        for call in ("readdirs %d %s %s %s %s x3d x23" % (h, hx(u), hx(e), hx("cfg"), hx("conf")), "readdirscb %d %s %s %s %s x3d x23" % (h + 10, hx(u), hx(e), hx("cfg"), hx("conf"))):
            hh = int(call.split()[1])
            sc += ["cbreset", call, "dump %d" % hh, "free %d" % hh]
        for hh, cb in ((21, ""), (31, "cb")):
            sc += ["cbreset", "newopt %d %s" % (hh, hx("PARSING_DIRS=%s:%s" % (u, e))), "readconfig%s %d %s - %s %s x3d x23" % (cb, hh, hx("prj"), hx("cfg"), hx("conf")), "dump %d" % hh, "free %d" % hh]
        for hh, cb in ((41, ""), (51, "cb")):
            sc += ["cbreset", "readhist%s %d %s %s %s %s x3d x23" % (cb, hh, hx(u), hx(e), hx("cfg"), hx("conf"))] + ["dump %d" % k for k in range(hh, hh + 6)] + ["free %d" % k for k in range(hh, hh + 6)]
        sc += ["cbreset"]
        cases.append((i, sc))
    res = core.run_cases(exe, cases)
    events = []
    idx = []
    for i, n in enumerate(lens):
        out = res.get(i)
        if out is None or out["crash"]:
            verdict.violation("C12:longnames:crash", {"kind": "longnames", "len": n, "crash": (out or {}).get("crash")}, "entry points crashed on a drop-in name of %d bytes\n%s" % (n, (out or {}).get("crash", "")[:700]))
            continue
        ev = out["ev"]
        reads = [(j, e) for j, e in enumerate(ev) if e["op"].startswith("read")]
        if any(e["rc"] != "ECONF_SUCCESS" for _, e in reads):
            verdict.violation("C12:longnames:rc", {"kind": "longnames", "len": n, "rcs": [e["rc"] for _, e in reads]}, "drop-in name of %d bytes: %s" % (n, [e["rc"] for _, e in reads]))
            continue
        results, hists = [], []
        for (j, rd) in reads:
            dumps = []
            for e in ev[j + 1:]:
                if e["op"] == "dump":
                    dumps.append(e)
                elif e["op"].startswith("read"):
                    break
            if rd["op"].startswith("readhist"):
                hists.append([{"name": codes(os.path.basename(d["st"]["path"])), "ents": listing_of_dump(d) or []} for d in dumps[:rd["n"]] if d["st"]])
            else:
                results.append(sorted_ents(listing_of_dump(dumps[0]) or []))
        events.append({"e": "histfold", "hist": hists[0], "results": results, "hist2_same": hists[0] == hists[1]})
        idx.append(n)
    if not events:
        return 0
    okk, tr, _ = core.validate_trace("Trace_Layers", os.path.join(core.SPEC, "Trace_Layers.cfg"), events, timeout=600)
    mism = [x for x in tr.json_lines() if "mismatch" in x]
    if not okk and not mism:
        raise core.ToolFailure("Trace_Layers (histfold, long names) did not consume the trace:\n" + tr.out[-2000:])
    for m in mism:
        n = idx[m["mismatch"] - 1]
        e = events[m["mismatch"] - 1]
        verdict.violation("C12:longnames:histfold", {"kind": "longnames", "len": n, "event": e, "spec": m.get("spec")},
                          "the same drop-in name of %d bytes in both layers: history (%d members, both variants equal: %s) folded with masking gives %s\nmerged results: %s" % (
                              n, len(e["hist"]), e["hist2_same"], show_ents(m["spec"]["folded"]), [show_ents(r) for r in e["results"]][:2]))
    return len(events) - len(mism)


def check_null_dirs(exe, verdict):
    R = ROOT + "/nd"
    s = ["rm %s" % hx(R), "file %s %s" % (hx(R + "/etc/cfg.conf"), hx("K=1\n")), "file %s %s" % (hx(R + "/etc/cfg.conf.d/a.conf"), hx("J=2\n")),
         "readdirs 1 - %s %s %s x3d x23" % (hx(R + "/etc"), hx("cfg"), hx("conf")), "dump 1", "free 1",
         "readdirs 2 x %s %s %s x3d x23" % (hx(R + "/etc"), hx("cfg"), hx("conf")), "dump 2", "free 2",
         "readhist 3 - %s %s %s x3d x23" % (hx(R + "/etc"), hx("cfg"), hx("conf")), "dump 3", "dump 4", "free 3", "free 4",
         "readdirs 5 %s - %s %s x3d x23" % (hx(R + "/etc"), hx("cfg"), hx("conf")), "dump 5", "free 5"]
    out = core.run_cases(exe, [("nd", s)], jobs=1)["nd"]
    if out["crash"]:
        verdict.violation("C12:nulldir:crash", {"kind": "script", "script": s, "crash": out["crash"]}, "NULL/empty directory argument crashed\n" + out["crash"][:900])
        return 0
    want = {(): None}
    dumps = [e for e in out["ev"] if e["op"] == "dump"]
    m = [as_map(listing_of_dump(d) or []) for d in dumps]
    exp = {((), (75,)): (49,), ((), (74,)): (50,)}
    okk = m[0] == exp and m[1] == exp and m[4] == exp and m[2] == {((), (75,)): (49,)} and m[3] == {((), (74,)): (50,)}
    if not okk:
        verdict.violation("C12:nulldir:content", {"kind": "script", "script": s, "got": [str(x) for x in m]}, "NULL/empty directory arguments: results differ: %s" % m)
        return 0
    return 1


def check_option_object_reuse(exe, verdict):
    """ONE option object (PARSING_DIRS = the two directories) handed to econf_readConfig / econf_readConfigWithCallback again and
    again while the tree changes: reads that fail (nothing there yet, a malformed main file, a file the callback refuses) leave
    the object and its options alone, so the next read with it looks into the same two directories - and agrees with
    econf_readDirs on the tree as it is then"""
    ok = 0
    for n, cb in enumerate(("", "cb")):
        R = ROOT + "/reuse%d" % n
        U, E = R + "/dist", R + "/local"
        rd = "readconfig%s 1 - - %s %s x3d x23" % (cb, hx("cfg"), hx("conf"))
        s = ["rm %s" % hx(R), "mkdir %s" % hx(U), "mkdir %s" % hx(E), "cbreset", "newopt 1 %s" % hx("PARSING_DIRS=%s:%s" % (U, E)),
             rd,                                                                                    # nothing there yet
             "file %s %s" % (hx(U + "/cfg.conf"), hx("[broken\n")), rd,                              # a malformed main file
             "file %s %s" % (hx(U + "/cfg.conf"), hx("M=vendor\nV=1\n")), "file %s %s" % (hx(E + "/cfg.conf.d/a.conf"), hx("A=etc\n"))]
        if cb:
            s += ["cbrejectpath %s" % hx(E + "/cfg.conf.d/a.conf"), rd, "cbreset"]                # a file the callback refuses
        s += [rd, "dump 1", "free 1", "readdirs 2 %s %s %s %s x3d x23" % (hx(U), hx(E), hx("cfg"), hx("conf")), "dump 2", "free 2"]
        out = core.run_cases(exe, [("ru", s)], jobs=1)["ru"]
        if out["crash"]:
            verdict.violation("C12:reuse:crash", {"kind": "script", "script": s, "crash": out["crash"]}, "one option object used for several reads: crash\n" + out["crash"][:700])
            continue
        rcs = [e["rc"] for e in out["ev"] if e["op"].startswith("readconfig")]
        want = ["ECONF_NOFILE", "ECONF_MISSING_BRACKET"] + (["ECONF_PARSING_CALLBACK_FAILED"] if cb else []) + ["ECONF_SUCCESS"]
        m = [as_map(listing_of_dump(d) or []) for d in out["ev"] if d["op"] == "dump"]
        if rcs != want or len(m) != 2 or m[0] != m[1]:
            verdict.violation("C12:reuse", {"kind": "script", "script": s, "rcs": rcs, "want": want, "got": [str(x) for x in m]},
                              "one option object (PARSING_DIRS=<dist>:<local>) used for %d reads with econf_readConfig%s while the tree is filled: results %s, expected %s; the last one %s econf_readDirs on the final tree" % (
                                  len(want), "WithCallback" if cb else "", rcs, want, "agrees with" if len(m) == 2 and m[0] == m[1] else "DIFFERS from"))
        else:
            ok += 1
    return ok


def check_blank_dirs(exe, verdict):
    """layer directories whose NAMES begin or end with blanks (and drop-in directory postfixes that do): every entry point takes
    them as given - the four that get the two directories as arguments and the two that get them through PARSING_DIRS"""
    ok = 0
    # ... and directory names of which one is the beginning of the other (two directories all the same)
    for n, (un, en) in enumerate((("vendor ", "etc"), ("vendor", " etc"), ("v\t", "e  "), (" u ", " e "),
                                  ("conf", "conf.site"), ("etc.local", "etc"), ("v", "v2"), ("a/b", "a"))):
        R = ROOT + "/bd%d" % n
        U, E = R + "/" + un, R + "/" + en
        s = ["rm %s" % hx(R), "file %s %s" % (hx(U + "/cfg.conf"), hx("M=vendor\nV=1\n")), "file %s %s" % (hx(U + "/cfg.conf.d/a.conf"), hx("A=vendor\n")),
             "file %s %s" % (hx(E + "/cfg.conf.d/a.conf"), hx("A=etc\n")), "file %s %s" % (hx(E + "/cfg.conf.d/b.conf"), hx("B=etc\n"))]
        for h, call in enumerate(("readdirs %d %s %s %s %s x3d x23", "readdirscb %d %s %s %s %s x3d x23"), start=1):
            s += ["cbreset", call % (h, hx(U), hx(E), hx("cfg"), hx("conf")), "dump %d" % h, "free %d" % h]
        for h, cb in ((3, ""), (4, "cb")):
            s += ["cbreset", "newopt %d %s" % (h, hx("PARSING_DIRS=%s:%s" % (U, E))), "readconfig%s %d - - %s %s x3d x23" % (cb, h, hx("cfg"), hx("conf")), "dump %d" % h, "free %d" % h]
        out = core.run_cases(exe, [("bd", s)], jobs=1)["bd"]
        if out["crash"]:
            verdict.violation("C12:blankdirs:crash", {"kind": "script", "script": s, "crash": out["crash"]}, "directory names with outer blanks: crash\n" + out["crash"][:700])
            continue
        m = [as_map(listing_of_dump(d) or []) for d in out["ev"] if d["op"] == "dump"]
        exp = as_map([{"g": [], "k": codes(k), "v": codes(v)} for k, v in (("M", "vendor"), ("V", "1"), ("A", "etc"), ("B", "etc"))])
        rcs = [e["rc"] for e in out["ev"] if e["op"].startswith("read")]
        if len(m) != 4 or any(x != exp for x in m) or any(r != "ECONF_SUCCESS" for r in rcs):
            verdict.violation("C12:blankdirs", {"kind": "script", "script": s, "dirs": [un, en], "rcs": rcs, "got": [str(x) for x in m]},
                              "layer directories %r / %r: readDirs, readDirsWithCallback, readConfig(+WithCallback) with PARSING_DIRS -> %s, results %s" % (un, en, rcs, ["same" if x == exp else "DIFFERENT" for x in m]))
        else:
            ok += 1
    return ok


# --------------------------------------------------------------------------------------
# C13 (tree part): a malformed file as any member of a tree
# --------------------------------------------------------------------------------------
BADLINES = [("[S", "ECONF_MISSING_BRACKET"), ("[S] x", "ECONF_TEXT_AFTER_SECTION"), ("[]", "ECONF_EMPTY_SECTION_NAME"), ("a v", "ECONF_MISSING_DELIMITER")]


def c13_tree_cases(exe, tier, seed, verdict):
    rnd = random.Random(seed)
    r, recs, total = tree_export(3, [3, 6, 10], 12, ["bb"])      # (name 10, +z.conf: listed in front of the entries . and ..)
    recs = [x for x in recs if len(x["log"]) >= 1]
    rnd.shuffle(recs)
    budget = 400 if tier == "quick" else 5000
    cases = []
    metas = []
    for x in recs:
        K = [tuple(f) for f in x["log"]]
        t = {"main": x["main"], "drop": x["drop"], "shp": x["shp"]}
        cand = [f for f in K if not (f[1] == 0 and t["main"][f[0] - 1] != "regular")]
        for f in cand:
            bad, code = rnd.choice(BADLINES)
            lineno = rnd.choice([1, 3, 4])
            # a "key text" line is an error only where it cannot continue a value: never directly after an entry
            pre = ["x=1", "# c", ""][:lineno - 1]
            content = "\n".join(pre + [bad, "y=2"]) + "\n"
            ent = rnd.choice(["std", "stdcb", "stdcb", "readdirs3"])
            i = len(cases)
            R = ROOT + "/b%d" % (i % 16)
            if i % 5 == 4:
                # a deep tree: the reported path is the whole path, however long (260 .. 1500 bytes here)
                R += ("/" + "deep-directory-name-of-fifty-bytes-%014d" % i) * [5, 9, 28][(i // 5) % 3]
            # the parsing options change nothing about a malformed line: with each of them the same code and location
            shape = Shape("std", opts=["", "JOIN_SAME_ENTRIES=1", "PYTHON_STYLE=1", "JOIN_SAME_ENTRIES=0", "JOIN_SAME_ENTRIES=1;PYTHON_STYLE=1"][i % 5])
            s, paths = materialise(t, shape, R, contents={f: content})
            if ent == "stdcb" and i % 2:
                # the caller's callback itself reads another (well-formed, longer) file with the library before it answers:
                # the reported error location must still be the malformed file of the OUTER read
                s += ["file %s %s" % (hx(R + "/allow.list"), hx("a=1\nb=2\nc=3\nd=4\ne=5\nf=6\n")), "cbreset", "cbread %s" % hx(R + "/allow.list")]
            # (the location is asked for twice: a query is not the end of the record)
            s += shape.call(1, R, cb=(ent == "stdcb")) + ["errloc", "errloc", "dump 1", "free 1", "cbreset"]
            cases.append((i, s))
            metas.append((t, paths, f, code, len(pre) + 1, K))
        if len(cases) >= budget:
            break
    res = core.run_cases(exe, cases)
    ok = 0
    nn = 0
    samples = []
    for i, (t, paths, f, code, lineno, K) in enumerate(metas):
        out = res.get(i)
        fp = "C13:tree:%s:%s" % ("main" if f[1] == 0 else "dropin", code)
        case = {"kind": "badtree", "tree": t, "bad_file": list(f), "code": code, "line": lineno}
        if out is None or out["crash"]:
            verdict.violation(fp + ":crash", dict(case, crash=(out or {}).get("crash")), "layered read of a tree with a malformed file crashed\n" + (out or {}).get("crash", "")[:900])
            continue
        root = out["root"]
        rd = next(e for e in out["ev"] if e["op"].startswith("read"))
        els = [e for e in out["ev"] if e["op"] == "errloc"]
        el = els[0]
        badpath = [norm(p.replace(ROOT, root)) for p, ff in paths.items() if ff == f][0]
        if len(els) >= 2 and (els[1]["file"], els[1]["line"]) != (el["file"], el["line"]):
            verdict.violation(fp + ":second-query", dict(case, first=[el["file"], el["line"]], second=[els[1]["file"], els[1]["line"]]),
                              "econf_errLocation asked twice after the failure: first %r line %s, then %r line %s" % (el["file"], el["line"], els[1]["file"], els[1]["line"]))
            continue
        got = {"rc": rd["rc"], "file": norm(el["file"] or ""), "line": el["line"], "obj": bool(rd.get("obj")) and not rd.get("same")}
        want = {"rc": code, "file": badpath, "line": lineno, "obj": False}
        if got != want:
            verdict.violation(fp, dict(case, got=got, want=want), "tree %s with malformed %s: expected %s, library gave %s" % (tree_text(t), f, want, got))
            continue
        ok += 1
        if K.index(f) > 0:
            nn += 1
        if len(samples) < 2:
            samples.append({"tree": tree_text(t), "malformed_file": list(f), "expect": want})
    # the same through the history entry points (2 layers): right code, right location, and NO list handed back (pointer NULL)
    r2_, recs2_, _ = tree_export(2, [3, 6, 10], 12, ["bb"])
    recs2_ = [x for x in recs2_ if len(x["log"]) >= 1]
    rnd.shuffle(recs2_)
    hcases, hmetas = [], []
    for x in recs2_:
        K = [tuple(f) for f in x["log"]]
        t = {"main": x["main"], "drop": x["drop"], "shp": x["shp"]}
        for f in [f for f in K if not (f[1] == 0 and t["main"][f[0] - 1] != "regular")]:
            bad, code = rnd.choice(BADLINES)
            lineno = rnd.choice([1, 3, 4])
            pre = ["x=1", "# c", ""][:lineno - 1]
            i = len(hcases)
            R = ROOT + "/bh%d" % (i % 16)
            ent = ["readhist", "readhistcb"][i % 2]
            shape = Shape(ent, 2)
            s_, paths = materialise(t, shape, R, contents={f: "\n".join(pre + [bad, "y=2"]) + "\n"})
            hcases.append((i, s_ + ["cbreset"] + shape.call(1, R, cb=ent.endswith("cb")) + ["errloc"] + ["free %d" % k for k in range(1, 9)]))
            hmetas.append((t, paths, f, code, len(pre) + 1, ent))
        if len(hcases) >= (150 if tier == "quick" else 2000):
            break
    hres = core.run_cases(exe, hcases)
    for i, (t, paths, f, code, lineno, ent) in enumerate(hmetas):
        out = hres.get(i)
        fp = "C13:history:%s:%s" % ("main" if f[1] == 0 else "dropin", code)
        case = {"kind": "badtree-history", "tree": t, "bad_file": list(f), "code": code, "line": lineno, "entry": ent}
        if out is None or out["crash"]:
            verdict.violation(fp + ":crash", dict(case, crash=(out or {}).get("crash")), "history read of a tree with a malformed file crashed\n" + (out or {}).get("crash", "")[:900])
            continue
        root = out["root"]
        rd = next(e for e in out["ev"] if e["op"].startswith("readhist"))
        el = next(e for e in out["ev"] if e["op"] == "errloc")
        badpath = [norm(p.replace(ROOT, root)) for p, ff in paths.items() if ff == f][0]
        got = {"rc": rd["rc"], "file": norm(el["file"] or ""), "line": el["line"], "list_handed_back": bool(rd["arr"])}
        want = {"rc": code, "file": badpath, "line": lineno, "list_handed_back": False}
        if got != want:
            verdict.violation(fp, dict(case, got=got, want=want), "%s on tree %s with malformed %s: expected %s, library gave %s" % (ent, tree_text(t), f, want, got))
        else:
            ok += 1
    # missing file -> ECONF_NOFILE
    s = ["readfile 1 %s x3d x23" % hx(ROOT + "/does/not/exist.conf"), "free 1"]
    o = core.run_cases(exe, [("nf", s)], jobs=1)["nf"]
    if o["crash"] or o["ev"][0]["rc"] != "ECONF_NOFILE" or o["ev"][0]["obj"]:
        verdict.violation("C13:nofile", {"kind": "script", "script": s, "out": o}, "reading a missing file: %s" % (o["ev"][:1] or o["crash"]))
    # ... in every way a file can be missing: no such name in an existing directory, a missing directory, a path component that is
    # a plain file, a name / a path longer than the system allows, a symbolic link to nowhere; with both single-file entry points
    M = ROOT + "/missing"
    ways = [("no such name", M + "/d/none.conf"), ("missing directory", M + "/nodir/x/none.conf"), ("component is a plain file", M + "/d/plain.conf/none.conf"),
            ("component is a plain file, deeper", M + "/d/plain.conf/a/b/none.conf"), ("name of 300 bytes", M + "/d/" + "n" * 300 + ".conf"),
            ("path of 5000 bytes", M + "/d" + "/dddddddd" * 620 + "/none.conf"), ("link to nowhere", M + "/d/dangling.conf"),
            ("link through a plain file", M + "/d/through.conf")]
    s = ["file %s %s" % (hx(M + "/d/plain.conf"), hx("a=1\n")), "symlink %s %s" % (hx(M + "/d/nowhere"), hx(M + "/d/dangling.conf")),
         "symlink %s %s" % (hx(M + "/d/plain.conf/x"), hx(M + "/d/through.conf"))]
    for _, pth in ways:
        s += ["readfile 1 %s x3d x23" % hx(pth), "free 1", "cbreset", "readfilecb 2 %s x3d x23" % hx(pth), "free 2"]
    o = core.run_cases(exe, [("nf2", s)], jobs=1)["nf2"]
    if o["crash"]:
        verdict.violation("C13:nofile:crash", {"kind": "script", "script": s, "crash": o["crash"]}, "reading a missing file crashed\n" + o["crash"][:700])
    else:
        rds = [e for e in o["ev"] if e["op"].startswith("readfile")]
        for j, (what, pth) in enumerate(ways):
            for e in rds[2 * j:2 * j + 2]:
                if e["rc"] != "ECONF_NOFILE" or e.get("obj"):
                    verdict.violation("C13:nofile:%s" % what.replace(" ", "-"), {"kind": "script", "script": s, "way": what, "got": e},
                                      "reading a missing file (%s) with %s: %s, object %s; expected ECONF_NOFILE and no object" % (what, e["op"], e["rc"], e.get("obj")))
                else:
                    ok += 1
    # ... and in a layered read: a layer whose directory is a plain file (or whose name is too long) holds no file - the other
    # layers are delivered, and a malformed drop-in of another layer is still reported with its own code, path and line
    cases = []
    for j, (layer, bad) in enumerate([(l, b) for l in ("etc", "run", "usr/lib") for b in (False, True)]):
        R = ROOT + "/ml%d" % j
        good = [l for l in ("usr/lib", "run", "etc") if l != layer]
        sc = ["file %s %s" % (hx(R + "/" + layer), hx("plain\n"))]
        sc += ["file %s %s" % (hx(R + "/%s/cfg.conf" % good[0]), hx("a=1\n")), "file %s %s" % (hx(R + "/%s/cfg.conf.d/x.conf" % good[1]), hx("b=2\n[S\n" if bad else "b=2\n"))]
        sc += ["newopt 1 %s" % hx("ROOT_PREFIX=" + R), "readconfig 1 - %s %s %s x3d x23" % (hx("/usr/lib"), hx("cfg"), hx("conf")), "errloc", "dump 1", "free 1"]
        sc += ["readdirs 2 %s %s %s %s x3d x23" % (hx(R + "/usr/lib"), hx(R + "/etc"), hx("cfg"), hx("conf")), "errloc", "dump 2", "free 2"]
        cases.append((j, sc))
        metas.append(None)
    res2 = core.run_cases(exe, cases)
    for j, sc in cases:
        o = res2.get(j)
        layer, bad = [(l, b) for l in ("etc", "run", "usr/lib") for b in (False, True)][j]
        case = {"kind": "script", "script": sc, "layer_is_plain_file": layer, "malformed_dropin": bad}
        if o is None or o["crash"]:
            verdict.violation("C13:layer-not-a-directory:crash", dict(case, crash=(o or {}).get("crash")), "layered read with layer %s being a plain file crashed" % layer)
            continue
        rds = [e for e in o["ev"] if e["op"].startswith("read")]
        els = [e for e in o["ev"] if e["op"] == "errloc"]
        dumps = [e for e in o["ev"] if e["op"] == "dump"]
        root = o["root"]
        good = [l for l in ("usr/lib", "run", "etc") if l != layer]
        for k, (rd, el, dm) in enumerate(zip(rds, els, dumps)):
            # econf_readDirs consults the two given directories only
            seen_main = k == 0 or good[0] != "run"
            seen_drop = k == 0 or good[1] != "run"
            if bad and seen_drop:
                want = {"rc": "ECONF_MISSING_BRACKET", "file": norm(root + "/ml%d/%s/cfg.conf.d/x.conf" % (j, good[1])), "line": 2}
                got = {"rc": rd["rc"], "file": norm(el["file"] or ""), "line": el["line"]}
            else:
                ents = ([("", "a", "1")] if seen_main else []) + ([("", "b", "2")] if seen_drop else [])
                want = {"rc": "ECONF_SUCCESS" if ents else "ECONF_NOFILE", "ents": sorted(ents)}
                got = {"rc": rd["rc"], "ents": sorted((core.uncodes(e["g"]), core.uncodes(e["k"]), core.uncodes(e["v"])) for e in (listing_of_dump(dm) or []))} if rd["rc"] == "ECONF_SUCCESS" else {"rc": rd["rc"], "ents": []}
                if not ents:
                    want["ents"] = []
            if got != want:
                verdict.violation("C13:layer-not-a-directory", dict(case, entry=rd["op"], got=got, want=want),
                                  "%s with layer %s being a plain file%s: expected %s, library gave %s" % (rd["op"], layer, " and a malformed drop-in elsewhere" if bad else "", want, got))
            else:
                ok += 1
    return {"n": ok, "nontrivial": nn, "samples": samples}


# --------------------------------------------------------------------------------------
def check(pid, tier, seed):
    t0 = time.time()
    exe = core.build("asan")
    verdict = core.Verdict(pid)
    cov = {"C01": check_c01, "C06": check_c06, "C12": check_c12}[pid](exe, tier, seed, verdict)
    rc = verdict.finish()
    core.write_evidence(pid, tier, seed, "model_checking", cov,
                        ["only byte-order collations are installed: a locale-sensitive sort cannot be told from a byte-wise one",
                         "a drop-in never has the main file's base name; one name never sits in two drop-in directories of one layer",
                         "the driver creates the trees at the documented paths (path composition of the library is under test)"],
                        time.time() - t0, len(verdict.violations))
    return rc


def replay(pid, path):
    with open(path) as f:
        rec = json.load(f)
    print(json.dumps(rec, indent=1)[:5000])
    return 0


# --------------------------------------------------------------------------------------
# generic fault scenarios (C16, C20): tree + per-file attributes/faults + flags -> trace
# --------------------------------------------------------------------------------------
FOREIGN = 54321


def pd_map(x, shape, R="/"):
    """drop-in directory (1 or 2) of every drop-in of an exported tree, for shapes with two drop-in directories"""
    if not x.get("pd") or len(shape.layout(R)[2]) < 2:
        return None
    return {(l, n): x["pd"][l - 1][n - 1] for l in range(1, len(x["drop"]) + 1) for n in x["drop"][l - 1]}


def pd_rows(x, ent):
    return x["pd"] if (x.get("pd") and len(Shape(ent, len(x["main"])).layout("/")[2]) >= 2) else [[1] * len(NAMES) for _ in x["main"]]


def with_dangling(x, dangling):
    """the tree of x in which the main files named in `dangling` are symbolic links to nowhere"""
    main = list(x["main"])
    for l, r in dangling:
        if r == 0:
            main[l - 1] = "dangling"
    return main


def scenario_script(i, x, ent, rej=(), attrs=None, flags=None, malformed=(), reset_reread=False, heap=False, use_cb=True, dangling=()):
    """attrs: {(l,r): (own, grp, link)}; flags: dict(owner, group, nosym); dangling: main files / drop-ins that are
    symbolic links to nowhere."""
    R = ROOT + "/s%d" % (i % 16)
    t = {"main": with_dangling(x, dangling), "drop": x["drop"], "shp": x["shp"]}
    shape = Shape(ent, len(x["main"]))
    # a comment is pending when the malformed line is met (before the line and trailing on it): the error path has to
    # release the pending comment buffers as well
    contents = {f: "[broken  # trailing\nK=1\n" if (f[0] + f[1]) % 2 else "# pending comment\n# second line\n[broken\nK=1\n" for f in malformed}
    s, paths = materialise(t, shape, R, contents=contents, pd=pd_map(x, shape, R))
    attrs = attrs if attrs is not None else {}
    extra = []
    # a directory whose permission bits are "bad" is bad for every file in it: the attribute is spread over the files that share
    # the directory of a marked one (the caller's dict is completed in place, the events are built from it)
    baddirs = {os.path.dirname(p) for p, f in paths.items() if (tuple(attrs.get(f, ())) + ("ok",) * 5)[4] == "bad"}
    for p, f in paths.items():
        if os.path.dirname(p) in baddirs:
            a = (tuple(attrs.get(f, ("ok", "ok", False))) + ("ok",) * 5)[:5]
            attrs[f] = a[:4] + ("bad",)
    for d_ in sorted(baddirs):
        extra.append("chmod %s 750" % hx(d_))
    for p, f in paths.items():
        if f in [tuple(d) for d in dangling] and f[1] != 0:
            extra += ["rm %s" % hx(p), "symlink %s %s" % (hx(R + "/no/such/target"), hx(p))]
            continue
        own, grp, link = attrs.get(f, ("ok", "ok", False))[:3]
        perm = (tuple(attrs.get(f, ())) + ("ok",) * 4)[3]
        kind = t["main"][f[0] - 1] if f[1] == 0 else "regular"
        if perm == "bad" and kind != "devnull":
            extra.append("chmod %s 640" % hx(p))     # (follows a link: the link itself keeps its 0777 and satisfies every mask)
        if link and kind != "devnull":
            # move the content aside and put a symbolic link in its place
            tgt = "%s/targets/t%d_%d" % (R, f[0], f[1])
            data = contents.get(f)
            if data is None:
                data = body(f[0], f[1], t["shp"][0] if f[1] == 0 else t["shp"][1]) if kind == "regular" else ""
            extra += ["file %s %s" % (hx(tgt), hx(data)), "symlink %s %s" % (hx(tgt), hx(p))]
            if own == "foreign" or grp == "foreign":
                extra.append("chown %s %d %d" % (hx(tgt), FOREIGN if own == "foreign" else 0, FOREIGN if grp == "foreign" else 0))
        if own == "foreign" or grp == "foreign":
            extra.append("chown %s %d %d" % (hx(p), FOREIGN if own == "foreign" else 0, FOREIGN if grp == "foreign" else 0))
    K = [tuple(f) for f in Kfull(x)]
    pre = ["cbreset"]
    mask = 0
    for f in rej:
        mask |= 1 << K.index(tuple(f))
    flags = flags or {}
    fl = []
    if flags.get("owner"):
        fl.append("requireowner 0")
    if flags.get("group"):
        fl.append("requiregroup 0")
    if flags.get("nosym"):
        fl.append("followsymlinks 0")
    if flags.get("perms") == 2:
        # a file mask that the files of attribute perm = "bad" (mode 0640) do not satisfy
        fl.append("requireperms 004 001")
    elif flags.get("perms"):
        # econf_requirePermissions with masks that every file and directory of the scenario satisfies: no effect of its own, but
        # the other restrictions must keep working next to it
        fl.append("requireperms 444 555")
    # The settings are independent of each other and each keeps its LAST value: the calls come in a varying order, and calls that
    # are overwritten again (another owner / group first, links forbidden and allowed again, links allowed explicitly although
    # they are by default) are mixed in - the state in force at the read is the same.
    r_ = random.Random(i * 7919 + len(fl))
    if i % 3:
        noise = []
        if flags.get("owner") and r_.random() < 0.5:
            noise.append("requireowner %d" % FOREIGN)
        if flags.get("group") and r_.random() < 0.5:
            noise.append("requiregroup %d" % FOREIGN)
        if flags.get("nosym") and r_.random() < 0.5:
            noise.append("followsymlinks 1")
        if flags.get("perms") and r_.random() < 0.5:
            noise.append("requireperms 004 001" if flags.get("perms") == 1 else "requireperms 444 555")
        r_.shuffle(fl)
        fl = noise + fl
        if not flags.get("nosym"):
            # allowing links (again) says nothing about owners, groups or permission bits
            pos = r_.randint(0, len(fl))
            fl[pos:pos] = ["followsymlinks 0", "followsymlinks 1"] if r_.random() < 0.5 else ["followsymlinks 1"]

    def one_read(h):
        c = ["cbreset", "cbrejectk %d" % mask] + (["cbopenfd 1"] if use_cb else []) + shape.call(h, R, cb=use_cb) + (["fdcheck", "cbopenfd 0"] if use_cb else [])
        if ent.startswith("readhist"):
            c += ["dump %d" % k for k in range(h, h + 8)] + ["free %d" % k for k in range(h, h + 8)]
        else:
            c += ["dump %d" % h, "free %d" % h]
        return c
    body_ = shape.pre(R) + fl + one_read(1)
    if reset_reread:
        body_ += ["resetsec", "cbreset"] + shape.call(20, R, cb=use_cb) + (["dump %d" % k for k in range(20, 28)] + ["free %d" % k for k in range(20, 28)] if ent.startswith("readhist") else ["dump 20", "free 20"])
    body_ += ["resetsec", "cbreset"] + shape.post()
    if heap:
        sc = s + extra + body_ + ["heap"] + body_ + ["heap"]
    else:
        sc = s + extra + body_
    return sc, paths, K, shape


def Kfull(x):
    """consulted files in processing order (the exported log of the no-fault read)."""
    return x["log"]


def scenario_events(x, ent, out, paths, K, rej=(), attrs=None, flags=None, malformed=(), reset_reread=False, heap=False, use_cb=True, dangling=(), idx=None):
    root = out["root"]
    rp = {norm(k.replace(ROOT, root)): v for k, v in paths.items()}
    if ent.endswith("_rel") and idx is not None:      # relative directory arguments: the callback sees the relative composition
        rp.update({norm(k.replace(ROOT + "/s%d/" % (idx % 16), "")): v for k, v in paths.items()})
    t = {"main": with_dangling(x, dangling), "drop": x["drop"], "shp": x["shp"]}
    ev = out["ev"]
    heaps = [e["bytes"] for e in ev if e["op"] == "heap"]
    # descriptors the caller's callback opened during a read are the caller's: still open (and still the same file) afterwards
    fds_ok = all(e["bad"] == 0 for e in ev if e["op"] == "fdcheck")
    heap_ok = True
    if heap:
        heap_ok = len(heaps) == 2 and heaps[0] == heaps[1]
        # use the second (measured) run only
        cut = max(i for i, e in enumerate(ev) if e["op"] == "heap" and e["bytes"] == heaps[0] and i < len(ev) - 1) if len(heaps) == 2 else 0
        first_heap = [i for i, e in enumerate(ev) if e["op"] == "heap"][0]
        ev = ev[first_heap + 1:]
    reads = [(j, e) for j, e in enumerate(ev) if e["op"].startswith("read")]
    events = []
    faults = [{"f": list(f), "x": ["reject"]} for f in sorted(rej)] + [{"f": list(f), "x": ["malformed"]} for f in sorted(malformed)] + \
        [{"f": list(f), "x": ["dangling"]} for f in sorted(dangling) if f[1] != 0]
    alist = [{"f": list(f), "own": a[0], "grp": a[1], "link": bool(a[2]), "perm": (tuple(a) + ("ok",) * 2)[3], "dperm": (tuple(a) + ("ok",) * 2)[4]} for f, a in sorted((attrs or {}).items())]
    fl = {"owner": bool((flags or {}).get("owner")), "group": bool((flags or {}).get("group")), "nosym": bool((flags or {}).get("nosym")),
          "perms": {0: "none", 1: "lenient", 2: "strict"}[int((flags or {}).get("perms") or 0)]}
    for n, (j, rd) in enumerate(reads):
        second = n == 1
        # `flags` is what the scenario intends (used to name the fingerprint only); `setters` are the setter calls the
        # driver actually made before this read, in call order - the specification folds them into the settings in force
        events.append({"e": "begin", "main": t["main"], "drop": t["drop"], "shp": t["shp"], "nlay": len(t["main"]),
                       "faults": faults, "attrs": alist, "pd": pd_rows(x, ent), "setters": setters_before(ev, j),
                       "flags": {"owner": False, "group": False, "nosym": False, "perms": "none"} if second else fl})
        if use_cb:
            for c in rd.get("cb", []):
                f = rp.get(norm(c["p"]), (0, 0))
                events.append({"e": "callback", "f": list(f), "verdict": c["v"], "data_ok": c["d"]})
        nxt = []
        for e in ev[j + 1:]:
            if e["op"] == "dump":
                nxt.append(e)
            elif e["op"].startswith("read"):
                break
        if ent.startswith("readhist"):
            hist = []
            hp = dict(rp)
            if ent.endswith("_rel") and idx is not None:
                # a relative name is made absolute with realpath(): a link reports its target (the scenario's targets/ files,
                # /dev/null for the one main file that is consulted)
                Rabs = norm(root + "/s%d" % (idx % 16))
                for f in paths.values():
                    hp[norm("%s/targets/t%d_%d" % (Rabs, f[0], f[1]))] = f
                dn = [f for f in sorted(paths.values()) if f[1] == 0 and t["main"][f[0] - 1] == "devnull"]
                if dn:
                    hp["/dev/null"] = dn[-1]
            for d in nxt[:rd["n"]]:
                st = d["st"]
                hist.append({"f": list(hp.get(norm(st["path"]), (0, 0))) if st else [0, 0], "obs": {"groups": sections_of(d), "ents": listing_of_dump(d) or []}})
            events.append({"e": "end", "rc": rd["rc"], "has_obj": bool(rd["arr"]), "kind": "hist", "hist": hist, "ents": [], "heap_ok": heap_ok, "fds_ok": fds_ok, "cbused": use_cb})
        else:
            got = listing_of_dump(nxt[0]) if nxt and nxt[0]["st"] else None
            events.append({"e": "end", "rc": rd["rc"], "has_obj": bool(rd.get("obj")) and not (rd["rc"] != "ECONF_SUCCESS" and rd.get("same")),
                           "kind": "visible" if (f4_tree(t["main"], t["drop"], pd_rows(x, ent)) if any(f[1] == 0 for f in dangling) else f4_class(x)) else "cfg",
                           "hist": [], "ents": sorted_ents(got or []), "heap_ok": heap_ok, "fds_ok": fds_ok, "cbused": use_cb})
    return events


def setters_before(ev, j):
    """the calls of the process-wide setters among ev[:j] as [op, arg] records (every case starts from the reset state)"""
    out = []
    for e in ev[:j]:
        op = e.get("op")
        if op in ("requireowner", "requiregroup"):
            out.append({"op": op, "arg": "ok" if e["id"] == 0 else "foreign"})
        elif op == "followsymlinks":
            out.append({"op": op, "arg": "on" if e["on"] else "off"})
        elif op == "requireperms":
            if (e["file"], e["dir"]) == (0o444, 0o555):
                out.append({"op": op, "arg": "lenient"})
            elif (e["file"], e["dir"]) == (0o004, 0o001):
                out.append({"op": op, "arg": "strict"})
            else:
                raise core.ToolFailure("requireperms masks outside the modelled ones: %r" % e)
        elif op == "resetsec":
            out.append({"op": op, "arg": ""})
    return out


def validate_scenarios(events, verdict, pid, fpfun):
    ok, tr, _ = core.validate_trace("Trace_Layers", os.path.join(core.SPEC, "Trace_Layers.cfg"), events, timeout=3000)
    mism = [x for x in tr.json_lines() if "mismatch" in x]
    if not ok and not mism:
        raise core.ToolFailure("Trace_Layers did not consume the trace:\n" + tr.out[-2500:])
    nb = 0
    for x in mism[:60]:
        i = x["mismatch"] - 1
        j = i
        while j > 0 and events[j]["e"] != "begin":
            j -= 1
        k = j + 1
        while k < len(events) and events[k]["e"] != "begin":
            k += 1
        nb += 1
        verdict.violation(fpfun(events[j], events[i]), {"kind": "scenario-trace", "events": events[j:k], "rejected_at": i - j, "spec": x.get("spec")},
                          "trace rejected by Trace_Layers at event %d (%s):\n%s\nspecification expects: %s" % (
                              i - j, events[i]["e"], "\n".join(json.dumps(e) for e in events[j:k])[:1800], canon(x.get("spec"))[:600]))
    return len(mism)
