def c13_tree_cases(exe, tier, seed, verdict):
    return {"n": 0, "nontrivial": 0, "samples": []}
