"""C20 — every allocation released exactly once on every path.
M  MC_Lifecycle: abstract heap of a layered read (Begin, one step per consulted file, End / Fail@k,
   caller release) for every number of files x failure position x out-pointer initialisation:
   OutPtrContract, NoLibraryLeftovers, QuiescentEmpty.
B  fault enumeration on the real library (AddressSanitizer build): every scenario is run twice in
   one process; around the second run the allocator's live-byte count is read; after the caller
   released every valid handle the delta must be 0.  Scenarios:
     * layered reads (4 entry points, NULL- and option-initialised key_file) with a failure injected
       at EACH consulted file in turn: callback rejection, foreign owner, malformed line; plus the
       no-failure and no-file cases          -> Trace_Layers (heap_ok in End) + Trace_Lifecycle
     * API histories of C11 (random, up to 60 calls) and single calls on failing paths (missing
       file, unknown option, merge with NULL, free(NULL)) -> Trace_Lifecycle
   Double free / use after free abort the driver (ASan) = crash = violation.
   thorough: a sample of the scenarios additionally under valgrind memcheck (uninitialised reads)."""
import json
import os
import random
import subprocess
import time

from . import core
from .core import hx, ROOT
from . import p_layers, p_keyfile
from .p_layers import tree_export, scenario_script, scenario_events, validate_scenarios, Shape, materialise


def lifecycle_events(exe, scen, verdict):
    """scen: list of dict(name, call, init, script(list), expect_ok(bool or None)). Script must contain the
    scenario twice around 'heap' markers: [body] heap [body] heap."""
    cases = [(i, s["script"]) for i, s in enumerate(scen)]
    res = core.run_cases(exe, cases)
    events = []
    for i, s in enumerate(scen):
        out = res.get(i)
        if out is None or out["crash"]:
            verdict.violation("C20:%s:crash" % s["name"], {"kind": "script", "script": s["script"], "crash": (out or {}).get("crash")},
                              "scenario %s: memory error / crash\n%s" % (s["name"], (out or {}).get("crash", "")[:1200]))
            continue
        ev = out["ev"]
        heaps = [e["bytes"] for e in ev if e["op"] == "heap"]
        hi = [j for j, e in enumerate(ev) if e["op"] == "heap"]
        run2 = ev[hi[0] + 1:hi[1]] if len(hi) == 2 else ev
        call = next((e for e in run2 if e["op"] in s.get("ops", ()) or e["op"].startswith("read") or e["op"] in ("newopt", "merge")), None)
        if call is None or s["call"] == "free":       # no out-pointer to judge: only the heap and the free functions
            outptr, ok = "valid", True
        else:
            ok = call.get("rc") == "ECONF_SUCCESS"
            if call["op"].startswith("readhist"):
                outptr = "valid" if call.get("arr") else "null"
            elif "same" in call and call.get("same") and s["init"] == "object":
                outptr = "unchanged"
            else:
                outptr = "valid" if call.get("obj") else "null"
        fn = [e for e in run2 if e["op"] in ("free", "freenull")]
        events.append({"e": "scenario", "name": s["name"], "call": s["call"], "ok": ok, "init": s["init"], "outptr": outptr,
                       "heap_delta": (heaps[1] - heaps[0]) if len(heaps) == 2 else 999999, "free_null_ok": all(e["ret_null"] for e in fn)})
    return events


OPT_ENTRIES = ("std", "rc2cb", "config_dirs", "set_conf_dirs")     # entry points that start from an option-initialised key_file


def layered_scenarios(rnd, recs3, recs2, budget, recs4=()):
    scen = []
    # every entry point gets its share of the budget (round robin over per-entry pools: std three times as often as each other one)
    pools = {"std": [(x, "std") for x in recs3 if len(x["log"]) >= 1]}
    for e in ("readdirscb", "readhistcb", "rc2cb"):
        pools[e] = [(x, e) for x in recs2 if len(x["log"]) >= 1]
    # two drop-in directories per layer (CONFIG_DIRS list / econf_set_conf_dirs)
    for e in ("config_dirs", "set_conf_dirs"):
        pools[e] = [(x, e) for x in recs4 if len(x["log"]) >= 2 and any(2 in row for row in x["pd"])]
    for v in pools.values():
        rnd.shuffle(v)
    order = ["std", "readdirscb", "std", "readhistcb", "std", "rc2cb", "config_dirs", "set_conf_dirs"]
    pool = []
    idx = {k: 0 for k in pools}
    while any(idx[k] < len(pools[k]) for k in pools) and len(pool) < budget:
        for k in order:
            if idx[k] < len(pools[k]):
                pool.append(pools[k][idx[k]])
                idx[k] += 1
    for x, ent in pool:
        K = [tuple(f) for f in x["log"]]
        variants = [("none", None)]
        for f in K:
            variants.append(("reject", f))
            variants.append(("owner", f))
            if rnd.random() < 0.5:
                variants.append((rnd.choice(["fileperm", "dirperm"]), f))
            if not (f[1] == 0 and x["main"][f[0] - 1] != "regular"):
                variants.append(("malformed", f))
        # symbolic links to nowhere: as main file of each layer in turn (found by lstat, cannot be opened: the scan goes on
        # below it), and in place of each consulted drop-in (the read fails)
        for l in range(1, len(x["main"]) + 1):
            if rnd.random() < 0.5:
                variants.append(("dangling", (l, 0)))
        for f in K:
            if f[1] != 0 and rnd.random() < 0.5:
                variants.append(("dangling", f))
        for kind, f in variants:
            scen.append((x, ent, kind, f))
        if len(scen) >= budget:
            break
    return scen


def check(pid, tier, seed):
    t0 = time.time()
    exe = core.build("asan")
    verdict = core.Verdict(pid)
    rnd = random.Random(seed)
    mc = core.tlc_ok("MC_Lifecycle", os.path.join(core.SPEC, "MC_Lifecycle.cfg"), workers=4, timeout=600)
    if mc.violated:
        verdict.violation("C20:model", {"tlc": mc.out[-3000:]}, "TLC: lifecycle invariants violated in the model\n" + mc.out[-1500:])
    r3, recs3, _ = tree_export(3, [3, 6], 12, ["bb"])
    r2, recs2, _ = tree_export(2, [3, 6], 12, ["bb"])
    r4, recs4, _ = tree_export(3, [3, 6], 4, ["bb"], nd=2)
    scen = layered_scenarios(rnd, recs3, recs2, 900 if tier == "quick" else 12000, recs4)
    cases = []
    meta = []
    for i, (x, ent, kind, f) in enumerate(scen):
        kw = {}
        if kind == "reject":
            kw["rej"] = [f]
        elif kind == "owner":
            kw["attrs"] = {f: ("foreign", "ok", False)}
            kw["flags"] = {"owner": 1}
        elif kind == "fileperm":
            kw["attrs"] = {f: ("ok", "ok", False, "bad", "ok")}
            kw["flags"] = {"perms": 2}
        elif kind == "dirperm":
            kw["attrs"] = {f: ("ok", "ok", False, "ok", "bad")}
            kw["flags"] = {"perms": 2}
        elif kind == "malformed":
            kw["malformed"] = [f]
        elif kind == "dangling":
            kw["dangling"] = [f]
        sc, paths, K, shape = scenario_script(i, x, ent, heap=True, **kw)
        cases.append((i, sc))
        meta.append((paths, K, kw))
    res = core.run_cases(exe, cases)
    events = []
    lev = []
    nn = 0
    for i, (x, ent, kind, f) in enumerate(scen):
        out = res.get(i)
        paths, K, kw = meta[i]
        if out is None or out["crash"]:
            verdict.violation("C20:%s:%s:crash" % (ent, kind), {"kind": "scenario", "tree": {"main": x["main"], "drop": x["drop"]}, "fault": [kind, f], "crash": (out or {}).get("crash")},
                              "layered read (%s) with %s at %s: memory error / crash\n%s" % (ent, kind, f, (out or {}).get("crash", "")[:1000]))
            continue
        evs = scenario_events(x, ent, out, paths, K, heap=True, **kw)
        events += evs
        end = [e for e in evs if e["e"] == "end"][0]
        heaps = [e["bytes"] for e in out["ev"] if e["op"] == "heap"]
        lev.append({"e": "scenario", "name": "%s:%s@%s" % (ent, kind, list(f) if f else "-"), "call": "read", "ok": end["rc"] == "ECONF_SUCCESS",
                    "init": "object" if ent in OPT_ENTRIES else "null",
                    "outptr": "valid" if end["has_obj"] else ("unchanged" if ent in OPT_ENTRIES else "null"),
                    "heap_delta": heaps[1] - heaps[0] if len(heaps) == 2 else 999999, "free_null_ok": True})
        if f is not None and (f not in K or K.index(f) >= 1):
            nn += 1

    def fp(begin, ev):
        kinds = sorted({k for x in begin["faults"] for k in x["x"]} | ({"owner"} if begin["flags"]["owner"] else set()) | ({"perms"} if begin["flags"].get("perms") == "strict" else set()))
        pos = "later"
        return "C20:trace:%s:%s" % (ev["e"], "+".join(kinds) or "nofault")
    bad = validate_scenarios(events, verdict, "C20", fp)
    # ---- single calls on failing paths + API histories, heap-checked ----
    single = []
    R = ROOT + "/lc"

    def twice(body):
        return body + ["heap"] + body + ["heap"]
    single.append({"name": "readfile-missing", "call": "read", "init": "null", "script": twice(["readfile 1 %s x3d x23" % hx(R + "/nope.conf"), "free 1"])})
    single.append({"name": "readfile-malformed", "call": "read", "init": "null",
                   "script": ["file %s %s" % (hx(R + "/bad.conf"), hx("a=1\n[x\n"))] + twice(["readfile 1 %s x3d x23" % hx(R + "/bad.conf"), "free 1"])})
    for nm, content in (("pending-comment", "a=1\n# note\n# more\n[x\n"), ("trailing-comment", "a=1\n[x # why\n"), ("comment-then-missing-delim", "# c\nkey value\n"),
                        ("after-continuation", "a=1 # t\n b # u\n# p\n[]\n")):
        single.append({"name": "readfile-malformed-" + nm, "call": "read", "init": "null",
                       "script": ["file %s %s" % (hx(R + "/bad-%s.conf" % nm), hx(content))] + twice(["readfile 1 %s x3d x23" % hx(R + "/bad-%s.conf" % nm), "free 1"])})
    single.append({"name": "readfile-ok", "call": "read", "init": "null",
                   "script": ["file %s %s" % (hx(R + "/ok.conf"), hx("# c\na=1 # t\n b\n[S]\nk=\"q\"\n"))] + twice(["readfile 1 %s x3d x23" % hx(R + "/ok.conf"), "dumpx 1", "free 1"])})
    # the extended getter hands out several allocations per call (value lines, comments, path): on values whose text starts with
    # blanks and a quote (an empty first line + an indented quoted continuation; a value set through the API)
    for nm, content in (("quoted-continuation", "k=\n   \"abc\"\nj=1\n"), ("quoted-continuation-comment", "# c\nk=\n\t\"a b\" # t\n"), ("two-conts", "k=v\n  \"q\n  r\"\n")):
        single.append({"name": "ext-" + nm, "call": "free", "init": "null", "ops": ("none",),
                       "script": ["file %s %s" % (hx(R + "/ext-%s.conf" % nm), hx(content))] + twice(["readfile 1 %s x3d x23" % hx(R + "/ext-%s.conf" % nm), "ext 1 - %s" % hx("k"), "dumpx 1", "free 1"])})
    for nm, val in (("set-leading-blank-quote", "  \"q r\""), ("set-tab-quote", "\t\"x\""), ("set-newline-quote", "\n \"y\"")):
        single.append({"name": "ext-" + nm, "call": "free", "init": "null", "ops": ("none",),
                       "script": twice(["newkf 1 x3d x23", "set String 1 %s %s %s" % (hx("g"), hx("k"), hx(val)), "ext 1 %s %s" % (hx("g"), hx("k")), "dumpx 1", "free 1"])})
    single.append({"name": "readfilecb-reject", "call": "read", "init": "null",
                   "script": ["file %s %s" % (hx(R + "/ok2.conf"), hx("a=1\n"))] + twice(["cbreset", "cbrejectk 1", "readfilecb 1 %s x3d x23" % hx(R + "/ok2.conf"), "free 1", "cbreset"])})
    for optstr in ("FOO=1", "PARSING_DIRS=/a:/b;FOO=1", "CONFIG_DIRS=.d;ROOT_PREFIX=/x;python_style=1", "ROOT_PREFIX=/a;ROOT_PREFIX=/b", "PARSING_DIRS=/a;PARSING_DIRS=/b:/c;CONFIG_DIRS=.d;CONFIG_DIRS=.e:.f", "JOIN_SAME_ENTRIES=1;PYTHON_STYLE=1"):
        single.append({"name": "newopt:" + optstr, "call": "newopt", "init": "null", "ops": ("newopt",), "script": twice(["newopt 1 %s" % hx(optstr), "free 1"])})
    single.append({"name": "readconfig-nofile-null", "call": "read", "init": "null",
                   "script": twice(["readconfig 1 %s %s %s %s x3d x23" % (hx("nosuchprj9"), hx("/usr/lib"), hx("nosuchcfg"), hx("conf")), "free 1"])})
    single.append({"name": "readconfig-nofile-opt", "call": "read", "init": "object",
                   "script": twice(["newopt 1 %s" % hx("ROOT_PREFIX=" + R + "/empty"), "readconfig 1 %s %s %s %s x3d x23" % (hx("p"), hx("/usr/lib"), hx("c"), hx("conf")), "free 1"])})
    single.append({"name": "readconfig-nullargs", "call": "read", "init": "null", "script": twice(["readconfig 1 - - - - x3d x23", "free 1"])})
    # single files by every form of RELATIVE name (bare name, ./name, sub/name, ../name, a name that does not exist)
    relnames = ["bare.conf", "./bare.conf", "sub/in.conf", "sub/../bare.conf", "./sub/./in.conf", "missing.conf", "sub/missing.conf"]
    single.append({"name": "readfile-relative-names", "call": "free", "init": "null", "ops": ("none",),
                   "script": ["file %s %s" % (hx(R + "/rel/bare.conf"), hx("a=1\n")), "file %s %s" % (hx(R + "/rel/sub/in.conf"), hx("b=2\n")), "chdir %s" % hx(R + "/rel")] +
                             twice([x for nm in relnames for x in ("readfile 1 %s x3d x23" % hx(nm), "path 1", "free 1")]) + ["chdir /"]})
    # drop-ins only (no configuration name: <project>.d) through option objects whose own drop-in directory list has 0 / 1 / 2 / 3
    # entries, with and without files to find, and the same handle used again after a read that found nothing
    dr = R + "/dropsonly"
    mkd = ["file %s %s" % (hx(dr + "/etc/prj.d/a.conf"), hx("A=1\n")), "file %s %s" % (hx(dr + "/usr/lib/prj.d/b.conf"), hx("B=1\n"))]
    for cdirs in ("", "CONFIG_DIRS=.x.d;", "CONFIG_DIRS=.x.d:.y.d;", "CONFIG_DIRS=.x.d:.y.d:.z.d;"):
        for root_ in (dr, dr + "/nothing-here"):
            single.append({"name": "readconfig-dropins-only:%s%s" % (cdirs, "found" if root_ == dr else "nofile"), "call": "read", "init": "object",
                           "script": mkd + twice(["newopt 1 %s" % hx(cdirs + "ROOT_PREFIX=" + root_), "readconfig 1 %s %s - %s x3d x23" % (hx("prj"), hx("/usr/lib"), hx("conf")), "dumpx 1", "free 1"])})
        single.append({"name": "readconfig-dropins-only-retry:%s" % cdirs, "call": "read", "init": "object",
                       "script": mkd + twice(["newopt 1 %s" % hx(cdirs + "ROOT_PREFIX=" + dr + "/nothing-here"), "readconfig 1 %s %s - %s x3d x23" % (hx("prj"), hx("/usr/lib"), hx("conf")),
                                              "readconfig 1 %s %s - %s x3d x23" % (hx("prj"), hx("/usr/lib"), hx("conf")), "readconfig 1 %s %s %s %s x3d x23" % (hx("prj"), hx("/usr/lib"), hx("cfg"), hx("conf")), "free 1"])})
    # layered reads WITHOUT suffix (empty and absent): every entry of a drop-in directory is a candidate then - `.` and `..` included -
    # and whatever is read on the way is released again
    NS = R + "/nosfx"
    nos_files = ["file %s %s" % (hx(NS + "/usr/etc/cfg"), hx("a=1\n")), "file %s %s" % (hx(NS + "/usr/etc/cfg.d/one"), hx("b=2\n")),
                 "file %s %s" % (hx(NS + "/etc/cfg.d/two.conf"), hx("c=3\n")), "file %s %s" % (hx(NS + "/etc/cfg.d/three"), hx("a=4\n"))]
    for nm, sfx_ in (("empty", hx("")), ("null", "-")):
        single.append({"name": "readdirs-nosuffix-" + nm, "call": "free", "init": "null", "ops": ("none",),
                       "script": nos_files + twice(["readdirs 1 %s %s %s %s x3d x23" % (hx(NS + "/usr/etc"), hx(NS + "/etc"), hx("cfg"), sfx_), "dump 1", "free 1"])})
        single.append({"name": "readconfig-nosuffix-" + nm, "call": "free", "init": "null", "ops": ("none",),
                       "script": nos_files + twice(["newopt 1 %s" % hx("PARSING_DIRS=%s/usr/etc:%s/etc" % (NS, NS)), "readconfig 1 - - %s %s x3d x23" % (hx("cfg"), sfx_), "dump 1", "free 1"])})
        single.append({"name": "readhist-nosuffix-" + nm, "call": "free", "init": "null", "ops": ("none",),
                       "script": nos_files + twice(["readhist 1 %s %s %s %s x3d x23" % (hx(NS + "/usr/etc"), hx(NS + "/etc"), hx("cfg"), sfx_)] + ["free %d" % k for k in range(1, 9)])})
    single.append({"name": "readdirs-nofile", "call": "read", "init": "null",
                   "script": twice(["readdirs 1 %s %s %s %s x3d x23" % (hx(R + "/e1"), hx(R + "/e2"), hx("c"), hx("conf")), "free 1"])})
    single.append({"name": "readhist-nofile", "call": "read", "init": "null",
                   "script": twice(["readhist 1 %s %s %s %s x3d x23" % (hx(R + "/e1"), hx(R + "/e2"), hx("c"), hx("conf")), "free 1"])})
    single.append({"name": "merge-null", "call": "read", "init": "null", "ops": ("merge",), "script": twice(["newkf 1 x3d x23", "merge 3 1 2", "free 3", "free 1"])})
    single.append({"name": "free-null", "call": "free", "init": "null", "ops": ("none",), "script": twice(["freenull", "free 5"])})
    single.append({"name": "setconfdirs", "call": "free", "init": "null", "ops": ("none",), "script": twice(["setconfdirs %s %s" % (hx(".d"), hx("/x")), "setconfdirs"])})
    # a file vanishes while the read is in flight: the callback for file j deletes file j+1 (already listed by scandir
    # when it sits in the same directory). Whatever the library answers, nothing may leak or crash.
    vr = ROOT + "/van"
    for ent, rd in (("readdirscb", "readdirscb 1 %s %s %s %s x3d x23" % (hx(vr + "/usr/etc"), hx(vr + "/etc"), hx("cfg"), hx("conf"))),
                    ("readhistcb", "readhistcb 1 %s %s %s %s x3d x23" % (hx(vr + "/usr/etc"), hx(vr + "/etc"), hx("cfg"), hx("conf")))):
        for trig, victim in (("etc/cfg.conf", "usr/etc/cfg.conf.d/a.conf"), ("usr/etc/cfg.conf.d/a.conf", "usr/etc/cfg.conf.d/b.conf"),
                             ("usr/etc/cfg.conf.d/b.conf", "etc/cfg.conf.d/a.conf"), ("usr/etc/cfg.conf.d/a.conf", "etc/cfg.conf")):
            mk = ["rm %s" % hx(vr)] + ["file %s %s" % (hx(vr + "/" + f), hx("K=1\n")) for f in ("etc/cfg.conf", "usr/etc/cfg.conf.d/a.conf", "usr/etc/cfg.conf.d/b.conf", "etc/cfg.conf.d/a.conf")]
            body_ = mk + ["cbreset", "cbdel %s %s" % (hx(vr + "/" + trig), hx(vr + "/" + victim)), rd] + ["free %d" % k for k in range(1, 7)] + ["cbreset"]
            single.append({"name": "vanish:%s:%s->%s" % (ent, trig, victim), "call": "free", "init": "null", "ops": ("none",), "script": twice(body_)})
    # random conventional files of every grammar (plain, JOIN_SAME_ENTRIES: keys defined again / reset by an empty definition, with and
    # without trailing comments; PYTHON_STYLE), some with a malformed line, read through an option object, listed in full, released
    from gen import gram
    from .p_parser import file_bytes
    nf = 200 if tier == "quick" else 4000
    for j in range(nf):
        mode = rnd.choice(["join", "join", "python", "none"])
        f = gram.random_file(rnd, rnd.randint(2, 14), mode, 0.15)
        optstr = {"join": "JOIN_SAME_ENTRIES=1", "python": "PYTHON_STYLE=1", "none": ""}[mode]
        fr = R + "/of%d" % (j % 8)
        dl, cm = bytes(f["par"]["delim"]), bytes(f["par"]["comment"])
        body_ = ["newopt 1 %s" % hx((optstr + ";" if optstr else "") + "ROOT_PREFIX=" + fr),
                 "readconfig 1 - - %s %s %s %s" % (hx("p"), hx("conf"), hx(dl), hx(cm)), "dumpx 1", "free 1"]
        single.append({"name": "optfile-%d" % j, "call": "free", "init": "null", "ops": ("none",),
                       "script": ["rm %s" % hx(fr), "file %s %s" % (hx(fr + "/etc/p.conf"), hx(file_bytes(f["lines"], rnd.random() < 0.8)))] + twice(body_)})
    nh = 150 if tier == "quick" else 3000
    for j in range(nh):
        h = p_keyfile.random_history(rnd, "lc-%d" % j, rnd.randint(5, 60))
        single.append({"name": "history-%d" % j, "call": "free", "init": "null", "ops": ("none",), "script": twice(h.script)})
    lev += lifecycle_events(exe, single, verdict)
    ok, tr, _ = core.validate_trace("Trace_Lifecycle", os.path.join(core.SPEC, "Trace_Lifecycle.cfg"), lev, timeout=1200)
    mism = [x for x in tr.json_lines() if "mismatch" in x]
    if not ok and not mism:
        raise core.ToolFailure("Trace_Lifecycle did not consume the trace:\n" + tr.out[-2000:])
    for x in mism[:60]:
        e = lev[x["mismatch"] - 1]
        what = "leak" if e["heap_delta"] != 0 else ("outptr" if e["outptr"] not in x["spec"]["outptr"] else "free")
        nm = e["name"].split("@")[0]
        if nm.startswith("history-"):
            nm = "history"
        if nm.startswith("optfile-"):
            nm = "optfile"
        verdict.violation("C20:%s:%s" % (what, nm), {"kind": "lifecycle", "event": e, "spec": x["spec"]},
                          "scenario %s: out-pointer %s (allowed %s), heap delta after release %d bytes, free functions return NULL: %s" % (
                              e["name"], e["outptr"], x["spec"]["outptr"], e["heap_delta"], e["free_null_ok"]))
    nvg = 0
    if tier == "thorough":
        nvg = valgrind_sample(cases, rnd, verdict)
    rc = verdict.finish()
    cov = {"evaluations": len(scen) + len(single), "distinct_nontrivial": nn + sum(1 for s in single if s["init"] == "object" or s["name"].startswith("newopt")),
           "rule": "fault enumeration: %d layered-read scenarios = trees (3 layers via econf_readConfigWithCallback with an option-initialised key_file; 2 layers via econf_readDirsWithCallback, econf_readDirsHistoryWithCallback, econf_readConfigWithCallback+PARSING_DIRS) x {no fault} + for EACH consulted file in turn {callback rejection, foreign owner under econf_requireOwner, file mode or directory mode refused under econf_requirePermissions, malformed line, drop-in that is a symbolic link to nowhere} and main files that are symbolic links to nowhere in each layer; + %d single calls on failing paths (missing / malformed file, single files by every form of relative name, layered reads with an empty and with an absent suffix, rejected single file, unknown and repeated option items, no file with NULL- and option-initialised key_file, drop-ins-only reads through option objects with 0..3 own drop-in directories incl. a handle used again after a read that found nothing, NULL arguments, merge with NULL, free(NULL)) %d random conventional files of the plain / JOIN_SAME_ENTRIES / PYTHON_STYLE grammars (15 %% with a malformed line) read through an option object, listed in full and released, and %d random API histories of 5..60 calls. Every scenario runs twice in one process; ASan's live-byte count around the second run must not move after the caller released all valid handles (Trace_Lifecycle: heap_delta = 0, out-pointer in OutPtrAllowed, free functions return NULL; Trace_Layers: return code, callbacks, content). ASan aborts on double free / use after free. valgrind memcheck sample: %d. non-trivial = fault at a position >= 2 or an option-initialised key_file." % (
               len(scen), len(single) - nh - nf, nf, nh, nvg),
           "samples": lev[:2] + lev[-1:], "exhaustive": False, "model_states": mc.distinct, "traces_validated_against_impl": len(lev) - len(mism),
           "trusted_base": ["gcc ASan allocator accounting (__sanitizer_get_current_allocated_bytes)", "TLC 1.8.0", "drv.c", "valgrind memcheck (thorough)"]}
    core.write_evidence(pid, tier, seed, "fault_enumeration", cov,
                        ["allocation failure (NOMEM) paths are not injected", "unreadable files (EACCES) cannot be produced as root"], time.time() - t0, len(verdict.violations))
    return rc


def valgrind_sample(cases, rnd, verdict):
    """uninitialised-value reads: a sample of the scenario scripts under valgrind memcheck (plain build)."""
    pl = core.build("plain")
    sample = rnd.sample(cases, min(40, len(cases)))
    root = os.path.join(core.scratch(), "vg")
    text = []
    for cid, lines in sample:
        text.append("case %s" % cid)
        text += [l for l in lines if l != "heap"]
    text.append("end")
    env = dict(os.environ, DRV_ROOT=root)
    p = subprocess.run(["valgrind", "-q", "--error-exitcode=77", "--track-origins=no", pl], input=("\n".join(text) + "\n").encode("latin-1"),
                       capture_output=True, env=env, timeout=1800)
    if p.returncode == 77 or b"uninitialised" in p.stderr:
        verdict.violation("C20:valgrind", {"kind": "valgrind", "stderr": p.stderr.decode("latin-1")[-3000:]}, "valgrind memcheck reports:\n" + p.stderr.decode("latin-1")[-1500:])
    return len(sample)


def replay(pid, path):
    print(open(path).read()[:5000])
    return 0
