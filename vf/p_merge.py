"""C03 — econf_mergeFiles against Merge.tla.
M  TLC: ObsOf(MergeImpl(b,o)) = MergeRef(b,o), output within Len(b)+Len(o), for all pairs of
   duplicate-free entry lists up to MaxLen over {group-less,A,B} x {x,y}.
F  every pair exported by TLC is built through the public API (setters on the three kinds of
   fresh objects, or a parsed file where the list can be written as a file), merged, and the
   result and both inputs after the call are compared with the expectation.
B  random larger pairs (0..30 entries over 4 sections x 6 keys): recorded calls validated by
   Trace_Merge.tla."""
import json
import os
import random
import time

from . import core
from .core import hx, codes, canon
from .p_parser import export, write_cfg, cfg_text


def obs_of_dump(d):
    st = d["st"]
    if st is None:
        return None
    ents = []
    for sec in st["secs"]:
        for k in sec["keys"]:
            ents.append({"g": codes(sec["g"]) if sec["g"] is not None else [], "k": codes(k["k"]),
                         "v": codes(k["v"]) if k["v"] is not None else []})
    # key-bearing sections only (a section without keys is invisible to the property)
    bearing = []
    for e in ents:
        if e["g"] and e["g"] not in bearing:
            bearing.append(e["g"])
    groups = [codes(g) for g in st["groups"]]
    return {"groups": [g for g in groups if g in bearing], "ents": ents, "allgroups": groups}


def parseable(lst):
    seen_sec = False
    for e in lst:
        if 32 in e["k"] or 9 in e["k"]:
            return False
        if e["g"]:
            seen_sec = True
        elif seen_sec:
            return False
    return True


def build_obj(h, lst, variant, path, hdr=(), salt=0, nov=False, quote=False):
    """hdr: header-only sections (only a parsed file can have them): `[A]` lines placed at section
    boundaries chosen by `salt` (after the group-less keys, between two sections, at the end)."""
    s = []
    # (variant 3 with nothing to hold: an object PARSED from a file without any entry - it has no entry array at all, unlike the
    # empty objects the constructors make)
    if (variant == 3 and parseable(lst)) or hdr or nov:
        assert parseable(lst)
        lines = []
        cur = []
        for e in lst:
            if e["g"] != cur:
                lines.append(b"[" + bytes(e["g"]) + b"]")
                cur = e["g"]
            if nov and (not lines or lines[-1].startswith(b"[")):
                lines.append(bytes(e["k"]))          # a key without delimiter: stored WITHOUT a value (first line / first of its section)
            elif not e["v"] and (len(lines) + salt) % 2:
                # an entry without value as a key alone on its line (below another entry only after a blank line: directly
                # below it would continue that entry's value)
                if lines and not lines[-1].startswith(b"["):
                    lines.append(b"")
                lines.append(bytes(e["k"]))
            elif quote and e["v"]:
                lines.append(bytes(e["k"]) + b"=\"" + bytes(e["v"]) + b"\"")      # read quoted (the quotes are not part of the value)
            else:
                lines.append(bytes(e["k"]) + b"=" + bytes(e["v"]))
        for n, g in enumerate(sorted(hdr)):
            bounds = [i for i, ln in enumerate(lines) if ln.startswith(b"[")] + [len(lines)]
            lines.insert(bounds[(salt + n) % len(bounds)], b"[" + bytes(g) + b"]")
        s.append("file %s %s" % (hx(path), hx(b"\n".join(lines) + b"\n" if lines else b"# nothing in here\n")))
        s.append("readfile %d %s x3d x23" % (h, hx(path)))
        return s
    if variant == 0 or variant == 3:
        s.append("newkf %d x3d x23" % h)
    elif variant == 1:
        s.append("newini %d" % h)
    else:
        s.append("newopt %d x" % h)
    for e in lst:
        g = hx(bytes(e["g"])) if e["g"] else ("-" if (len(e["k"]) + h) % 2 else "x")
        s.append("set String %d %s %s %s" % (h, g, hx(bytes(e["k"])), hx(bytes(e["v"]))))
    return s


def merge_script(i, b, o, bh=(), oh=()):
    root = core.ROOT + "/m%d" % (i % 32)
    s = build_obj(1, b, i % 4, root + "/b.conf", bh, i) + build_obj(2, o, (i // 4) % 4, root + "/o.conf", oh, i // 3)
    s += ["dump 1", "dump 2", "merge 3 1 2", "dump 3", "dump 1", "dump 2", "free 3", "free 1", "free 2"]
    return s


def strip(o):
    return {"groups": o["groups"], "ents": o["ents"]} if o else None


def fingerprint(b, o):
    def shape(l):
        if not l:
            return "empty"
        gs = [tuple(e["g"]) for e in l]
        f = []
        if gs[0] != ():
            f.append("sec1st")
        if () in gs and gs[0] != ():
            f.append("nogrp-late")
        if any(gs[i] != gs[i - 1] and gs[i] in gs[:i] for i in range(1, len(gs))):
            f.append("reopen")
        if all(g == () for g in gs):
            f.append("nogrp-only")
        return "+".join(f) or "plain"
    return "C03:merge:base=%s:over=%s" % (shape(b), shape(o))


def nontrivial(b, o):
    if not b or not o:
        return True
    kb = {(tuple(e["g"]), tuple(e["k"])) for e in b}
    ko = {(tuple(e["g"]), tuple(e["k"])) for e in o}
    def reopen(l):
        gs = [tuple(e["g"]) for e in l]
        return any(gs[i] != gs[i - 1] and gs[i] in gs[:i] for i in range(1, len(gs)))
    return bool(kb & ko) or reopen(b) or reopen(o)


def run_pairs(exe, pairs, verdict, expect=None, i0=0):
    """pairs: list of (b, o). Returns list of per-pair event dicts (for trace validation) and counts."""
    pairs = [(p + ((), ()))[:4] for p in pairs]
    cases = [(i, merge_script(i0 + i, b, o, bh, oh)) for i, (b, o, bh, oh) in enumerate(pairs)]
    hdrs = {i: (bh, oh) for i, (b, o, bh, oh) in enumerate(pairs)}
    pairs = [p[:2] for p in pairs]
    res = core.run_cases(exe, cases)
    events = []
    for i, (b, o) in enumerate(pairs):
        out = res.get(i)
        case = {"kind": "merge", "b": b, "o": o, "variant": [(i0 + i) % 4, ((i0 + i) // 4) % 4], "bh": hdrs[i][0], "oh": hdrs[i][1], "i": i0 + i}
        if out is None or out["crash"]:
            verdict.violation(fingerprint(b, o) + ":crash", dict(case, crash=(out or {}).get("crash")),
                              "econf_mergeFiles crashed / corrupted memory\nbase: %s\nover: %s\n%s" % (
                                  show(b), show(o), (out or {}).get("crash", "")[:900]))
            events.append(None)
            continue
        ev = out["ev"]
        setup = [e for e in ev if e["op"] in ("readfile", "newkf", "newini", "newopt", "set") and e["rc"] != "ECONF_SUCCESS"]
        if setup:
            raise core.ToolFailure("harness could not build a merge input: %s" % setup[:2])
        dumps = [e for e in ev if e["op"] == "dump"]
        mg = next(e for e in ev if e["op"] == "merge")
        b0, o0, m, b1, o1 = [obs_of_dump(d) for d in dumps]
        if m is None or b1 is None or o1 is None:
            verdict.violation(fingerprint(b, o) + ":noresult", dict(case, rc=mg["rc"]),
                              "econf_mergeFiles returned %s and no object\nbase: %s\nover: %s" % (mg["rc"], show(b), show(o)))
            events.append(None)
            continue
        rec = {"e": "merge", "b": b, "o": o, "rc": mg["rc"], "obs": strip(m) or {"groups": [], "ents": []},
               "b_after": strip(b1), "o_after": strip(o1)}
        events.append(rec)
        if b0 != b1 or o0 != o1:
            verdict.violation(fingerprint(b, o) + ":input-changed", dict(case, before=[b0, o0], after=[b1, o1]),
                              "econf_mergeFiles changed one of its inputs\nbase: %s\nover: %s" % (show(b), show(o)))
            continue
        if expect is not None:
            want = expect[i]
            if mg["rc"] != "ECONF_SUCCESS" or strip(m) != want:
                verdict.violation(fingerprint(b, o), dict(case, got=strip(m), want=want, rc=mg["rc"]),
                                  "merge result differs from MergeRef\nbase: %s%s\nover: %s%s\nexpected: %s\nlibrary : %s (%s)" % (
                                      show(b), showh(hdrs[i][0]), show(o), showh(hdrs[i][1]), showobs(want), showobs(strip(m)), mg["rc"]))
    return events


def inputs_unchanged(exe, pairs, verdict, pid):
    """Both inputs of econf_mergeFiles are parsed files in which the first key of the file / of each section has NO value
    (no delimiter): everything the extended dump shows of either input (values as stored incl. their absence, comments,
    line numbers, sections, path) must be the same before and after the call, in both roles."""
    pairs = [(b, o) for b, o in pairs if parseable(b) and parseable(o)]
    cases = []
    for i, (b, o) in enumerate(pairs):
        root = core.ROOT + "/u%d" % (i % 32)
        s = ["rm %s" % hx(root)]
        for h, lst, nm in ((1, b, "b"), (2, o, "o")):
            # how the input object came to be: econf_readFile / the result of a layered read that consulted this one file / a
            # member of a history (objects of the last two kinds are marked for release by the library's own merge)
            how = (i + h) % 3
            d = "%s/%s/etc" % (root, nm)
            bo = build_obj(h, lst, 3, d + "/f.conf", nov=True, quote=((i // 3 + h) % 2 == 0))       # one side's values in double quotes
            if how == 1:
                bo[-1] = "readdirs %d %s %s %s %s x3d x23" % (h, hx("%s/%s/usr" % (root, nm)), hx(d), hx("f"), hx("conf"))
            elif how == 2:
                bo[-1] = "readhist %d %s %s %s %s x3d x23" % (h, hx("%s/%s/usr" % (root, nm)), hx(d), hx("f"), hx("conf"))
            s += bo
        # (what a later write of either input produces belongs to "unchanged" too: the bytes of a write before and after the merge)
        wd = hx(root + "/w")
        s += ["mkdir %s" % wd, "dumpx 1", "dumpx 2", "write 1 %s %s" % (wd, hx("b0")), "write 2 %s %s" % (wd, hx("o0")), "merge 3 1 2", "dumpx 1", "dumpx 2",
              "write 1 %s %s" % (wd, hx("b1")), "write 2 %s %s" % (wd, hx("o1"))] + ["cat %s" % hx(root + "/w/" + n_) for n_ in ("b0", "o0", "b1", "o1")] + [
              "get String 2 - x78", "get Int 2 - x78", "free 3", "free 1", "free 2"]
        cases.append((i, s))
    res = core.run_cases(exe, cases)
    n = 0
    for i, (b, o) in enumerate(pairs):
        out = res.get(i)
        case = {"kind": "merge-inputs", "b": b, "o": o, "i": i}
        if out is None or out["crash"]:
            verdict.violation("%s:merge-inputs:crash" % pid, dict(case, crash=(out or {}).get("crash")),
                              "econf_mergeFiles crashed on parsed inputs with value-less keys\nbase: %s\nover: %s\n%s" % (show(b), show(o), (out or {}).get("crash", "")[:900]))
            continue
        d = [e for e in out["ev"] if e["op"] == "dump"]
        if len(d) != 4 or any(x["st"] is None for x in d):
            raise core.ToolFailure("harness could not build the merge inputs: %s" % [e for e in out["ev"] if e.get("rc") not in (None, "ECONF_SUCCESS")][:2])
        n += 1
        cats = [e.get("data") for e in out["ev"] if e["op"] == "cat"]
        if len(cats) != 4 or any(c_ is None for c_ in cats):
            raise core.ToolFailure("merge-inputs: the inputs could not be written: %s" % [e for e in out["ev"] if e["op"] == "write"][:2])
        if len(cats) == 4 and (cats[0] != cats[2] or cats[1] != cats[3]):
            role = "base" if cats[0] != cats[2] else "override"
            verdict.violation("%s:merge-inputs:%s-written-differently" % (pid, role), dict(case, before=cats[0 if role == "base" else 1], after=cats[2 if role == "base" else 3]),
                              "econf_mergeFiles changed what a later write of its %s input produces\nbase: %s\nover: %s\nwritten before the merge:\n%s\nafter:\n%s" % (
                                  role, show(b), show(o), cats[0 if role == "base" else 1], cats[2 if role == "base" else 3]))
            continue
        for role, a, z in (("base", d[0], d[2]), ("override", d[1], d[3])):
            if a["st"] != z["st"]:
                diff = [(x, y) for sa, sz in zip(a["st"]["secs"], z["st"]["secs"]) for x, y in zip(sa["keys"], sz["keys"]) if x != y][:2]
                verdict.violation("%s:merge-inputs:%s-changed" % (pid, role), dict(case, before=a["st"], after=z["st"]),
                                  "econf_mergeFiles changed its %s input (first key of the file / of each section has no value)\nbase: %s\nover: %s\nfirst differences (before, after): %s" % (
                                      role, show(b), show(o), json.dumps(diff)[:600]))
                break
    return n


def show(l):
    return " ".join("%s/%s=%s" % (core.uncodes(e["g"]) or "-", core.uncodes(e["k"]), core.uncodes(e["v"])) for e in l) or "(empty)"


def showh(h):
    return (" + header-only sections %s" % [core.uncodes(g) for g in h]) if h else ""


def showobs(o):
    if not o:
        return "none"
    return "sections %s | %s" % ([core.uncodes(g) for g in o["groups"]], show(o["ents"]))


def random_list(r, n):
    # (section names: also one whose djb2 hash equals that of the library's "no section" marker - the marker text itself IS the library's spelling of "no section", also for the setters, and stays out; keys that
    # are prefixes of each other)
    secs = ["", "A", "B", "C", "D d", "_nooD_"]
    keys = ["x", "y", "z", "k1", "k2", "key six", "k12", "xx"]
    if n > 28:          # long lists (dozens of entries per side: indices beyond 31 / 63) need more distinct keys
        keys = keys + ["q%d" % i for i in range(40)]
    out = []
    seen = set()
    cur = r.choice(secs)
    for _ in range(n):
        if r.random() < 0.35:
            cur = r.choice(secs)
        k = r.choice(keys)
        if (cur, k) in seen:
            continue
        seen.add((cur, k))
        out.append({"g": codes(cur), "k": codes(k), "v": codes("v%d" % r.randint(0, 99)) if r.random() < 0.88 else []})
    return out


def check(pid, tier, seed):
    t0 = time.time()
    exe = core.build("asan")
    verdict = core.Verdict(pid)
    maxlen = 3 if tier == "quick" else 4
    # model check one bound deeper than what is replayed
    mc = core.tlc_ok("MC_Merge", write_cfg(cfg_text(["MergeIsRef", "WithinBounds", "Complete"],
                                                    {"MaxLen": maxlen + 1, "Export": "FALSE", "Hdr": "FALSE", "NoV": "FALSE"})), timeout=3000)
    if mc.violated:
        verdict.violation("C03:model", {"tlc": mc.out[-3000:]}, "TLC: MergeImpl violates MergeRef / bounds\n" + mc.out[-1500:])
    r, recs, total = export("MC_Merge", {"MaxLen": maxlen, "Export": "TRUE", "Hdr": "FALSE", "NoV": "FALSE"}, ["MergeIsRef", "WithinBounds"], seed=seed)
    pairs = [(x["b"], x["o"]) for x in recs]
    expect = [x["exp"] for x in recs]
    run_pairs(exe, pairs, verdict, expect)
    nn = sum(1 for b, o in pairs if nontrivial(b, o))
    # header-only sections on either side (parsed files only)
    r2, recs2, total2 = export("MC_Merge", {"MaxLen": maxlen - 1, "Export": "TRUE", "Hdr": "TRUE", "NoV": "FALSE"}, ["MergeIsRef", "WithinBounds"], seed=seed)
    plain2 = [(x["b"], x["o"]) for x in recs2 if not x["bh"] and not x["oh"]]
    recs2 = [x for x in recs2 if (x["bh"] or x["oh"]) and parseable(x["b"]) and parseable(x["o"])]
    hpairs = [(x["b"], x["o"], [tuple(g) for g in x["bh"]], [tuple(g) for g in x["oh"]]) for x in recs2]
    run_pairs(exe, hpairs, verdict, [x["exp"] for x in recs2])
    nin = inputs_unchanged(exe, plain2, verdict, "C03")
    # entries without value on either side (a key alone on its line, `k=`, a setter with an empty text): the override's entry
    # replaces the base's value like any other
    r3, recs3, total3 = export("MC_Merge", {"MaxLen": maxlen - 1, "Export": "TRUE", "Hdr": "FALSE", "NoV": "TRUE"}, ["MergeIsRef", "WithinBounds", "Complete"], seed=seed,
                                sample=1 if tier == "quick" else 4)      # (thorough: over a million pairs - every 4th is replayed, memory)
    recs3 = [x for x in recs3 if any(not e["v"] for e in x["b"] + x["o"])]
    run_pairs(exe, [(x["b"], x["o"]) for x in recs3], verdict, [x["exp"] for x in recs3], i0=1)
    # random larger pairs, validated by TLC
    rnd = random.Random(seed)
    npairs = 400 if tier == "quick" else 6000
    rp = [(random_list(rnd, rnd.randint(0, 30)), random_list(rnd, rnd.randint(0, 30))) for _ in range(npairs)]
    # long lists: 30..120 entries per side, many shared keys, override-only keys behind replaced ones
    rp += [(random_list(rnd, rnd.randint(20, 120)), random_list(rnd, rnd.randint(30, 120))) for _ in range(npairs // 4)]
    evs = run_pairs(exe, rp, verdict)
    good = [e for e in evs if e is not None]
    acc = 0
    if good:
        ok, tr, _ = core.validate_trace("Trace_Merge", os.path.join(core.SPEC, "Trace_Merge.cfg"), good)
        mism = [x for x in tr.json_lines() if "mismatch" in x]
        if not ok and not mism:
            raise core.ToolFailure("Trace_Merge did not consume the trace:\n" + tr.out[-2000:])
        for x in mism:
            e = good[x["mismatch"] - 1]
            verdict.violation(fingerprint(e["b"], e["o"]) + ":trace", {"kind": "merge", "b": e["b"], "o": e["o"], "got": e["obs"], "want": x["spec"]},
                              "recorded merge rejected by Trace_Merge\nbase: %s\nover: %s\nexpected: %s\nlibrary : %s" % (
                                  show(e["b"]), show(e["o"]), showobs(x["spec"]), showobs(e["obs"])))
        acc = len(good) - len(mism)
        nn += sum(1 for b, o in rp if nontrivial(b, o))
    from . import p_econf
    nmix = 150 if tier == "quick" else 3000
    accmix = p_econf.run_mixed(exe, random.Random(seed + 3), nmix, verdict, "C03")
    acc += accmix
    rc = verdict.finish()
    samples = [{"base": show(b), "override": show(o), "expected": showobs(e)} for (b, o), e in list(zip(pairs, expect))[1000:1003]]
    cov = {"states": mc.distinct, "transitions": mc.generated, "traces_validated_against_impl": len(pairs) + acc,
           "evaluations": len(pairs) + len(rp), "distinct_nontrivial": nn,
           "rule": "TLC: all pairs of duplicate-free entry lists of length <= %d over {group-less,A,B} x {x,y} (model-checked: %d pairs; exported and replayed through setters on newKeyFile/newIniFile/newKeyFile_with_options objects and parsed files: all %d pairs of length <= %d; %d pairs of length <= %d in which either side is a parsed file with header-only sections from {A,B} at varying positions; %d pairs of parsed files with value-less first keys: full extended dump of both inputs unchanged by the call; %d pairs of length <= %d in which entries of either side have no value - bare key, `k=`, empty text set) + %d random pairs of 0..30 entries (a quarter of them 20..120 entries per side) validated by Trace_Merge + %d mixed histories with merges of parsed and built objects validated against the root specification (Trace_Econf). non-trivial = shared key, an empty side, or a re-opened section." % (
               maxlen + 1, mc.distinct, len(pairs), maxlen, len(hpairs), maxlen - 1, nin, len(recs3), maxlen - 1, len(rp), nmix),
           "samples": samples, "exhaustive": True,
           "trusted_base": ["TLC 1.8.0", "gcc ASan/UBSan", "drv.c"]}
    core.write_evidence(pid, tier, seed, "model_checking", cov,
                        ["inputs in which one (section,key) occurs twice are outside the statement", "the setters build the entry order they are called in (C11)"],
                        time.time() - t0, len(verdict.violations))
    return rc


def replay(pid, path):
    with open(path) as f:
        rec = json.load(f)
    print(json.dumps(rec, indent=1)[:3000])
    exe = core.build("asan")
    c = rec["case"]
    v = core.Verdict(pid)
    if c.get("kind") == "merge-inputs":
        inputs_unchanged(exe, [(c["b"], c["o"])], v, pid)
        return v.finish()
    i = c.get("i", 0)
    # the position of the pair selects the object kinds and header positions
    run_pairs(exe, [(c["b"], c["o"], [tuple(g) for g in c.get("bh", [])], [tuple(g) for g in c.get("oh", [])])], v, i0=i)
    return v.finish()
