"""C15 — parsing options.
M  MC_Parser with Opt = join / nojoin / python: Parser (incl. the JOIN pass, PYTHON_STYLE continuation
   rules) = Meaning of the option-specific grammars;  MC_Options: fold over option items =
   "last occurrence wins", unknown item <=> ECONF_OPTION_NOT_FOUND.
F  exported files are read through econf_newKeyFile_with_options + econf_readConfig and compared
   (string values, extended value lists); exported option strings are given to
   econf_newKeyFile_with_options followed by a PROBE read on a tree in which every directory,
   postfix and root that is consulted leaves a marker key.
B  random files of the two grammars as prefix traces validated by Trace_Parser.tla."""
import json
import os
import random

from . import core
from .core import hx, codes, canon, ROOT
from . import p_parser
from .p_parser import export, file_bytes, obs_of_dump, proj, write_cfg, cfg_text


def opt_read_script(R, data, delim, comment, optstr, place=0):
    """place: where the one file of the tree sits - the options apply to it wherever the layered read finds it:
    0 the /etc main file; 1 the vendor main file while the /etc main file is a symbolic link to nowhere (found, cannot be opened,
    the scan goes on below it); 2 the /run main file; 3 the only drop-in of a tree without main file."""
    files = {0: ["file %s %s" % (hx(R + "/etc/p.conf"), hx(data))],
             1: ["file %s %s" % (hx(R + "/usr/lib/p.conf"), hx(data)), "symlink %s %s" % (hx(R + "/no/such/target"), hx(R + "/etc/p.conf"))],
             2: ["file %s %s" % (hx(R + "/run/p.conf"), hx(data))],
             3: ["file %s %s" % (hx(R + "/run/p.conf.d/only.conf"), hx(data))]}[place]
    return ["rm %s" % hx(R)] + files + [
            "newopt 1 %s" % hx((optstr + ";" if optstr else "") + "ROOT_PREFIX=" + R),
            "readconfig 1 - %s %s %s %s %s" % (hx("/usr/lib"), hx("p"), hx("conf"), hx(bytes(delim)), hx(bytes(comment))),
            "dumpx 1", "errloc", "free 1"]


def replay_opt_files(exe, recs, optstr, fields, verdict, tag, pid="C15"):
    cases = []
    for i, r in enumerate(recs):
        cases.append((i, opt_read_script(ROOT + "/o%d" % (i % 16), file_bytes(r["lines"]), r["delim"], r["comment"], optstr, place=(i // 3) % 4)))
    res = core.run_cases(exe, cases)
    ok = 0
    for i, r in enumerate(recs):
        out = res.get(i)
        text = file_bytes(r["lines"]).decode("latin-1")
        case = {"kind": "optfile", "opt": optstr, "delim": r["delim"], "comment": r["comment"], "lines": r["lines"], "text": text, "place": (i // 3) % 4}
        fp = "%s:%s:%s" % (pid, tag, "-".join(r["kinds"]))
        if out is None or out["crash"]:
            verdict.violation(fp + ":crash", dict(case, crash=(out or {}).get("crash")), "read with %r crashed on:\n%s\n%s" % (optstr, text, (out or {}).get("crash", "")[:600]))
            continue
        rd = next(e for e in out["ev"] if e["op"] == "readconfig")
        dm = next(e for e in out["ev"] if e["op"] == "dump")
        el = next(e for e in out["ev"] if e["op"] == "errloc")
        o = obs_of_dump(rd, dm, el)
        pe, po = proj(r["exp"], fields), proj(o, fields)
        if pe != po:
            verdict.violation(fp, dict(case, got=po, want=pe), "file read with option %r (delim %r):\n%s\nexpected %s\nlibrary  %s" % (
                optstr, core.uncodes(r["delim"]), text, canon(pe), canon(po)))
        else:
            ok += 1
    return ok


# ---------------- option strings ----------------
# unknown / misspelt items (Options.tla: name "BAD", arg = family): each family has several spellings, taken in turn - also names
# that merely START with a documented name, or carry blanks around it
BADNAMES = {1: ["FOO=1", "PYTHON_STYLES=1", "X", "ROOT_PREFIXES=/x"], 2: ["JOIN_SAME_ENTRY=1", "JOIN_SAME_ENTRIES_OFF=1", "JOIN_SAME_ENTRIES =1", "JOIN_SAME_ENTRIESX=0"],
            3: ["python_style=1", "PYTHON_STYLE_STRICT=0", " PYTHON_STYLE=1", "PYTHON_STYLE2=1"]}
POSTFIX = {0: ".conf.d", 1: ".d", 2: "/x.d"}
PROJECT = "verifprj7"


def item_text(it, R):
    n, a = it["name"], it["arg"]
    if n == "JOIN":
        return "JOIN_SAME_ENTRIES=%d" % a
    if n == "PYTHON":
        return "PYTHON_STYLE=%d" % a
    if n == "PDIRS":
        return "PARSING_DIRS=" + ":".join("%s/d%d" % (R, i) for i in a)
    if n == "CDIRS":
        return "CONFIG_DIRS=" + ":".join(POSTFIX[i] for i in a)
    if n == "ROOT":
        return "ROOT_PREFIX=%s/r%d" % (R, a)
    return BADNAMES[a][sum(map(ord, R)) % len(BADNAMES[a])]


MAIN = "J=1\nJ=2\nP=0\n x=1\n"


def probe_tree(R):
    s = ["rm %s" % hx(R)]
    dirs = {}
    for i in (1, 2, 3):
        dirs["d%d" % i] = "%s/d%d" % (R, i)
    for r in (1, 2):
        for j, sub in enumerate(("usr/lib", "run", "etc")):
            dirs["r%d_%d" % (r, j)] = "%s/r%d/%s/%s" % (R, r, sub, PROJECT)
    for did, d in dirs.items():
        s.append("file %s %s" % (hx(d + "/cfg.conf"), hx(MAIN)))
        for p, post in POSTFIX.items():
            s.append("file %s %s" % (hx("%s/cfg%s/m_%s_%d.conf" % (d, post, did, p)), hx("M_%s_%d=1\n" % (did, p))))
    return s


def check_option_strings(exe, tier, seed, verdict):
    maxitems = 3 if tier == "quick" else 4
    r, recs, total = export("MC_Options", {"MaxItems": maxitems, "Export": "TRUE"}, ["LastOccurrenceWins", "UnknownRefused"], seed=seed)
    if r.violated:
        verdict.violation("C15:options:model", {"tlc": r.out[-3000:]}, "TLC: option fold is not 'last occurrence wins'\n" + r.out[-1500:])
    if tier == "quick" and len(recs) > 3000:
        recs = random.Random(seed).sample(recs, 3000)
    cases = []
    for i, x in enumerate(recs):
        R = ROOT + "/p%d" % (i % 16)
        optstr = ";".join(item_text(it, R) for it in x["items"])
        s = probe_tree(R) + ["newopt 1 %s" % hx(optstr), "onerr_skip 2"]
        s += ["readconfig 1 %s %s %s %s x3d x23" % (hx(PROJECT), hx("/usr/lib"), hx("cfg"), hx("conf")), "dumpx 1", "free 1"]
        cases.append((i, s))
    res = core.run_cases(exe, cases)
    ok = 0
    nn = 0
    for i, x in enumerate(recs):
        out = res.get(i)
        names = [it["name"] for it in x["items"]]
        rep = "+".join(sorted(set(n for n in names if names.count(n) > 1))) or "norepeat"
        fp = "C15:options:%s" % ("unknown" if "BAD" in names else rep)
        optstr = ";".join(item_text(it, ROOT + "/p%d" % (i % 16)) for it in x["items"]).replace(ROOT + "/p%d" % (i % 16), "<R>")
        case = {"kind": "options", "items": x["items"], "string": optstr, "exp": {"rc": x["rc"], "probe": x["probe"]}}
        if len(x["items"]) >= 2 or ("BAD" in names and names[0] != "BAD"):
            nn += 1
        if out is None or out["crash"]:
            verdict.violation(fp + ":crash", dict(case, crash=(out or {}).get("crash")), "option string %r: crash\n%s" % (optstr, (out or {}).get("crash", "")[:700]))
            continue
        no = next(e for e in out["ev"] if e["op"] == "newopt")
        if no["rc"] != x["rc"]:
            verdict.violation(fp + ":rc", dict(case, got=no["rc"]), "econf_newKeyFile_with_options(%r) returned %s, expected %s" % (optstr, no["rc"], x["rc"]))
            continue
        if x["rc"] != "ECONF_SUCCESS":
            ok += 1
            continue
        rd = next(e for e in out["ev"] if e["op"] == "readconfig")
        dm = next(e for e in out["ev"] if e["op"] == "dump")
        pr = x["probe"]
        if pr["dirs"]["k"] == "explicit":
            dids = ["d%d" % i for i in pr["dirs"]["list"]]
        elif pr["dirs"]["list"][0] == 0:
            dids = []          # default directories of the real system: the probe project does not exist there
        else:
            dids = ["r%d_%d" % (pr["dirs"]["list"][0], j) for j in range(3)]
        want_markers = sorted("M_%s_%d" % (d, p) for d in dids for p in pr["posts"])
        if not dids:
            if rd["rc"] != "ECONF_NOFILE":
                verdict.violation(fp + ":probe", dict(case, got=rd["rc"]), "options %r: probe read without root/dirs returned %s (expected ECONF_NOFILE)" % (optstr, rd["rc"]))
            else:
                ok += 1
            continue
        if rd["rc"] != "ECONF_SUCCESS" or dm["st"] is None:
            verdict.violation(fp + ":probe", dict(case, got=rd["rc"]), "options %r: probe read returned %s" % (optstr, rd["rc"]))
            continue
        keys = {}
        for sec in dm["st"]["secs"]:
            for k in sec["keys"]:
                keys.setdefault(k["k"], k)
        got_markers = sorted(k for k in keys if k.startswith("M_"))
        jvals = [v for v in keys.get("J", {}).get("vals", []) if v != ""]
        pv = keys.get("P", {}).get("v")
        got = {"markers": got_markers, "join": jvals == ["1", "2"], "python": (pv == "0\nx=1" and "x" not in keys)}
        sane = (jvals in (["1"], ["1", "2"])) and ((pv == "0\nx=1" and "x" not in keys) or (pv == "0" and keys.get("x", {}).get("v") == "1"))
        want = {"markers": want_markers, "join": pr["join"], "python": pr["python"]}
        if got != want or not sane:
            verdict.violation(fp + ":effect", dict(case, got=got, want=want, J=jvals, P=pv),
                              "options %r: effect seen by the probe read %s, expected %s (J=%s P=%r)" % (optstr, got, want, jvals, pv))
        else:
            ok += 1
    return r, len(recs), ok, nn, total


def check_c15(exe, tier, seed, verdict):
    maxl = 3 if tier == "quick" else 4
    states = 0
    ncases = 0
    ok = 0
    nn = 0
    samples = []
    for opt, optstr, fields in (("join", "JOIN_SAME_ENTRIES=1", ("g", "k", "vals")), ("nojoin", "", ("g", "k", "vals")),
                                ("python", "PYTHON_STYLE=1", ("g", "k", "v"))):
        # (thorough: TLC checks the invariant on the whole universe of one more line; every 8th - join pools - resp. 3rd - python
        # pool - of its millions of files is replayed, which keeps the check within a few GB of memory)
        sample = (8 if opt != "python" else 3) if tier == "thorough" else (1 if opt != "python" else 2)
        r, recs, total = export("MC_Parser", {"MaxLines": maxl + (1 if opt != "python" else 0), "Export": "TRUE", "WithBad": "FALSE", "Opt": '"%s"' % opt},
                                ["ParseIsMeaning"], sample=sample, seed=seed)
        if r.violated:
            verdict.violation("C15:model:" + opt, {"tlc": r.out[-3000:]}, "TLC: Parser differs from Meaning under option %s\n%s" % (opt, r.out[-1500:]))
        states += r.distinct
        ncases += len(recs)
        ok += replay_opt_files(exe, recs, optstr, fields, verdict, opt)
        for x in recs:
            ents = x["exp"].get("ents", [])
            keys = [(tuple(e["g"]), tuple(e["k"])) for e in ents]
            if opt == "python":
                if any(k == "cont" for k in x["kinds"]) and any(d in l[1:] for l in x["lines"] for d in x["delim"] if l[:1] in ([32], [9])):
                    nn += 1
            elif len(set(keys)) < len(keys):
                nn += 1
        if recs:
            x = recs[len(recs) // 2]
            samples.append({"option": optstr, "file": file_bytes(x["lines"]).decode("latin-1"), "expected": x["exp"]})
    # few line shapes, more lines: a key defined again after its section was left and re-opened ([S] a=.. [T] .. [S] a=..)
    for opt, optstr in (("joinsections", "JOIN_SAME_ENTRIES=1"), ("nojoinsections", "")):
        r, recs, total = export("MC_Parser", {"MaxLines": 6 if tier == "quick" else 7, "Export": "TRUE", "WithBad": "FALSE", "Opt": '"%s"' % opt},
                                ["ParseIsMeaning"], sample=1 if opt == "joinsections" else 3, seed=seed)
        if r.violated:
            verdict.violation("C15:model:" + opt, {"tlc": r.out[-3000:]}, "TLC: Parser differs from Meaning under option %s\n%s" % (opt, r.out[-1500:]))
        states += r.distinct
        ncases += len(recs)
        ok += replay_opt_files(exe, recs, optstr, ("g", "k", "vals"), verdict, opt)
        nn += sum(1 for x in recs if x["kinds"].count("header") >= 3)
    ro, nopt, okopt, nnopt, totopt = check_option_strings(exe, tier, seed, verdict)
    # the options apply to EVERY file of a layered read: random trees of files of the option's grammar, read through an
    # option object, predicted by the root specification (Econf!ReadDirsResultOpt)
    from . import p_econf
    nmix = 150 if tier == "quick" else 3000
    okopt += p_econf.run_mixed(exe, random.Random(seed + 15), nmix, verdict, "C15")
    nopt += nmix
    states += ro.distinct
    nfiles = 200 if tier == "quick" else 4000
    files = p_parser.gen_random_files(seed + 15, nfiles, 12 if tier == "quick" else 30, opts=("join", "python"))
    acc = p_parser.validate_prefix_traces(exe, files, verdict, "C15", tag="o")
    cov = {"states": states, "transitions": states, "traces_validated_against_impl": ok + okopt + acc,
           "evaluations": ncases + nopt + sum(len(f["lines"]) for f in files), "distinct_nontrivial": nn + nnopt,
           "rule": "(the one file of each replayed case sits, in rotation, as the /etc main file, as the vendor main file below an /etc main file that is a symbolic link to nowhere, as the /run main file, as the only drop-in of a tree without main file: the options apply wherever the layered read finds it) JOIN grammar: all files of <= %d lines over the join pool (keys a/b defined repeatedly, empty definitions, continuation lines, re-opened sections; and all files of <= %d lines over {[S], [T], a=v, a=w, a=}: a key defined again after its section was left and re-opened) read WITH JOIN_SAME_ENTRIES=1 (value list = lines of all definitions since the last empty one) and WITHOUT it (first definition); PYTHON_STYLE: all files of <= %d lines over the python pool (indented lines containing delimiters, comment characters inside values); option strings: every sequence of <= %d items from JOIN_SAME_ENTRIES=0|1, PYTHON_STYLE=0|1, PARSING_DIRS (3 lists), CONFIG_DIRS (2 lists), ROOT_PREFIX (2 roots) and 3 unknown/misspelt names (%d strings, %d replayed) each followed by a probe read whose marker keys reveal the directories, postfixes and root consulted and the two parsing flags; %d random files of both grammars as prefix traces. non-trivial = key with >= 2 definitions / indented line containing a delimiter / option string with >= 2 items or an unknown item not in first position." % (
               maxl + 1, 6 if tier == "quick" else 7, maxl, 3 if tier == "quick" else 4, totopt, nopt, len(files)),
           "samples": samples[:3], "exhaustive": False,
           "replay_sampling": "thorough tier: TLC model-checks every file of the universes; every 8th file of the JOIN / no-JOIN universes and every 3rd of the PYTHON_STYLE universe is replayed against the library" if tier == "thorough" else "quick tier: every file of the JOIN / no-JOIN universes, every 2nd of the PYTHON_STYLE universe is replayed",
           "trusted_base": ["TLC 1.8.0", "gcc ASan/UBSan", "drv.c"]}
    return cov, p_parser.BASE_ASSUME + ["empty option items (';;', trailing ';') are outside the universe"], "model_checking"
