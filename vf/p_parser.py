"""C02 / C05 / C13 / C15 / C17 — the line parser against the Grammar/Parser specification.

M  TLC checks  Obs(ParseFile(Render(f))) = Meaning(f)  for every conventional file of the bounded
   universe (spec/MC_Parser.tla, MC_Comment.tla, MC_Options.tla).
F  the same run exports every file with its expected observation (computed by TLC from the
   declarative Meaning); the files are read by the real library and the observations compared.
B  random conventional files over the full printable alphabet are generated as ABSTRACT lines
   (gen/gram.py), read prefix by prefix by the real library, and the recorded per-line trace is
   validated by TLC against Trace_Parser.tla (PStep + MStep at every line).
"""
import json
import os
import random
import time

from . import core
from .core import hx, codes, canon


# --------------------------------------------------------------------------------------
# observation of an object dump in the shape of Parser!Obs
# --------------------------------------------------------------------------------------
def obs_of_dump(read_ev, dump_ev, errloc_ev=None):
    rc = read_ev["rc"]
    if rc != "ECONF_SUCCESS":
        o = {"rc": rc, "obj": read_ev.get("obj")}
        if errloc_ev:
            o["errline"] = errloc_ev["line"]
            o["errfile"] = errloc_ev["file"]
        return o
    st = dump_ev["st"]
    ents = []
    for sec in st["secs"]:
        g = sec["g"]
        for k in sec["keys"]:
            ca = k.get("ca")
            ents.append({
                "g": codes(g) if g is not None else [],
                "k": codes(k["k"]),
                "v": codes(k["v"]) if k["v"] is not None else [],
                "line": k["line"] if k.get("line") is not None else -1,
                "cb": [codes(k["cb"])] if k.get("cb") is not None else [],
                "ca": [codes(x) for x in ca.split("\n") if x != ""] if ca is not None else [],
                "vals": [codes(x) for x in (k.get("vals") or []) if x != ""],
                "file": k.get("file"),
            })
    return {"rc": rc, "groups": [codes(g) for g in st["groups"]], "ents": ents, "path": st["path"]}


def proj(o, fields, skip_values=False):
    """projection used for comparison: only what the property talks about."""
    if o["rc"] != "ECONF_SUCCESS":
        return {"rc": o["rc"], "errline": o.get("errline")}
    ents = []
    for e in o["ents"]:
        d = {f: e[f] for f in fields}
        if skip_values:
            d.pop("v", None)
            d.pop("vals", None)
        ents.append(d)
    return {"rc": o["rc"], "groups": o["groups"], "ents": ents}


def file_bytes(lines, final_newline=True):
    data = b"\n".join(bytes(l) for l in lines)
    if lines and final_newline:
        data += b"\n"
    return data


def read_script(path, data, delim, comment, opts=None, via="file"):
    """via (Parser.tla, entry points): the same line loop serves every entry point.
    file         econf_readFile(path)
    dirs-main    the file is the only (main) file of a layered read through econf_readDirs
    dirs-dropin  the file is the only drop-in (no main file) of a layered read through econf_readDirs"""
    d, c = hx(bytes(delim)), hx(bytes(comment))
    if via == "file":
        return ["file %s %s" % (hx(path), hx(data)), "readfile 1 %s %s %s" % (hx(path), d, c), "dumpx 1", "errloc", "free 1"]
    R = os.path.dirname(path)
    s = ["rm %s" % hx(R)]
    if via == "dirs-main":
        s.append("file %s %s" % (hx(R + "/etc/f.conf"), hx(data)))
    else:
        s.append("file %s %s" % (hx(R + "/etc/f.conf.d/f.conf"), hx(data)))
    s += ["readdirs 1 %s %s %s %s %s %s" % (hx(R + "/usr/etc"), hx(R + "/etc"), hx("f"), hx("conf"), d, c), "dumpx 1", "errloc", "free 1"]
    return s


def cfg_text(invariants, constants, constraint="ExportCase"):
    t = "SPECIFICATION Spec\nCHECK_DEADLOCK FALSE\n"
    for i in invariants:
        t += "INVARIANT %s\n" % i
    if constraint:
        t += "CONSTRAINT %s\n" % constraint
    t += "CONSTANTS\n"
    for k, v in constants.items():
        t += " %s = %s\n" % (k, v)
    return t


def write_cfg(text):
    import tempfile
    fd, p = tempfile.mkstemp(prefix="cfg-", suffix=".cfg", dir=core.scratch())
    with os.fdopen(fd, "w") as f:
        f.write(text)
    return p


def tla_bool(b):
    return "TRUE" if b else "FALSE"


# --------------------------------------------------------------------------------------
# forward replay of exported cases
# --------------------------------------------------------------------------------------
def replay_cases(exe, recs, fields, verdict, pid, nontrivial, fingerprint, want_err=False, framing="alt", vias=("file",)):
    """recs: exported TLC records (delim, comment, lines, exp, ...). Returns (n, n_nontrivial, samples).
    framing (Parser.tla FileBytes): the final newline of a file is optional and means nothing.
    "both": every file whose last line is not empty is read in both framings; "alt": every second one
    without the final newline."""
    root = core.ROOT + "/fs"
    cases = []
    runs = []
    for i, r in enumerate(recs):
        lastfull = bool(r["lines"]) and bool(r["lines"][-1])
        if framing == "both" or not lastfull:
            fr = [True, False] if lastfull else [True]
        else:
            fr = [i % 2 == 0]
        for fnl in fr:
            j = len(runs)
            path = "%s/c%d/f.conf" % (root, j % 64)
            via = vias[j % len(vias)]
            # Parser.tla EffComment: an empty comment set stands for "#"
            cgiven = [] if (len(vias) > 1 and r["comment"] == [35] and (j // len(vias)) % 2) else r["comment"]
            cases.append((j, read_script(path, file_bytes(r["lines"], fnl), r["delim"], cgiven, via=via)))
            runs.append((i, fnl, via, cgiven))
    res = core.run_cases(exe, cases)
    nn = 0
    samples = []
    seen = set()
    for j, (i, fnl, via, cgiven) in enumerate(runs):
        r = recs[i]
        out = res.get(j)
        key = canon([r["delim"], r["comment"], r["lines"], fnl])
        if key in seen:
            continue
        seen.add(key)
        nt = nontrivial(r) and (fnl or framing == "both")
        if nt and fnl:
            nn += 1
            if len(samples) < 3:
                samples.append({"delim": core.uncodes(r["delim"]), "comment": core.uncodes(r["comment"]),
                                "file": file_bytes(r["lines"]).decode("latin-1"), "expect": r["exp"]["rc"]})
        case = {"kind": "file", "delim": r["delim"], "comment": cgiven, "lines": r["lines"], "final_newline": fnl, "via": via,
                "text": file_bytes(r["lines"], fnl).decode("latin-1") + ("" if fnl else "<no final newline>"), "exp": r["exp"], "python": r.get("python", False)}
        if out is None or out["crash"]:
            verdict.violation(fingerprint(r, "crash"), dict(case, crash=(out or {}).get("crash")),
                              "library crashed / hung on a conventional file:\n%s\n%s" % (case["text"], (out or {}).get("crash", "")[:600]))
            continue
        ev = out["ev"]
        rd = next(e for e in ev if e["op"] in ("readfile", "readdirs"))
        dm = next(e for e in ev if e["op"] == "dump")
        el = next(e for e in ev if e["op"] == "errloc")
        o = obs_of_dump(rd, dm, el)
        none_class = (r["delim"] == [])
        exp = r["exp"]
        if exp["rc"] != "ECONF_SUCCESS":
            got = {"rc": o["rc"], "errline": o.get("errline"), "obj": o.get("obj"),
                   "errfile": os.path.basename(o.get("errfile") or "")}
            want = {"rc": exp["rc"], "errline": exp["errline"], "obj": False, "errfile": "f.conf"}
            if got != want:
                verdict.violation(fingerprint(r, "err"), dict(case, got=got, want=want),
                                  "malformed file: expected %s, library gave %s\n%s" % (want, got, case["text"]))
            continue
        pe = proj(exp, fields, none_class)
        po = proj(o, fields, none_class)
        if "cb" in fields:   # comment block compared only where it directly precedes the entry (C17)
            for j, (a, b) in enumerate(zip(pe.get("ents", []), po.get("ents", []))):
                if j < len(r.get("cbx", [])) and not r["cbx"][j]:
                    a["cb"] = b["cb"] = []
        if pe != po:
            verdict.violation(fingerprint(r, "diff"), dict(case, got=po, want=pe),
                              "file (delim %r comment %r%s):\n%s\nexpected %s\nlibrary  %s" % (
                                  core.uncodes(r["delim"]), core.uncodes(cgiven), "" if via == "file" else ", read through econf_readDirs as the only %s" % ("main file" if via == "dirs-main" else "drop-in"),
                                  case["text"], canon(pe), canon(po)))
            continue
        if "file" in fields or pid == "C17":
            bad = [e for e in o["ents"] if e.get("file") != o["path"] or not (o["path"] or "").endswith("/f.conf")]
            if bad:
                verdict.violation(fingerprint(r, "path"), dict(case, got=o), "extended value reports file %r, object path %r" % (bad[0].get("file"), o["path"]))
    return len(seen), nn, samples


def export(module, constants, invariants, timeout=3000, sample=1, seed=1):
    cfg = write_cfg(cfg_text(invariants, constants))
    r = core.tlc_ok(module, cfg, timeout=timeout)
    recs = []
    n = 0
    lines = [ln for ln in r.out.splitlines() if ln.startswith('"{')]
    lines.sort()                  # TLC's output order depends on worker scheduling: make sampling reproducible
    for ln in lines:
        n += 1
        if sample > 1 and (n + seed) % sample:
            continue
        recs.append(json.loads(json.loads(ln)))
    return r, recs, n


# --------------------------------------------------------------------------------------
# nontrivial rules (DESIGN.md section 10)
# --------------------------------------------------------------------------------------
def nt_c02(r):
    kinds = r["kinds"]
    if sum(1 for k in kinds if k in ("entry", "keyonly")) < 2:
        return False
    txt = file_bytes(r["lines"])
    ents = r["exp"].get("ents", [])
    rep = len({(tuple(e["g"]), tuple(e["k"])) for e in ents}) < len(ents)
    return rep or b'"' in txt or "cont" in kinds or any(bytes([c]) in txt for c in r["comment"]) or \
        any(len(l) > 2 and (l[0] in (32, 9) or 32 in l[1:-1] or 9 in l[1:-1]) for l in r["lines"])


def nt_c13(r):
    kinds = r["kinds"]
    return "bad" in kinds and kinds.index("bad") > 0


def nt_c17(r):
    return any(e["cb"] or e["ca"] or len(e["vals"]) >= 2 for e in r["exp"].get("ents", []))


def fp_parser(prefix):
    def fp(r, what):
        kinds = "-".join(r["kinds"])
        return "%s:%s:%s" % (prefix, what, kinds)
    return fp


# --------------------------------------------------------------------------------------
# backward: random abstract files, prefix traces, TLC validation
# --------------------------------------------------------------------------------------
def prefix_trace(exe, files, tag):
    """files: list of dict(par, abs=[abstract lines], lines=[codes]). Reads every prefix with the
    library and returns the ndjson events for Trace_Parser (reset + one event per physical line)."""
    root = core.ROOT + "/pfx"
    cases = []
    idx = []
    for fi, f in enumerate(files):
        for j in range(1, len(f["lines"]) + 1):
            cid = "%d.%d" % (fi, j)
            path = "%s/%s%d/p.conf" % (root, tag, (fi * 131 + j) % 64)
            s = ["file %s %s" % (hx(path), hx(file_bytes(f["lines"][:j])))]
            if f["par"].get("python") or f["par"].get("join"):
                opt = "PYTHON_STYLE=1" if f["par"].get("python") else "JOIN_SAME_ENTRIES=1"
                # single files with options go through readConfig on a one-layer tree
                d = os.path.dirname(path)
                s = ["rm %s" % hx(d), "file %s %s" % (hx(d + "/etc/p.conf"), hx(file_bytes(f["lines"][:j]))),
                     "newopt 1 %s" % hx("%s;ROOT_PREFIX=%s" % (opt, d)),
                     "readconfig 1 - - %s %s %s %s" % (hx("p"), hx("conf"), hx(bytes(f["par"]["delim"])), hx(bytes(f["par"]["comment"]))),
                     "dumpx 1", "errloc", "free 1"]
            else:
                s += ["readfile 1 %s %s %s" % (hx(path), hx(bytes(f["par"]["delim"])), hx(bytes(f["par"]["comment"]))),
                      "dumpx 1", "errloc", "free 1"]
            cases.append((cid, s))
            idx.append((fi, j))
    res = core.run_cases(exe, cases)
    events = []
    crashes = []
    for fi, f in enumerate(files):
        p = f["par"]
        events.append({"e": "reset", "delim": p["delim"], "comment": p["comment"],
                       "python": bool(p.get("python")), "join": bool(p.get("join"))})
        for j in range(1, len(f["lines"]) + 1):
            out = res.get("%d.%d" % (fi, j))
            if out is None or out["crash"]:
                crashes.append((fi, j, (out or {}).get("crash")))
                events.append({"e": "crash", "file": fi, "line": j})
                break
            ev = out["ev"]
            rd = next(e for e in ev if e["op"] in ("readfile", "readconfig"))
            dm = next(e for e in ev if e["op"] == "dump")
            el = next(e for e in ev if e["op"] == "errloc")
            o = obs_of_dump(rd, dm, el)
            if o["rc"] == "ECONF_SUCCESS":
                obs = {"rc": o["rc"], "groups": o["groups"],
                       "ents": [{k: e[k] for k in ("g", "k", "v", "line", "cb", "ca", "vals")} for e in o["ents"]]}
            else:
                obs = {"rc": o["rc"], "errline": o.get("errline")}
            events.append({"e": "line", "abs": f["abs"][j - 1], "raw": f["lines"][j - 1], "obs": obs})
    return events, crashes


def validate_prefix_traces(exe, files, verdict, pid, tag="t"):
    """Returns number of files whose whole prefix trace was accepted by Trace_Parser."""
    events, crashes = prefix_trace(exe, files, tag)
    for fi, j, crash in crashes:
        f = files[fi]
        verdict.violation("%s:trace:crash" % pid, {"kind": "prefix", "par": f["par"], "lines": f["lines"][:j], "crash": crash},
                          "library crashed on a prefix of a random conventional file:\n%s\n%s" % (
                              file_bytes(f["lines"][:j]).decode("latin-1"), (crash or "")[:800]))
    ok, r, path = core.validate_trace("Trace_Parser", os.path.join(core.SPEC, "Trace_Parser.cfg"), events)
    recs = r.json_lines()
    gen = [x for x in recs if "genbug" in x]
    if gen:
        ev = events[gen[0]["genbug"] - 1]
        raise core.ToolFailure("generator/specification inconsistency (not a verdict about the library) at event %d: %s"
                               % (gen[0]["genbug"], json.dumps(ev)[:1500]))
    mism = [x for x in recs if "mismatch" in x]
    if not ok and not mism:
        raise core.ToolFailure("Trace_Parser did not consume the trace and reported no mismatch:\n" + r.out[-2500:])
    # map event index -> file
    starts = [i for i, e in enumerate(events) if e["e"] == "reset"]
    import bisect
    badfiles = set(fi for fi, _, _ in crashes)
    for x in mism:
        i = x["mismatch"] - 1
        fi = bisect.bisect_right(starts, i) - 1
        if fi in badfiles:
            continue
        badfiles.add(fi)
        f = files[fi]
        ev = events[i]
        lineno = i - starts[fi]
        verdict.violation("%s:trace:%s" % (pid, ev.get("abs", {}).get("t", "?")),
                          {"kind": "prefix", "par": f["par"], "lines": f["lines"][:lineno], "abs": f["abs"][:lineno],
                           "observed": ev.get("obs"), "spec": x.get("spec")},
                          "real parser diverges from Trace_Parser at line %d (%s) of (delim %r comment %r):\n%s\nobserved: %s\nspec    : %s" % (
                              lineno, ev.get("abs", {}).get("t"), core.uncodes(f["par"]["delim"]), core.uncodes(f["par"]["comment"]),
                              file_bytes(f["lines"][:lineno]).decode("latin-1"),
                              canon(ev.get("obs")), canon(x.get("spec"))))
    return len(files) - len(badfiles)


# --------------------------------------------------------------------------------------
# property checks
# --------------------------------------------------------------------------------------
def check(pid, tier, seed):
    t0 = time.time()
    exe = core.build("asan")
    verdict = core.Verdict(pid)
    fn = {"C02": check_c02, "C13": check_c13, "C17": check_c17, "C05": check_c05, "C15": check_c15}[pid]
    cov, assumptions, level = fn(exe, tier, seed, verdict)
    rc = verdict.finish()
    core.write_evidence(pid, tier, seed, level, cov, assumptions, time.time() - t0, len(verdict.violations))
    return rc


BASE_ASSUME = ["TLC explores the bounded universe exhaustively (fingerprint collision probability as reported)",
               "the driver materialises files byte for byte and observes only through the public API",
               "AddressSanitizer/UBSan (gcc) abort the driver on memory errors"]


def gen_random_files(seed, n, maxlines, opts=("none",), bad_rate=0.0):
    from gen import gram
    rnd = random.Random(seed)
    files = []
    for _ in range(n):
        files.append(gram.random_file(rnd, maxlines, rnd.choice(opts), bad_rate))
    return files


def crlf_files(seed, n, maxlines):
    """random conventional files whose lines end in CR LF: the carriage return is one more trailing blank of every line
    (Grammar!TrailOk / PrintableCr) - of the value, the section header, the comment text the line ends in"""
    from gen import gram
    rnd = random.Random(seed + 77)
    files = []
    while len(files) < n:
        f = gram.random_file(rnd, rnd.randint(1, maxlines), rnd.choice(["none", "none", "python", "join"]), 0.0)
        # (continuation lines under blank delimiters have no trailing blanks at all in the conventional grammar)
        if gram.dclass("".join(chr(c) for c in f["par"]["delim"])) == "BLANK" and any(a["t"] == "cont" for a in f["abs"]):
            continue
        mixed = rnd.random() < 0.25       # one file in four: only some of the lines
        for a in f["abs"]:
            if mixed and rnd.random() < 0.5:
                continue
            t = a["t"]
            if t == "blank":
                a["ind"] = a["ind"] + [13]
            elif t == "comment" or (t in ("entry", "cont") and a["tcc"]):
                a["tct"] = a["tct"] + [13]
            else:
                a["tw"] = a["tw"] + [13]
        f["lines"] = [gram.cds(gram.render(l)) for l in f["abs"]]
        files.append(f)
    return files


def long_line_files(n):
    """conventional files with ONE long field (value of an entry, continuation line, comment line) of n bytes: "L" + filler + "R" """
    from gen import gram
    files = []
    for D in ("=", " "):
        body = "L" + "x" * (n - 2) + "R"
        sep = D
        for abs_ in ([gram.line("entry", key="k", sep=sep, val="v"), gram.line("cont", ind=" ", val=body), gram.line("entry", key="z", sep=sep, val="1")],
                     [gram.line("entry", key="k", sep=sep, val=body), gram.line("cont", ind="\t", val="w"), gram.line("entry", key="z", sep=sep, val="1")],
                     [gram.line("comment", tcc="#", tct=body), gram.line("entry", key="k", sep=sep, val="v"), gram.line("cont", ind="  ", val=body)]):
            files.append({"par": {"delim": gram.cds(D), "comment": gram.cds("#"), "python": False, "join": False}, "abs": abs_,
                          "lines": [gram.cds(gram.render(l)) for l in abs_]})
    return files


def check_long_lines(exe, verdict, pid="C02"):
    """Length is not part of the grammar: a file with one field of 8190 / 8192 / 9000 / 70000 bytes must be observed exactly like its
    short twin (field of 5 bytes, validated line by line by Trace_Parser with the random files) with the filler stretched.
    (TLC on 9000-element sequences takes minutes per file; the expectation for the long file is the TLC-validated observation of
    the twin under the substitution, which Parser.tla cannot tell apart: it never looks at ordinary characters.)"""
    twins = long_line_files(5)
    n_ok = 0
    for n in (8190, 8192, 9000, 70000):
        longs = long_line_files(n)
        cases = []
        for i, f in enumerate(twins + longs):
            cases.append((i, read_script(core.ROOT + "/ll%d/f.conf" % (i % 16), file_bytes(f["lines"]), f["par"]["delim"], f["par"]["comment"])))
        res = core.run_cases(exe, cases, per_case_timeout=60)
        obs = []
        for i in range(len(cases)):
            out = res.get(i)
            if out is None or out["crash"]:
                verdict.violation("%s:longline:crash" % pid, {"kind": "longline", "len": n, "crash": (out or {}).get("crash")}, "file with a %d-byte field crashed the library\n%s" % (n, (out or {}).get("crash", "")[:600]))
                obs.append(None)
                continue
            ev = out["ev"]
            o = obs_of_dump(next(e for e in ev if e["op"] == "readfile"), next(e for e in ev if e["op"] == "dump"), next(e for e in ev if e["op"] == "errloc"))
            obs.append(proj(o, ("g", "k", "v", "line", "vals")) if o["rc"] == "ECONF_SUCCESS" else o)
        filler_s, filler_l = [120] * 3, [120] * (n - 2)

        def stretch(x):
            if isinstance(x, list) and x and all(isinstance(c, int) for c in x):
                t = bytes(x)
                return list(t.replace(b"L" + bytes(filler_s) + b"R", b"L" + bytes(filler_l) + b"R"))
            if isinstance(x, list):
                return [stretch(y) for y in x]
            if isinstance(x, dict):
                return {k: stretch(v) for k, v in x.items()}
            return x
        for k in range(len(twins)):
            a, b = obs[k], obs[len(twins) + k]
            if a is None or b is None:
                continue
            if stretch(a) != b:
                verdict.violation("%s:longline:%d" % (pid, k % 3), {"kind": "longline", "len": n, "shape": k % 3, "delim": twins[k]["par"]["delim"]},
                                  "a field of %d bytes is not read like the same field of 5 bytes (shape %s, delimiter %r): lengths of the values %s vs expected %s" % (
                                      n, ["continuation line", "entry value", "comment + continuation"][k % 3], core.uncodes(twins[k]["par"]["delim"]),
                                      [len(e["v"]) for e in b.get("ents", [])] if isinstance(b, dict) else b, [len(e["v"]) for e in stretch(a).get("ents", [])]))
            else:
                n_ok += 1
    return twins, n_ok


def check_c02(exe, tier, seed, verdict):
    maxl = 3
    sample = 6 if tier == "quick" else 1
    r, recs, total = export("MC_Parser", {"MaxLines": maxl, "Export": "TRUE", "WithBad": "FALSE", "Opt": '"none"'},
                            ["ParseIsMeaning", "Framing"], sample=sample, seed=seed)
    if r.violated:
        verdict.violation("C02:model", {"tlc": r.out[-3000:]}, "TLC: Parser does not yield Meaning on the bounded universe\n" + r.out[-1500:])
    n, nn, samples = replay_cases(exe, recs, ("g", "k", "v"), verdict, "C02", nt_c02, fp_parser("C02"), framing="both")
    # few line shapes, many lines: sections that re-open after other sections, keys below the repeated header
    rs, recs_s, total_s = export("MC_Parser", {"MaxLines": 6 if tier == "quick" else 7, "Export": "TRUE", "WithBad": "FALSE", "Opt": '"sections"'},
                                 ["ParseIsMeaning"], sample=1, seed=seed)
    if rs.violated:
        verdict.violation("C02:model", {"tlc": rs.out[-3000:]}, "TLC: Parser does not yield Meaning on the sections universe\n" + rs.out[-1500:])
    n2, nn2, _ = replay_cases(exe, recs_s, ("g", "k", "v"), verdict, "C02", lambda r: r["kinds"].count("header") >= 3, fp_parser("C02s"))
    n += n2
    nn += nn2
    total += total_s
    nfiles = 300 if tier == "quick" else 6000
    twins, nlong = check_long_lines(exe, verdict, "C02")
    ncrlf = 150 if tier == "quick" else 3000
    files = gen_random_files(seed, nfiles, 14 if tier == "quick" else 40) + twins + crlf_files(seed, ncrlf, 12 if tier == "quick" else 30)
    acc = validate_prefix_traces(exe, files, verdict, "C02") + nlong
    # section and key names that coincide with texts the library uses internally are names like any other
    acc += check_marker_names(exe, verdict)
    # what a parsed file means is what the getters answer: random files read and then asked through every getter form (plain and
    # bracketed section names, names that are prefixes of each other, typed getters, listings, the extended getter), validated
    # against the root specification
    from . import p_econf
    nmix = 200 if tier == "quick" else 4000
    acc += p_econf.run_mixed(exe, random.Random(seed + 21), nmix, verdict, "C02", nops=(10, 40))
    cov = {"states": r.distinct, "transitions": r.generated, "traces_validated_against_impl": n + acc,
           "evaluations": n + sum(len(f["lines"]) for f in files), "distinct_nontrivial": nn,
           "rule": "TLC enumerates all conventional files of <= %d lines over the line pool of MC_Parser.tla x 7 delimiter sets x 3 comment sets (%d files; every %d-th replayed in this tier); non-trivial = >= 2 entries and a quoted value / trailing comment / continuation / blanks around the delimiter / repeated key. Plus %d random conventional files (full printable alphabet) read prefix by prefix and validated line by line by Trace_Parser (6 of them twins of files with one field - entry value, continuation line, comment line - of 8190 / 8192 / 9000 / 70000 bytes, which must be observed like the twin with the filler stretched; %d of them with CR LF line ends - the carriage return is one more trailing blank of the line). Plus %d API histories that read random files and ask through every getter form (plain / bracketed section names, names that are prefixes of each other, typed getters, listings, extended getter), validated by Trace_Econf." % (maxl, total, sample, len(files), ncrlf, nmix),
           "samples": samples, "exhaustive": sample == 1,
           "model_universe_files": total, "replayed_files": n, "random_prefix_files_accepted": acc,
           "trusted_base": ["TLC 1.8.0", "gcc ASan/UBSan", "drv.c (public API only)"]}
    return cov, BASE_ASSUME, "model_checking"


def check_marker_names(exe, verdict):
    """conventional files whose section / key / value is a text the library uses internally (`_none_` marks "no section" and "no
    value", `(null)` is what a formatting function prints for a missing string): Grammar!Meaning knows no special names"""
    ok = 0
    for nm, text, want in (
            ("section-named-like-the-no-section-marker", "a=0\n[_none_]\nk=1\n[S]\nj=2\n", (["_none_", "S"], [("", "a", "0"), ("_none_", "k", "1"), ("S", "j", "2")])),
            ("key-named-like-the-marker", "_none_=1\n[S]\n_none_=2\n", (["S"], [("", "_none_", "1"), ("S", "_none_", "2")])),
            ("section-named-null", "[(null)]\nk=1\n[NULL]\nk=2\n", (["(null)", "NULL"], [("(null)", "k", "1"), ("NULL", "k", "2")]))):
        p = core.ROOT + "/marker/%s.conf" % nm
        out = core.run_cases(exe, [(nm, ["file %s %s" % (hx(p), hx(text)), "readfile 1 %s x3d x23" % hx(p), "dump 1", "free 1"])], jobs=1)[nm]
        case = {"kind": "file", "lines": [codes(l) for l in text.splitlines()], "delim": [61], "comment": [35], "text": text}
        if out["crash"]:
            verdict.violation("C02:%s:crash" % nm, dict(case, crash=out["crash"]), "reading crashed on\n%s" % text)
            continue
        st = [e for e in out["ev"] if e["op"] == "dump"][0].get("st") or {}
        got = (st.get("groups"), [(sec["g"] or "", k["k"], k["v"]) for sec in st.get("secs", []) for k in sec["keys"]])
        if got != want:
            verdict.violation("C02:%s" % nm, dict(case, got=got, want=want), "file\n%s\nsections and entries expected %s\nlibrary delivers %s" % (text, want, got))
        else:
            ok += 1
    return ok


def check_c13(exe, tier, seed, verdict):
    maxl = 3
    sample = 3 if tier == "quick" else 1
    r, recs, total = export("MC_Parser", {"MaxLines": maxl, "Export": "TRUE", "WithBad": "TRUE", "Opt": '"none"'},
                            ["ParseIsMeaning"], sample=sample, seed=seed)
    if r.violated:
        verdict.violation("C13:model", {"tlc": r.out[-3000:]}, "TLC: Parser error code/line differs from Meaning\n" + r.out[-1500:])
    n, nn, samples = replay_cases(exe, recs, ("g", "k", "v"), verdict, "C13", nt_c13, fp_parser("C13"), vias=("file", "dirs-main", "dirs-dropin"))
    # the same under PYTHON_STYLE=1 (read through an option object): an indented line directly below an entry continues its
    # value whatever it holds; everywhere else a malformed header is a malformed header
    from . import p_options
    rp, recsp, totalp = export("MC_Parser", {"MaxLines": maxl, "Export": "TRUE", "WithBad": "TRUE", "Opt": '"python"'},
                               ["ParseIsMeaning"], sample=sample, seed=seed)
    if rp.violated:
        verdict.violation("C13:model:python", {"tlc": rp.out[-3000:]}, "TLC: Parser error code/line differs from Meaning under PYTHON_STYLE\n" + rp.out[-1500:])
    n += p_options.replay_opt_files(exe, recsp, "PYTHON_STYLE=1", ("g", "k", "v"), verdict, "C13-python", pid="C13")
    nn += sum(1 for x in recsp if nt_c13(x))
    from . import p_layers
    extra = p_layers.c13_tree_cases(exe, tier, seed, verdict)
    es = check_errstrings(exe, verdict)
    from . import p_econf
    nmix = 150 if tier == "quick" else 3000
    extra["n"] += p_econf.run_mixed(exe, random.Random(seed + 13), nmix, verdict, "C13")      # error location after failed single / layered reads of random files
    files = gen_random_files(seed + 7, 200 if tier == "quick" else 3000, 12 if tier == "quick" else 30, bad_rate=1.0)
    acc = validate_prefix_traces(exe, files, verdict, "C13")
    cov = {"states": r.distinct, "transitions": r.generated, "traces_validated_against_impl": n + acc + extra["n"],
           "evaluations": n + extra["n"] + es + sum(len(f["lines"]) for f in files), "distinct_nontrivial": nn + extra["nontrivial"],
           "rule": "all conventional files of <= %d lines (pool of MC_Parser.tla) with exactly one malformed line (missing bracket, text after bracket, empty name, key text without delimiter where it cannot continue a value) at every position, and the same pool under PYTHON_STYLE=1 read through an option object; compared: code by name, econf_errLocation file+line, NULL out-pointer. The same malformed files as main / k-th drop-in of layered reads (%d tree cases; merged-result and history entry points: code, location, nothing handed back). A file missing in every way (no such name, missing directory, a path component that is a plain file, name / path too long, link to nowhere) gives ECONF_NOFILE from both single-file entry points, and a layer that is a plain file is skipped by econf_readConfig / econf_readDirs while a malformed drop-in of another layer keeps its code, path and line. econf_errString for codes 0..24 and out-of-range against distinguishing words. %d random files with an injected malformed line as prefix traces. non-trivial = malformed line not first / file not the first consulted." % (maxl, extra["n"], len(files)),
           "samples": samples + extra["samples"][:1], "exhaustive": sample == 1, "errstring_codes_checked": es,
           "trusted_base": ["TLC 1.8.0", "gcc ASan/UBSan", "drv.c"]}
    return cov, BASE_ASSUME, "model_checking"


ERRWORDS = {
    0: ["success"], 1: ["unknown", "error"], 2: ["memory"], 3: ["not found", "file"], 4: ["group"], 5: ["key", "not found"],
    6: ["key", "empty"], 7: ["writ"], 8: ["parse"], 9: ["bracket"], 10: ["delimiter"], 11: ["empty", "section"],
    12: ["after section"], 13: ["list", "null"], 14: ["boolean"], 15: ["null value"], 16: ["owner"], 17: ["group"],
    18: ["file permission"], 19: ["dir permission"], 20: ["sym"], 21: ["callback"], 22: ["argument", "null"],
    23: ["option"], 24: ["convert"],
}


def check_errstrings(exe, verdict):
    """every code maps to its documented message: the message of code c contains the distinguishing
    words of c and is different from the message of every other code (a shifted or swapped table
    is caught, a reworded message is not)."""
    s = ["errstring %d" % c for c in list(range(0, 25)) + [25, 99, 1000]]
    res = core.run_cases(exe, [("es", s)], jobs=1)["es"]
    if res["crash"]:
        verdict.violation("C13:errstring:crash", {"crash": res["crash"]}, "econf_errString crashed")
        return 0
    msgs = {e["code"]: e["msg"] for e in res["ev"] if e["op"] == "errstring"}
    for c, words in ERRWORDS.items():
        m = (msgs.get(c) or "").lower()
        if not all(w in m for w in words):
            verdict.violation("C13:errstring:%d" % c, {"code": c, "msg": msgs.get(c), "words": words},
                              "econf_errString(%d) = %r lacks the distinguishing words %r of its documentation" % (c, msgs.get(c), words))
    texts = [msgs[c] for c in range(25) if c in msgs]
    if len(set(texts)) != len(texts):
        verdict.violation("C13:errstring:dup", {"msgs": msgs}, "two error codes share one message")
    for c in (25, 99, 1000):
        if not msgs.get(c) or msgs[c] in texts:
            verdict.violation("C13:errstring:range", {"code": c, "msg": msgs.get(c)}, "out-of-range code %d answered with %r" % (c, msgs.get(c)))
    return len(msgs)


def check_c17(exe, tier, seed, verdict):
    maxl = 3
    sample = 6 if tier == "quick" else 1
    r, recs, total = export("MC_Parser", {"MaxLines": maxl, "Export": "TRUE", "WithBad": "FALSE", "Opt": '"none"'},
                            ["ParseIsMeaning"], sample=sample, seed=seed + 3)
    if r.violated:
        verdict.violation("C17:model", {"tlc": r.out[-3000:]}, "TLC: Parser metadata differs from Meaning\n" + r.out[-1500:])
    recs = [x for x in recs if x["delim"] != []]
    n, nn, samples = replay_cases(exe, recs, ("g", "k", "v", "line", "cb", "ca", "vals"), verdict, "C17", nt_c17, fp_parser("C17"))
    np_ = check_paths(exe, verdict, seed)
    from . import p_layers
    nmp, nmpc = p_layers.check_merged_paths(exe, tier, seed, verdict)
    np_ += nmp
    files = gen_random_files(seed + 17, 300 if tier == "quick" else 5000, 14 if tier == "quick" else 40)
    acc = validate_prefix_traces(exe, files, verdict, "C17")
    # the extended getter inside mixed API histories (random files read singly and in layers, keys set afterwards): predicted by
    # the root specification (Econf!ExtOf) for every entry that stems from a parsed file
    from . import p_econf
    nmix = 150 if tier == "quick" else 3000
    acc += p_econf.run_mixed(exe, random.Random(seed + 71), nmix, verdict, "C17")
    cov = {"states": r.distinct, "transitions": r.generated, "traces_validated_against_impl": n + acc,
           "evaluations": n + np_ + sum(len(f["lines"]) for f in files), "distinct_nontrivial": nn,
           "rule": "same bounded universe as C02 (%d files, every %d-th replayed) with the comparison extended to line number, comment block directly preceding the entry, trailing comments (non-empty items), value lines and reported file path; path scenarios (absolute, relative, merged, layered with 1 / >= 2 files; TLC-exported 3- and 2-layer trees read through econf_readConfig / econf_readDirs: a result merged from >= 2 consulted files has the empty path, also when the drop-ins hold only comments): %d; random prefix traces: %d files. non-trivial = an entry with a comment block, a trailing comment or >= 2 value lines." % (total, sample, np_, len(files)),
           "samples": samples, "exhaustive": sample == 1,
           "trusted_base": ["TLC 1.8.0", "gcc ASan/UBSan", "drv.c"]}
    return cov, BASE_ASSUME, "model_checking"


def check_paths(exe, verdict, seed):
    """econf_getPath: absolute path for a single file (also for a relative name), "" for a merged result."""
    root = core.ROOT + "/paths"
    s = ["mkdir %s" % hx(root + "/sub"), "file %s %s" % (hx(root + "/sub/a.conf"), hx("k=1\n")), "file %s %s" % (hx(root + "/b.conf"), hx("j=2\n")),
         "chdir %s" % hx(root),
         "readfile 1 %s x3d x23" % hx(root + "/sub/a.conf"), "path 1", "ext 1 - %s" % hx("k"),
         "readfile 2 %s x3d x23" % hx("sub/a.conf"), "path 2", "ext 2 - %s" % hx("k"),
         "readfile 3 %s x3d x23" % hx("./b.conf"), "path 3",
         "chdir %s" % hx(root + "/sub"),
         "readfile 4 %s x3d x23" % hx("../b.conf"), "path 4",
         "merge 5 1 3", "path 5",
         "newkf 6 x3d x23", "path 6",
         # layered: one file only / two files
         "file %s %s" % (hx(root + "/t1/etc/p.conf"), hx("k=1\n")),
         "readdirs 7 %s %s %s %s x3d x23" % (hx(root + "/t1/usr"), hx(root + "/t1/etc"), hx("p"), hx("conf")), "path 7",
         "file %s %s" % (hx(root + "/t1/etc/p.conf.d/x.conf"), hx("j=1\n")),
         "readdirs 8 %s %s %s %s x3d x23" % (hx(root + "/t1/usr"), hx(root + "/t1/etc"), hx("p"), hx("conf")), "path 8",
         "chdir /"] + ["free %d" % i for i in range(1, 9)]
    # relative names with several components: `.`, `..`, a symbolic link to a directory, a symbolic link to the file
    rel = ["sub/../sub/a.conf", "sub/./a.conf", "./sub/../b.conf", "lnk/a.conf", "sub/deep/../../lnk/a.conf", "sub/la.conf", "lnk/../b.conf", "sub//a.conf"]
    s += ["mkdir %s" % hx(root + "/sub/deep"), "symlink %s %s" % (hx("sub"), hx(root + "/lnk")), "symlink %s %s" % (hx("a.conf"), hx(root + "/sub/la.conf")), "chdir %s" % hx(root)]
    for n, nm in enumerate(rel):
        s += ["readfile %d %s x3d x23" % (10 + n, hx(nm)), "path %d" % (10 + n), "ext %d - %s" % (10 + n, hx("k" if nm.endswith("a.conf") else "j")), "free %d" % (10 + n)]
    # plain names (no directory part) from changing working directories: the answer belongs to the directory the process stands
    # in at the time of the call
    plain = [(root, "b.conf", "j"), (root + "/sub", "a.conf", "k"), (root, "b.conf", "j"), (root + "/sub/deep", "c.conf", "m"), (root + "/sub", "la.conf", "k")]
    s.append("file %s %s" % (hx(root + "/sub/deep/c.conf"), hx("# c\n\nm=3\n")))
    for n, (cwd, nm, key) in enumerate(plain):
        s += ["chdir %s" % hx(cwd), "readfile %d %s x3d x23" % (30 + n, hx(nm)), "path %d" % (30 + n), "ext %d - %s" % (30 + n, hx(key)), "free %d" % (30 + n)]
    s.append("chdir /")
    out = core.run_cases(exe, [("paths", s)], jobs=1)["paths"]
    if out["crash"]:
        verdict.violation("C17:path:crash", {"script": s, "crash": out["crash"]}, "path scenario crashed:\n" + out["crash"][:800])
        return 0
    paths = {e["h"]: e["out"] for e in out["ev"] if e["op"] == "path"}
    exts = {e["h"]: e.get("file") for e in out["ev"] if e["op"] == "ext"}
    root = out["root"] + "/paths"
    want = {1: root + "/sub/a.conf", 2: root + "/sub/a.conf", 3: root + "/b.conf", 4: root + "/b.conf", 5: "", 6: "", 8: ""}
    real = os.path.realpath(root)
    for h, w in want.items():
        g = paths.get(h)
        alt = w.replace(root, real) if w else w
        if g not in (w, alt):
            verdict.violation("C17:path:%d" % h, {"script": s, "h": h, "got": g, "want": w},
                              "econf_getPath scenario %d: got %r, expected %r" % (h, g, w))
    for h in (1, 2):
        if exts.get(h) not in (want[h], want[h].replace(root, real)):
            verdict.violation("C17:extfile:%d" % h, {"script": s, "got": exts.get(h)}, "extended value file %r, expected %r" % (exts.get(h), want[h]))
    # (the property asks for AN absolute path of the file, not for a canonical one: absolute, and naming the file that was read)
    for n, nm in enumerate(rel):
        for what, g in (("econf_getPath", paths.get(10 + n)), ("extended value file", exts.get(10 + n))):
            good = isinstance(g, str) and g.startswith("/")
            try:
                good = good and os.path.samefile(g, os.path.join(root, nm))
            except OSError:
                good = False
            if not good:
                verdict.violation("C17:path:relative", {"script": s, "name": nm, "got": g}, "%s for the relative name %r: %r is not an absolute path of that file" % (what, nm, g))
    lines = {e["h"]: e.get("line") for e in out["ev"] if e["op"] == "ext"}
    for n, (cwd, nm, key) in enumerate(plain):
        for what, g in (("econf_getPath", paths.get(30 + n)), ("extended value file", exts.get(30 + n))):
            good = isinstance(g, str) and g.startswith("/")
            try:
                good = good and os.path.samefile(g, os.path.join(cwd.replace(core.ROOT + "/paths", root), nm))
            except OSError:
                good = False
            if not good:
                verdict.violation("C17:path:plain-name", {"script": s, "cwd": cwd, "name": nm, "got": g}, "%s for the plain name %r read from %s: %r is not an absolute path of that file" % (what, nm, cwd.replace(core.ROOT, ""), g))
        if lines.get(30 + n) != {"j": 1, "k": 1, "m": 3}[key]:
            verdict.violation("C17:path:plain-name:line", {"script": s, "cwd": cwd, "name": nm, "got": lines.get(30 + n)}, "line number of key %s in %s read by its plain name: %r" % (key, nm, lines.get(30 + n)))
    return len(want) + len(rel) + len(plain)


# ----- C05: comment lines are inert -----
def nt_c05(r):
    return bool(r.get("nontrivial"))


def check_c05(exe, tier, seed, verdict):
    sample = 1
    r, recs, total = export("MC_Comment", {"MaxLines": 3 if tier == "thorough" else 2, "MaxIns": 2, "Export": "TRUE",
                                           "ExportMaxIns": 1, "Opt": '"none"'},
                            ["CommentInert"], sample=sample, seed=seed)
    if r.violated:
        verdict.violation("C05:model", {"tlc": r.out[-3000:]}, "TLC: inserting a comment line changes the parse in the model\n" + r.out[-1500:])

    def fp(rec, what):
        ins = rec.get("ins", [])
        feat = sorted({x for i in ins for x in i.get("feat", [])})
        return "C05:%s:%s" % (what, "+".join(feat))
    n, nn, samples = replay_cases(exe, recs, ("g", "k", "v"), verdict, "C05", nt_c05, fp, vias=("file", "dirs-main", "dirs-dropin"))
    # the same under the parsing options: a comment line is inert under PYTHON_STYLE (indented comment lines after an
    # entry in particular) and JOIN_SAME_ENTRIES as well
    from . import p_options
    for opt, optstr, fields in (("python", "PYTHON_STYLE=1", ("g", "k", "v")), ("join", "JOIN_SAME_ENTRIES=1", ("g", "k", "vals"))):
        ro, recso, totalo = export("MC_Comment", {"MaxLines": 2, "MaxIns": 2 if tier == "thorough" else 1, "Export": "TRUE", "ExportMaxIns": 1, "Opt": '"%s"' % opt},
                                   ["CommentInert"], sample=1, seed=seed)
        if ro.violated:
            verdict.violation("C05:model:" + opt, {"tlc": ro.out[-3000:]}, "TLC: inserted comment line changes the parse under %s\n%s" % (opt, ro.out[-1500:]))
        n += p_options.replay_opt_files(exe, recso, optstr, fields, verdict, "C05-" + opt, pid="C05")
        nn += sum(1 for x in recso if x.get("nontrivial"))
        total += totalo
    # random tier: conventional single-line-value files with comment lines over the whole printable alphabet
    from gen import gram
    rnd = random.Random(seed + 5)
    nfiles = 400 if tier == "quick" else 8000
    files = [gram.random_file(rnd, rnd.randint(2, 12 if tier == "quick" else 30), rnd.choice(["none", "none", "python", "join"]), 0.0, single_line=True, comment_heavy=True) for _ in range(nfiles)]
    acc = validate_prefix_traces(exe, files, verdict, "C05")
    ndel = comment_deletion_pairs(exe, rnd, 600 if tier == "quick" else 12000, verdict)
    acc += ndel
    hard = sum(1 for f in files for a in f["abs"] if a["t"] == "comment" and gram.comment_is_hard(a, f["par"]))
    cov = {"states": r.distinct, "transitions": r.generated, "traces_validated_against_impl": n + acc,
           "evaluations": n + sum(len(f["lines"]) for f in files), "distinct_nontrivial": nn + hard,
           "rule": "TLC: every single-line-value file of the base pool (MC_Comment.tla) x every insertion of 1-2 comment lines (text with further comment characters, delimiters, quotes, brackets; with and without indentation) at every position; expectation = Meaning of the file WITHOUT the inserted lines (%d pairs, every %d-th replayed). Random: %d files with comment lines over 0x20-0x7e validated line by line (PStep on a comment line may change the pending comment only). Deletion relation without a grammar: %d files of header / entry lines whose values are outside the conventional forms (unclosed leading quote, doubled quotes, lone quote, comment characters inside quotes, trailing backslash ...) read as they are and with comment lines inserted (every third pair as the only drop-in over a vendor file that defines the same keys, compared after the merge; one file in fifty with a comment line of 64 Ki .. 200 000 bytes) - same return code, sections, keys, values. non-trivial = inserted line contains a further comment character, delimiter, quote or bracket, is indented, or directly follows an entry." % (total, sample, len(files), ndel),
           "samples": samples, "exhaustive": sample == 1, "random_hard_comment_lines": hard,
           "trusted_base": ["TLC 1.8.0", "gcc ASan/UBSan", "drv.c"]}
    return cov, BASE_ASSUME, "model_checking"


def comment_deletion_pairs(exe, rnd, n, verdict):
    """C05 as a relation that needs no grammar: a file of header and entry lines whose VALUES are outside the conventional forms
    (a leading quote that is never closed, doubled quotes, quotes in the middle, a lone quote, comment characters inside quotes,
    brackets, a trailing backslash ...) is read twice - as it is, and with comment lines (any comment character of the set,
    indented or not, any printable text) inserted between its lines.  Sections, keys, values and the return code must be the same."""
    vals = ['"welcome', '""x"', '"a" b', 'a"b', '"', '""', '"a # b"', "'x", "[v]", "v\\", "", '  "  sp  "  ', '"unbal  ', 'x "y', '"a;b', 'plain', '"two words"',
            '"open # not a comment', 'v ; w']
    cases, metas = [], []
    for i in range(n):
        # (comment characters may be any characters: also a letter, a digit, a bracket - a line that starts with one is a comment)
        D, C = rnd.choice([("=", "#"), ("=", "#;"), (":=", "#"), (" =", "#"), ("=", ";"), ("=", "#Z"), ("=", ";["), ("=", "7#"), (":=", "Q;")])
        base = []
        for _ in range(rnd.randint(1, 6)):
            x = rnd.random()
            if x < 0.15:
                base.append("[%s]" % rnd.choice(["S", "T", " U "]))
            elif x < 0.22:
                base.append("")
            else:
                sep = rnd.choice([D[-1], " %s " % D[-1], "%s " % D[-1]])
                base.append("%sk%d%s%s" % (rnd.choice(["", "", " "]), rnd.randint(0, 3), sep, rnd.choice(vals)))
        # (the unusual comment characters must not occur inside the entry lines themselves: there they would start trailing comments)
        base = [ln for ln in base if not any(ch in ln for ch in C if ch not in "#;")] or ["k0%sv" % D[-1]]
        withc = []
        nins = 0
        for ln in base:
            while rnd.random() < 0.35:
                withc.append(rnd.choice(["", "", " ", "\t", "   "]) + rnd.choice(C) + "".join(rnd.choice(' abz=:#;"[]\\\'0-' + C + C) for _ in range(rnd.randint(0, 12))))
                nins += 1
            withc.append(ln)
        while rnd.random() < 0.5 or not nins:
            withc.append(rnd.choice(["", " ", "\t"]) + rnd.choice(C) + "".join(rnd.choice(' abz=:#;"[]' + C + C) for _ in range(rnd.randint(0, 12))))
            nins += 1
        if i % 50 == 7:
            # a comment line far longer than any buffer a reader might use (64 Ki, 128 Ki and a bit): inert as a whole
            big = rnd.choice([65534, 65535, 65536, 70000, 131071, 131073, 200000])
            pos = rnd.randint(0, len(withc))
            withc.insert(pos, rnd.choice(C) + " " + ("x=1 [s] " * (big // 8 + 1))[:big])
        R = core.ROOT + "/cd%d" % (i % 16)
        sc = []
        for h, lines in ((1, base), (2, withc)):
            if i % 3 == 1:
                # the file as the only drop-in over a vendor file that defines the same keys: what reaches the MERGED result
                # must not depend on the comment lines either
                T_ = "%s/l%d" % (R, h)
                vendor = "\n".join("k%d%sB%d" % (j, D[-1], j) for j in range(4)) + "\n[S]\n" + "\n".join("k%d%sS%d" % (j, D[-1], j) for j in range(4)) + "\n"
                sc += ["rm %s" % hx(T_), "file %s %s" % (hx(T_ + "/usr/etc/cfg.conf"), hx(vendor)), "file %s %s" % (hx(T_ + "/etc/cfg.conf.d/x.conf"), hx("\n".join(lines) + "\n")),
                       "readdirs %d %s %s %s %s %s %s" % (h, hx(T_ + "/usr/etc"), hx(T_ + "/etc"), hx("cfg"), hx("conf"), hx(D), hx(C)), "dump %d" % h, "free %d" % h]
                continue
            if i % 5 == 3:
                # through econf_readConfig: read TWICE into the same variable (the second call gets the first result handed in), resp.
                # into an option object whose tags for WRITING were chosen beforehand (the last character of each set): what the
                # object carries says nothing about which lines of the files are comments - the sets given to the call do
                T_ = "%s/q%d" % (R, h)
                sc += ["rm %s" % hx(T_), "file %s %s" % (hx(T_ + "/usr/vfprj5/cfg.conf"), hx("\n".join(lines) + "\n"))]
                rdc = "readconfig %d %s %s %s %s %s %s" % (h, hx("vfprj5"), hx(T_ + "/usr"), hx("cfg"), hx("conf"), hx(D), hx(C))
                if i % 10 == 3:
                    sc += [rdc, rdc]
                else:
                    sc += ["newopt %d %s" % (h, hx("PARSING_DIRS=" + T_ + "/usr/vfprj5")), "settags %d %s %s" % (h, hx(D[-1]), hx(C[-1])),
                           "readconfig %d - - %s %s %s %s" % (h, hx("cfg"), hx("conf"), hx(D), hx(C))]
                sc += ["dump %d" % h, "free %d" % h]
                continue
            sc += ["file %s %s" % (hx("%s/f%d.conf" % (R, h)), hx("\n".join(lines) + "\n")),
                   "readfile %d %s %s %s" % (h, hx("%s/f%d.conf" % (R, h)), hx(D), hx(C)), "dump %d" % h, "free %d" % h]
        cases.append((i, sc))
        metas.append((D, C, base, withc))
    res = core.run_cases(exe, cases)
    ok = 0
    for i, (D, C, base, withc) in enumerate(metas):
        out = res.get(i)
        case = {"kind": "comment-deletion", "delim": D, "comment": C, "without": base, "with": withc}
        if out is None or out["crash"]:
            verdict.violation("C05:deletion:crash", dict(case, crash=(out or {}).get("crash")), "reading crashed on\n%s\n%s" % ("\n".join(withc), (out or {}).get("crash", "")[:600]))
            continue
        rd, dm, lastrd = [], [], None
        for e in out["ev"]:        # the read in front of each dump
            if e["op"] in ("readfile", "readdirs", "readconfig"):
                lastrd = e
            elif e["op"] == "dump":
                rd.append(lastrd or {"rc": "?"})
                dm.append(e)
        obs = [(r["rc"], (d.get("st") or {}).get("groups"), [(s_["g"], [(k["k"], k["v"]) for k in s_["keys"]]) for s_ in (d.get("st") or {}).get("secs", [])]) for r, d in zip(rd, dm)]
        if len(obs) != 2 or obs[0] != obs[1]:
            short = [ln if len(ln) < 200 else ln[:60] + "...(%d bytes)" % len(ln) for ln in withc]
            verdict.violation("C05:deletion", dict(case, got=str(obs)[:3000], **{"with": short}), "comment lines are not inert (delim %r comment %r):\n--- without comment lines: %s\n%s\n--- with: %s\n%s" % (
                D, C, str(obs[0] if obs else None)[:600], "\n".join(base), str(obs[1] if len(obs) > 1 else None)[:600], "\n".join(short)))
        else:
            ok += 1
    return ok


# ----- C15: options -----
def check_c15(exe, tier, seed, verdict):
    from . import p_options
    return p_options.check_c15(exe, tier, seed, verdict)


def replay(pid, path):
    with open(path) as f:
        rec = json.load(f)
    exe = core.build("asan")
    case = rec["case"]
    print(json.dumps(rec, indent=1)[:4000])
    if case.get("kind") == "file":
        root = core.ROOT + "/rp"
        s = read_script(root + "/f.conf", file_bytes(case["lines"], case.get("final_newline", True)), case["delim"], case["comment"], via=case.get("via", "file"))
        out = core.run_cases(exe, [("r", s)], jobs=1)["r"]
        print(json.dumps(out, indent=1)[:6000])
    return 0
