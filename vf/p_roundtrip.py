"""C07 — a written configuration reads back identically (Writer.tla).
M  MC_RoundTrip: RoundTrips(o, d, c) for every object in the unambiguous class reachable by setter
   histories / by parsing conventional files, for the delimiter/comment pairs.
F  exported histories and files are built in the real library, written, read back; the observable
   before and after is compared with the exported one.
B  every such write (and random larger histories / files) is also recorded as an event carrying the
   WRITTEN BYTES; Trace_RoundTrip.tla re-parses them with the specification's parser."""
import json
import os
import random
import time

from . import core
from .core import hx, codes, canon, ROOT
from .p_parser import export, write_cfg, file_bytes


def rt_of_dump(d):
    st = d.get("st")
    if st is None:
        return None
    ents = []
    bearing = []
    for sec in st["secs"]:
        g = codes(sec["g"]) if sec["g"] is not None else []
        for k in sec["keys"]:          # a repeated key is listed twice; getters show its first definition
            v = k["v"] if k["v"] is not None else ""
            single = "\n" not in v
            cb = k.get("cb")
            ca = k.get("ca")
            ents.append({"g": g, "k": codes(k["k"]), "v": codes(v),
                         "cb": [codes(cb)] if (single and cb) else [],
                         "ca": [codes(ca)] if (single and ca) else []})
            if g and g not in bearing:
                bearing.append(g)
    # key-bearing sections in canonical (byte-wise) order, entries grouped accordingly (Writer!RT)
    secs = sorted(bearing, key=bytes)
    ordered = [e for e in ents if not e["g"]]
    for g in secs:
        ordered += [e for e in ents if e["g"] == g]
    return {"groups": secs, "ents": ordered}


def rt_script(i, build, d, c):
    R = ROOT + "/rt%d" % (i % 16)
    dd, cc = hx(bytes([d])), hx(bytes([c]))
    s = ["mkdir %s" % hx(R)] + build(R, dd, cc)
    pre = []
    if i % 2:
        # "for every choice of delimiter and comment character on the object": the object was already written once with another
        # pair of characters before it is written with the pair in hand
        od, oc = ((58, 59) if (d, c) != (58, 59) else (61, 35))
        pre = ["settags 1 %s %s" % (hx(bytes([od])), hx(bytes([oc]))), "write 1 %s %s" % (hx(R), hx("pre.conf"))]
    s += ["settags 1 %s %s" % (dd, cc), "dumpx 1"] + pre + ["settags 1 %s %s" % (dd, cc), "write 1 %s %s" % (hx(R), hx("out.conf")), "cat %s" % hx(R + "/out.conf"),
          "readfile 2 %s %s %s" % (hx(R + "/out.conf"), dd, cc), "dumpx 2", "free 1", "free 2"]
    return s


def run_rt(exe, items, verdict):
    """items: list of dict(src, hist|lines_in, d, c, want (optional RT), label). Returns events, n_ok."""
    cases = []
    for i, it in enumerate(items):
        if it["src"] == "hist":
            def build(R, dd, cc, it=it):
                b = ["newkf 1 %s %s" % (dd, cc)]
                for op in it["hist"]:
                    b.append("set String 1 %s %s %s" % (hx(bytes(op["g"])) if op["g"] else "-", hx(bytes(op["k"])), hx(bytes(op["v"]))))
                return b
        else:
            def build(R, dd, cc, it=it):
                return ["file %s %s" % (hx(R + "/in.conf"), hx(file_bytes(it["lines_in"]))), "readfile 1 %s %s %s" % (hx(R + "/in.conf"), dd, cc)]
        cases.append((i, rt_script(i, build, it["d"], it["c"])))
    res = core.run_cases(exe, cases)
    events = []
    ok = 0
    for i, it in enumerate(items):
        out = res.get(i)
        fp = "C07:%s:d%d" % (it["src"], it["d"])
        case = {"kind": "roundtrip", "item": it}
        if out is None or out["crash"]:
            verdict.violation(fp + ":crash", dict(case, crash=(out or {}).get("crash")), "write/read round trip crashed (%s)\n%s" % (it.get("label"), (out or {}).get("crash", "")[:700]))
            events.append(None)
            continue
        ev = out["ev"]
        dumps = [e for e in ev if e["op"] == "dump"]
        cat = next((e for e in ev if e["op"] == "cat"), None)
        rd = [e for e in ev if e["op"] == "readfile"][-1]
        wr = next(e for e in ev if e["op"] == "write")
        before = rt_of_dump(dumps[0]) if dumps else None
        after = rt_of_dump(dumps[1]) if len(dumps) > 1 else None
        if before is None or wr["rc"] != "ECONF_SUCCESS" or cat is None or cat["data"] is None:
            raise core.ToolFailure("round-trip harness could not build/write the object: %s" % ev[:6])
        written = cat["data"]
        wl = written.split("\n")
        if wl and wl[-1] == "":
            wl = wl[:-1]
        rec = {"src": it["src"], "hist": it.get("hist", []), "lines_in": it.get("lines_in", []), "d": it["d"], "c": it["c"],
               "lines_written": [codes(x) for x in wl], "rt_before": before, "rt_after": after or {"groups": [], "ents": []}, "rc_read": rd["rc"]}
        events.append(rec)
        if it.get("want") is not None:
            if before != it["want"] or rd["rc"] != "ECONF_SUCCESS" or after != it["want"]:
                feat = features(it["want"], it)
                verdict.violation(fp + ":" + feat, dict(case, before=before, after=after, written=written, rc=rd["rc"]),
                                  "round trip (delimiter %r comment %r) of %s:\nwritten file:\n%s\nexpected %s\nbefore   %s\nafter    %s (%s)" % (
                                      chr(it["d"]), chr(it["c"]), it.get("label"), written, canon(it["want"]), canon(before), canon(after), rd["rc"]))
            else:
                ok += 1
    return events, ok


def long_values(exe, verdict, tier):
    """values SET through the API (so never shortened by an earlier read) whose lines cross the stdio buffer size: single-line,
    multi-line with a long first / middle / last line; written with every delimiter/comment pair and read back"""
    B = 8192
    lens = [B - 2, B - 1, B, B + 1, 2 * B + 3] + ([70000] if tier == "thorough" else [20000])
    cases = []
    meta = []
    for n in lens:
        body = ("H" + "m" * (n - 2) + "T")
        for shape, val in (("single", body), ("first", body + "\n tail"), ("last", "head\n " + body), ("middle", "head\n " + body + "\n tail")):
            for d, c in (("=", "#"), (":", ";"), (" ", "#")):
                if d == " " and shape != "single":
                    continue
                R = ROOT + "/lv%d" % (len(cases) % 16)
                cases.append((len(cases), ["newkf 1 %s %s" % (hx(d), hx(c)), "set String 1 %s %s %s" % (hx("net"), hx("hosts"), hx(val)), "set String 1 %s %s %s" % (hx("net"), hx("z"), hx("1")),
                                           "mkdir %s" % hx(R), "write 1 %s %s" % (hx(R), hx("long.conf")), "readfile 2 %s %s %s" % (hx(R + "/long.conf"), hx(d), hx(c)),
                                           "get String 2 %s %s" % (hx("net"), hx("hosts")), "get String 2 %s %s" % (hx("net"), hx("z")), "free 1", "free 2"]))
                meta.append((n, shape, d, c, val))
    res = core.run_cases(exe, cases, per_case_timeout=60)
    ok = 0
    for i, (n, shape, d, c, val) in enumerate(meta):
        out = res.get(i)
        if out is None or out["crash"]:
            verdict.violation("C07:long:crash:%s" % shape, {"kind": "long", "len": n, "shape": shape, "d": d, "c": c, "crash": (out or {}).get("crash")},
                              "write/read of a %s value with a line of %d bytes crashed\n%s" % (shape, n, (out or {}).get("crash", "")[:600]))
            continue
        gets = [e for e in out["ev"] if e["op"] == "get"]
        want = "\n".join(x.strip(" \t") if k else x for k, x in enumerate(val.split("\n")))      # continuation lines come back without their indentation
        got = gets[0].get("out") if gets else None
        norm = lambda v: None if v is None else "\n".join(x.strip(" \t") for x in v.split("\n"))
        if len(gets) != 2 or gets[0]["rc"] != "ECONF_SUCCESS" or norm(got) != norm(val) or gets[1].get("out") != "1":
            verdict.violation("C07:long:%s" % shape, {"kind": "long", "len": n, "shape": shape, "d": d, "c": c, "got_len": len(got or ""), "rc": [g["rc"] for g in gets]},
                              "%s value with a line of %d bytes (delimiter %r comment %r): set %d chars, after econf_writeFile + econf_readFile %s chars came back (%s); the following key reads %r" % (
                                  shape, n, d, c, len(val), len(got or ""), gets[0]["rc"] if gets else "?", gets[1].get("out") if len(gets) > 1 else None))
        else:
            ok += 1
    return ok


def features(rt, it):
    f = []
    ents = rt["ents"]
    gs = [tuple(e["g"]) for e in (it.get("hist") or [])]
    if gs and () in gs and gs[0] != ():
        f.append("nogroup-after-section")
    if any(gs[i] != gs[i - 1] and gs[i] in gs[:i] for i in range(1, len(gs))):
        f.append("reopen")
    if any(10 in e["v"] for e in ents):
        f.append("multiline")
    if any(e["cb"] or e["ca"] for e in ents):
        f.append("comment")
    return "+".join(f) or "plain"


def show_hist(h):
    return " ; ".join("set(%s,%s,%r)" % (core.uncodes(op["g"]) or "-", core.uncodes(op["k"]), core.uncodes(op["v"])) for op in h)


def check(pid, tier, seed):
    t0 = time.time()
    exe = core.build("asan")
    verdict = core.Verdict(pid)
    rnd = random.Random(seed)
    items = []
    states = 0
    nt = 0
    for mode, maxops in (("setters", 3 if tier == "quick" else 4), ("parsed", 3)):
        cfg = "SPECIFICATION Spec\nVIEW view\nCHECK_DEADLOCK FALSE\nINVARIANT RoundTripHolds\nINVARIANT SettersInClass\nCONSTRAINT ExportCase\nCONSTANTS\n MaxOps = %d\n Mode = \"%s\"\n Export = TRUE\n" % (maxops, mode)
        r = core.tlc_ok("MC_RoundTrip", write_cfg(cfg), timeout=3000)
        if r.violated:
            verdict.violation("C07:model:" + mode, {"tlc": r.out[-3000:]}, "TLC: round trip does not hold in the model (%s)\n%s" % (mode, r.out[-1500:]))
        states += r.distinct
        recs = r.json_lines()
        recs.sort(key=canon)
        if tier == "quick" and len(recs) > 9000:
            recs = rnd.sample(recs, 9000)
        for x in recs:
            for o in x["ok"]:
                if not o["inclass"]:
                    continue
                if mode == "setters":
                    it = {"src": "hist", "hist": x["hist"], "d": o["d"], "c": o["c"], "want": x["rt"], "label": show_hist(x["hist"])}
                else:
                    it = {"src": "file", "lines_in": x["lines"], "d": o["d"], "c": o["c"], "want": x["rt"], "label": "file " + repr(file_bytes(x["lines"]).decode("latin-1"))}
                items.append(it)
    # random larger histories and files (class membership decided by the trace specification)
    nr = 300 if tier == "quick" else 6000
    secs = ["", "A", "B", "C c", "Dd", "eth[0]", "x]", "[y", "list[]"]
    keys = ["x", "y", "key3", "k4", "K-5", "k.6"]
    vals = ["", "v", "a b", "v\n w", "v\n w\n\tx y", "12", "true", "a=b", "semi;colon", "hash#tag", " lead", "trail ", "\"q\"", "x:y", "tab\tin",
            # texts the library itself uses as markers / words: ordinary values like any other
            "_none_", "(null)", "NULL", "false", "[A]", "yes", "0",
            # text that means something to the formatting functions
            "100%", "%%", "%s", "%d%%", "a\\nb", "\\",
            # bytes beyond ASCII (UTF-8 here, written byte by byte), at the end of the value in particular
            "caf\xc3\xa9", "3 \xe2\x82\xac", "\xc3\xa4 \xc3\xb6", "Zo\xc3\xab x", "\xff"]
    for _ in range(nr):
        hist = []
        for _ in range(rnd.randint(1, 40)):
            hist.append({"g": codes(rnd.choice(secs)), "k": codes(rnd.choice(keys)), "v": codes(rnd.choice(vals))})
        d, c = rnd.choice([(61, 35), (58, 59), (32, 35), (61, 59), (58, 35), (32, 59)])
        items.append({"src": "hist", "hist": hist, "d": d, "c": c, "want": None, "label": "random history"})
    from gen import gram
    for _ in range(nr):
        D = rnd.choice(["=", ":", " "])
        C = rnd.choice(["#", ";"])
        f = gram.random_file(rnd, rnd.randint(1, 14 if tier == "quick" else 30), "none", 0.0, D=D, C=C)
        items.append({"src": "file", "lines_in": f["lines"], "d": ord(D), "c": ord(C), "want": None, "label": "random file"})
    events, ok = run_rt(exe, items, verdict)
    good = [(i, e) for i, e in enumerate(events) if e is not None]
    acc = 0
    skipped = 0
    if good:
        okk, tr, _ = core.validate_trace("Trace_RoundTrip", os.path.join(core.SPEC, "Trace_RoundTrip.cfg"), [e for _, e in good], timeout=3000)
        recs = tr.json_lines()
        mism = [x for x in recs if "mismatch" in x]
        skipped = len([x for x in recs if "skipped" in x])
        if not okk and not mism:
            raise core.ToolFailure("Trace_RoundTrip did not consume the trace:\n" + tr.out[-2500:])
        for x in mism[:60]:
            i, e = good[x["mismatch"] - 1]
            it = items[i]
            written = "\n".join(core.uncodes(z) for z in e["lines_written"])
            verdict.violation("C07:trace:%s:d%d:%s" % (it["src"], it["d"], features(x["spec"], it)), {"kind": "roundtrip", "item": it, "event": e, "spec": x["spec"], "written_parsed": x.get("written_parsed")},
                              "round trip rejected by Trace_RoundTrip (delimiter %r comment %r, %s):\nwritten file:\n%s\nexpected observable %s\nbefore writing      %s\nspec's parse of the written bytes %s\nafter reading back  %s (%s)" % (
                                  chr(it["d"]), chr(it["c"]), it["label"], written, canon(x["spec"]), canon(e["rt_before"]), canon(x.get("written_parsed")), canon(e["rt_after"]), e["rc_read"]))
        acc = len(good) - len(mism) - skipped
    acc += long_values(exe, verdict, tier)
    from . import p_econf
    nmix = 150 if tier == "quick" else 4000
    accmix = p_econf.run_mixed(exe, random.Random(seed + 77), nmix, verdict, "C07")
    acc += accmix
    for it in items:
        if it.get("want") and features(it["want"], it) != "plain":
            nt += 1
    rc = verdict.finish()
    samples = [{"history": it["label"], "d": chr(it["d"]), "c": chr(it["c"]), "expected": it["want"]} for it in items[500:502] if it.get("want")]
    cov = {"states": states, "transitions": states, "traces_validated_against_impl": ok + acc,
           "evaluations": len(items), "distinct_nontrivial": nt,
           "rule": "MC_RoundTrip: every object reachable by <= %d setter calls over {group-less,A,B} x {x,y} x {\"\", v, 'a b', two-line value} (every interleaving, re-opened sections, overwrites) x (delimiter,comment) in {= #, : ;, space #, = ;}, and every object parsed from a conventional file of <= 3 lines (quoted values, comments before / after, continuation lines) x {=,space} x {#,;}: RoundTrips on the model; each exported case built in the library, written (every second one after an earlier write with another pair of characters), read back, observable compared before/after (%d cases); + %d random histories of <= 40 calls and %d random conventional files whose written bytes are re-parsed by the specification (Trace_RoundTrip; %d outside the unambiguous class skipped); + values set through the API whose single / first / middle / last line is BUFSIZ-2 .. BUFSIZ+1, 2*BUFSIZ+3 and 20 000 (thorough 70 000) bytes long, written and read back; + %d mixed API histories in which written files are read back, merged and written again, validated against the root specification Econf.tla. non-trivial = group-less key after a sectioned one, re-opened section, multi-line value or comment." % (
               3 if tier == "quick" else 4, len(items) - 2 * nr, nr, nr, skipped, nmix),
           "samples": samples, "exhaustive": tier == "thorough", "skipped_outside_class": skipped,
           "trusted_base": ["TLC 1.8.0", "gcc ASan/UBSan", "drv.c"]}
    core.write_evidence(pid, tier, seed, "model_checking", cov,
                        ["objects produced by merge are not claimed (quote flags are dropped there)", "NULL and \"\" are one observation"], time.time() - t0, len(verdict.violations))
    return rc


def replay(pid, path):
    print(open(path).read()[:6000])
    return 0
