"""C16 — owner / group / symlink restrictions gate every file of every read.
M  MC_Security: flag state machine x small trees x attribute vectors (SucceedsIffAllPass,
   FirstFailingDecides, ResetAcceptsAll).
B  scenarios run as root in a scratch tree (lchown to a foreign uid/gid, symbolic links): flags set,
   read through every entry point, reset, read again; recorded Begin/Callback*/End traces are
   validated by Trace_Layers.tla, which computes the violations itself from the logged attributes
   and flags (Security!Violations)."""
import itertools
import json
import os
import random
import time

from . import core
from .core import hx, ROOT
from . import p_layers
from .p_layers import tree_export, scenario_script, scenario_events, validate_scenarios


def check(pid, tier, seed):
    t0 = time.time()
    exe = core.build("asan")
    verdict = core.Verdict(pid)
    rnd = random.Random(seed)
    if os.geteuid() != 0:
        raise core.ToolFailure("C16 needs to run as root (lchown to a foreign uid)")
    mc = core.tlc_ok("MC_Security", os.path.join(core.SPEC, "MC_Security.cfg"), timeout=3000)
    if mc.violated:
        verdict.violation("C16:model", {"tlc": mc.out[-3000:]}, "TLC: restriction invariants violated in the model\n" + mc.out[-1500:])
    r3, recs3, _ = tree_export(3, [3, 6], 12, ["bb"])
    r2, recs2, _ = tree_export(2, [3, 6], 12, ["bb"])
    r1, recs1, _ = tree_export(1, [], 0, ["bb"])
    single = [(x, e) for x in recs1 if len(x["log"]) == 1 for e in ("readfile", "readfilecb")] * 12
    pool = p_layers.round_robin(rnd, [[(x, "std") for x in recs3 if 1 <= len(x["log"]) <= 4]] * 3 +
                                [[(x, e) for x in recs2 if 1 <= len(x["log"]) <= 4] for e in ("readdirscb", "readhistcb", "rc2cb", "readdirs", "readhist", "rc2", "readdirscb_rel", "readhistcb_rel")])
    # two drop-in directories per layer (CONFIG_DIRS list, econf_set_conf_dirs): a refusal in the first one stands
    r4, recs4, _ = tree_export(3, [3, 6], 4, ["bb"], nd=2)
    pool2 = [(x, e) for x in recs4 if 2 <= len(x["log"]) <= 4 and any(2 in row for row in x["pd"]) for e in ("config_dirs", "set_conf_dirs")]
    rnd.shuffle(pool2)
    pool = single + pool2[:60 if tier == "quick" else len(pool2)] + pool
    budget = 1200 if tier == "quick" else 15000
    scen = []
    flagsets = [dict(owner=o, group=g, nosym=s) for o in (0, 1) for g in (0, 1) for s in (0, 1) if o or g or s]
    for x, ent in pool:
        K = [tuple(f) for f in x["log"]]
        for _ in range(3):
            # permission masks next to the other rules: none / masks every file satisfies / a file mask that mode 0640 fails
            fl = dict(rnd.choice(flagsets), perms=rnd.choice([0, 0, 0, 1, 1, 2, 2]))
            attrs = {}
            mode = rnd.random()
            if mode < 0.5:
                # exactly one file violates one active rule
                f = rnd.choice(K)
                rule = rnd.choice([k for k in ("owner", "group", "nosym") if fl[k]] + (["perms", "dperms"] if fl["perms"] == 2 else []))
                attrs[f] = ("foreign" if rule == "owner" else "ok", "foreign" if rule == "group" else "ok", rule == "nosym", "bad" if rule == "perms" else "ok",
                            "bad" if rule == "dperms" else "ok")      # (a bad directory is bad for all files in it: completed by scenario_script)
            elif mode < 0.85:
                for f in K:
                    lk = rnd.random() < 0.3
                    attrs[f] = (rnd.choice(["ok", "ok", "foreign"]), rnd.choice(["ok", "ok", "foreign"]), lk, "bad" if (not lk and rnd.random() < 0.25) else "ok",
                                "bad" if rnd.random() < 0.1 else "ok")
            else:
                # attributes that only violate INACTIVE rules: must read as usual
                for f in K:
                    attrs[f] = ("ok" if fl["owner"] else "foreign", "ok" if fl["group"] else "foreign", not fl["nosym"], "ok" if fl["perms"] == 2 else "bad", "ok" if fl["perms"] == 2 else "bad")
            scen.append((x, ent, attrs, fl))
        if len(scen) >= budget:
            break
    cases = []
    meta = []
    for i, (x, ent, attrs, fl) in enumerate(scen):
        use_cb = ent.endswith("cb") or ent.endswith("cb_rel") or ent in ("std", "config_dirs", "set_conf_dirs")
        sc, paths, K, shape = scenario_script(i, x, ent, attrs=attrs, flags=fl, reset_reread=True, use_cb=use_cb)
        cases.append((i, sc))
        meta.append((paths, K, use_cb))
    res = core.run_cases(exe, cases)
    events = []
    nn = 0
    n = 0
    for i, (x, ent, attrs, fl) in enumerate(scen):
        out = res.get(i)
        paths, K, use_cb = meta[i]
        if out is None or out["crash"]:
            verdict.violation("C16:%s:crash" % ent, {"kind": "scenario", "tree": {"main": x["main"], "drop": x["drop"]}, "attrs": {str(k): v for k, v in attrs.items()}, "flags": fl, "crash": (out or {}).get("crash")},
                              "read under restrictions crashed (%s)\n%s" % (ent, (out or {}).get("crash", "")[:800]))
            continue
        events += scenario_events(x, ent, out, paths, K, attrs=attrs, flags=fl, reset_reread=True, use_cb=use_cb, idx=i)
        n += 1
        viol = [f for f in K if (fl["owner"] and attrs.get(f, ("ok",) * 3)[0] == "foreign") or (fl["group"] and attrs.get(f, ("ok",) * 3)[1] == "foreign") or (fl["nosym"] and attrs.get(f, ("ok", "ok", False))[2])
                or (fl["perms"] == 2 and attrs.get(f, ("ok", "ok", False, "ok"))[3] == "bad" and not attrs[f][2])
                or (fl["perms"] == 2 and (tuple(attrs.get(f, ())) + ("ok",) * 5)[4] == "bad")]
        if len(K) >= 2 and len(viol) == 1:
            nn += 1

    def fp(begin, ev):
        fl = begin["flags"]
        return "C16:%s:%s" % (ev["e"], "+".join(k for k in ("owner", "group", "nosym") if fl.get(k)) + ("+perms" if fl.get("perms") == "strict" else "") or "afterreset")
    bad = validate_scenarios(events, verdict, "C16", fp)
    n += settings_across_threads(exe, verdict)
    n += big_ids(exe, verdict)
    n += dotdot_paths(exe, verdict)
    rc = verdict.finish()
    cov = {"states": mc.distinct, "transitions": mc.generated, "traces_validated_against_impl": n - bad,
           "evaluations": n * 2, "distinct_nontrivial": nn,
           "rule": "MC_Security: 2-layer trees x every {matching,foreign} owner/group x {regular,symlink} x {ok,bad} permission bits assignment to the consulted files x all 54 settings states reached by the setter actions (owner / group: none, usual id, another id; links; permission masks none / lenient / strict; reset), action property Independent. Traces: %d scenarios over 3-layer (econf_readConfigWithCallback) and 3-layer trees with two drop-in directories per layer (CONFIG_DIRS list, econf_set_conf_dirs) and 2-layer trees (econf_readFile, econf_readFileWithCallback on single files; econf_readDirs, econf_readDirsWithCallback, econf_readDirsHistory(+WithCallback), econf_readConfig(+WithCallback) with PARSING_DIRS; the directory arguments also as RELATIVE names) x the 7 non-empty flag combinations (together with no / a satisfied / a strict econf_requirePermissions requirement - file mode 0640 against the file mask 004, directory mode 0750 against the directory mask 001) x attribute vectors {exactly one file violating one active rule, random vectors, vectors violating only inactive rules}; files are lchown'ed to uid/gid %d resp. replaced by symbolic links; each scenario = setter calls in varying order with overwritten calls mixed in, read, econf_reset_security_settings, read again. Trace_Layers folds the RECORDED setter calls into the settings in force (Security!ApplySetters: every setter changes its own setting only, the last call counts), computes the violations from the logged attributes and accepts only the code of the first failing file, no object, no callback for the refused file, full content after reset. Plus one scenario across threads: rules set by the main thread gate a worker's reads and vice versa; and required ids of 2^31-1, 2^31, 3 000 000 000 and 2^32-2. non-trivial = >= 2 consulted files of which exactly one violates an active rule." % (n, p_layers.FOREIGN),
           "samples": events[:3], "exhaustive": False, "trusted_base": ["TLC 1.8.0", "gcc ASan/UBSan", "drv.c (runs as root)"]}
    core.write_evidence(pid, tier, seed, "model_checking", cov,
                        ["checks run as root; foreign = uid/gid 54321", "econf_requirePermissions is beyond the text of the property; modelled with one strict pair of masks (file 004 / directory 001 against modes 0640 / 0750)", "process-wide flags are reset after every scenario"],
                        time.time() - t0, len(verdict.violations))
    return rc


def settings_across_threads(exe, verdict):
    """The restrictions are process-wide: a rule put in force by one thread gates the reads of every other thread (set by the main
    thread before a worker starts; set by a worker and met by the main thread afterwards)."""
    R = ROOT + "/thr16"
    F = p_layers.FOREIGN
    worker = ["readfile 1 %s x3d x23" % hx(R + "/foreign.conf"), "free 1", "readfile 2 %s x3d x23" % hx(R + "/own.conf"), "free 2",
              "readfile 3 %s x3d x23" % hx(R + "/link.conf"), "free 3",
              "readdirs 4 %s %s %s %s x3d x23" % (hx(R + "/t/usr"), hx(R + "/t/etc"), hx("cfg"), hx("conf")), "free 4"]
    worker2 = ["requiregroup 0"]
    sc = ["rm %s" % hx(R), "file %s %s" % (hx(R + "/own.conf"), hx("a=1\n")), "file %s %s" % (hx(R + "/foreign.conf"), hx("a=2\n")), "chown %s %d 0" % (hx(R + "/foreign.conf"), F),
          "symlink %s %s" % (hx(R + "/own.conf"), hx(R + "/link.conf")), "file %s %s" % (hx(R + "/grp.conf"), hx("a=3\n")), "chown %s 0 %d" % (hx(R + "/grp.conf"), F),
          "file %s %s" % (hx(R + "/t/etc/cfg.conf"), hx("m=1\n")), "file %s %s" % (hx(R + "/t/etc/cfg.conf.d/f.conf"), hx("d=1\n")), "chown %s %d 0" % (hx(R + "/t/etc/cfg.conf.d/f.conf"), F),
          "file %s %s" % (hx(R + "/w1.script"), hx("\n".join(worker) + "\n")), "file %s %s" % (hx(R + "/w2.script"), hx("\n".join(worker2) + "\n")),
          "requireowner 0", "followsymlinks 0", "threads 1 x %s" % hx(R + "/w1.script"), "resetsec",
          "threads 1 x %s" % hx(R + "/w2.script"), "readfile 5 %s x3d x23" % hx(R + "/grp.conf"), "free 5", "resetsec",
          "readfile 6 %s x3d x23" % hx(R + "/grp.conf"), "free 6", "cat %s" % hx(R + "/w1.script.out")]
    out = core.run_cases(exe, [("thr", sc)], jobs=1)["thr"]
    if out["crash"]:
        verdict.violation("C16:threads:crash", {"kind": "script", "script": sc, "crash": out["crash"]}, "restrictions across threads: crashed\n" + out["crash"][:600])
        return 0
    cat = [e for e in out["ev"] if e["op"] == "cat"][0]
    w = [json.loads(l) for l in (cat["data"] or "").splitlines() if l.startswith("{")]
    got = [e["rc"] for e in w if e.get("op", "").startswith("read")] + [e["rc"] for e in out["ev"] if e["op"] == "readfile"]
    want = ["ECONF_WRONG_OWNER", "ECONF_SUCCESS", "ECONF_ERROR_FILE_IS_SYM_LINK", "ECONF_WRONG_OWNER", "ECONF_WRONG_GROUP", "ECONF_SUCCESS"]
    if got != want:
        verdict.violation("C16:threads", {"kind": "script", "script": sc, "got": got, "want": want},
                          "restrictions set by one thread and met by another: worker under the main thread's owner / no-link rules read [foreign file, own file, link, tree with a foreign drop-in] -> %s; main thread under the worker's group rule, then after reset -> %s; expected %s" % (got[:4], got[4:], want))
        return 0
    return 1


def big_ids(exe, verdict):
    """required owner / group ids in the upper half of the 32-bit range (3 000 000 000, 4 294 967 294) are ids like any other: a
    file owned by somebody else is refused, a file owned by that id is read"""
    R = ROOT + "/bigid"
    ok = 0
    for which, rid in (("owner", 3000000000), ("group", 4294967294), ("owner", 2147483648), ("group", 2147483647)):
        own = "%d 0" % rid if which == "owner" else "0 %d" % rid
        sc = ["rm %s" % hx(R), "file %s %s" % (hx(R + "/root.conf"), hx("a=1\n")), "file %s %s" % (hx(R + "/theirs.conf"), hx("a=2\n")), "chown %s %s" % (hx(R + "/theirs.conf"), own),
              "file %s %s" % (hx(R + "/t/etc/cfg.conf"), hx("m=1\n")), "file %s %s" % (hx(R + "/t/etc/cfg.conf.d/d.conf"), hx("d=1\n")), "chown %s %s" % (hx(R + "/t/etc/cfg.conf"), own),
              "require%s %d" % (which, rid),
              "readfile 1 %s x3d x23" % hx(R + "/root.conf"), "free 1", "readfile 2 %s x3d x23" % hx(R + "/theirs.conf"), "free 2",
              "readdirs 3 %s %s %s %s x3d x23" % (hx(R + "/t/usr"), hx(R + "/t/etc"), hx("cfg"), hx("conf")), "free 3", "resetsec",
              "readfile 4 %s x3d x23" % hx(R + "/root.conf"), "free 4"]
        out = core.run_cases(exe, [("bigid", sc)], jobs=1)["bigid"]
        code = "ECONF_WRONG_OWNER" if which == "owner" else "ECONF_WRONG_GROUP"
        want = [code, "ECONF_SUCCESS", code, "ECONF_SUCCESS"]
        got = None if out["crash"] else [e["rc"] for e in out["ev"] if e["op"].startswith("read")]
        if got != want:
            verdict.violation("C16:big-id:%s" % which, {"kind": "script", "script": sc, "got": got, "want": want, "crash": out["crash"]},
                              "required %s id %d: reads of [a root-owned file, a file of that %s, a tree whose drop-in is root-owned, the root-owned file after reset] -> %s, expected %s" % (which, rid, which, got, want))
        else:
            ok += 1
    return ok


def dotdot_paths(exe, verdict):
    """file and directory arguments with a `..` component behind a component that is a symbolic link to a directory: the file the
    restrictions are checked on is the file that is read - the one the operating system reaches by that name, not the one a
    textual clean-up of the name would reach.  Two trees: the name leads to a good file while the textually "cleaned" name would
    lead to a forbidden one (link / foreign owner) - read, with the good content; and the other way round - refused."""
    R = ROOT + "/dotdot"
    ok = 0
    for rule, setter, code in (("nosym", "followsymlinks 0", "ECONF_ERROR_FILE_IS_SYM_LINK"), ("owner", "requireowner 0", "ECONF_WRONG_OWNER")):
        for good_by_os in (True, False):
            # <R>/cur -> <R>/real/sub, so <R>/cur/../usr is <R>/real/usr for the operating system and <R>/usr after a textual clean-up
            os_dir, txt_dir = R + "/real/usr", R + "/usr"
            good_dir, bad_dir = (os_dir, txt_dir) if good_by_os else (txt_dir, os_dir)
            sc = ["rm %s" % hx(R), "mkdir %s" % hx(R + "/real/sub"), "symlink %s %s" % (hx(R + "/real/sub"), hx(R + "/cur")),
                  "file %s %s" % (hx(good_dir + "/cfg.conf"), hx("key=good\n")), "file %s %s" % (hx(good_dir + "/cfg.conf.d/x.conf"), hx("extra=good\n"))]
            if rule == "nosym":
                sc += ["file %s %s" % (hx(R + "/evil/main"), hx("key=evil\n")), "file %s %s" % (hx(R + "/evil/x"), hx("extra=evil\n")), "mkdir %s" % hx(bad_dir + "/cfg.conf.d"),
                       "symlink %s %s" % (hx(R + "/evil/main"), hx(bad_dir + "/cfg.conf")), "symlink %s %s" % (hx(R + "/evil/x"), hx(bad_dir + "/cfg.conf.d/x.conf"))]
            else:
                sc += ["file %s %s" % (hx(bad_dir + "/cfg.conf"), hx("key=evil\n")), "file %s %s" % (hx(bad_dir + "/cfg.conf.d/x.conf"), hx("extra=evil\n")),
                       "chown %s 54321 0" % hx(bad_dir + "/cfg.conf"), "chown %s 54321 0" % hx(bad_dir + "/cfg.conf.d/x.conf")]
            arg = R + "/cur/../usr"
            sc += [setter, "readfile 1 %s x3d x23" % hx(arg + "/cfg.conf"), "dump 1", "free 1",
                   "readdirs 2 %s %s %s %s x3d x23" % (hx(R + "/none"), hx(arg), hx("cfg"), hx("conf")), "dump 2", "free 2", "resetsec"]
            out = core.run_cases(exe, [("dd", sc)], jobs=1)["dd"]
            want = ["ECONF_SUCCESS", "ECONF_SUCCESS"] if good_by_os else [code, code]
            got = None if out["crash"] else [e["rc"] for e in out["ev"] if e["op"].startswith("read")]
            vals = None if out["crash"] else sorted({core.uncodes(k["v"]) if isinstance(k["v"], list) else k["v"] for d in out["ev"] if d["op"] == "dump" and d.get("st") for s_ in d["st"]["secs"] for k in s_["keys"]})
            if got != want or (good_by_os and vals != ["good"]):
                verdict.violation("C16:dotdot:%s" % rule, {"kind": "script", "script": sc, "got": got, "want": want, "values": vals, "crash": out["crash"]},
                                  "rule %s, argument <root>/cur/../usr with <root>/cur a link to <root>/real/sub (the operating system reaches the %s files, a textual clean-up of the name the %s ones): econf_readFile / econf_readDirs -> %s with values %s, expected %s%s" % (
                                      rule, "good" if good_by_os else "forbidden", "forbidden" if good_by_os else "good", got, vals, want, " with the good values only" if good_by_os else ""))
            else:
                ok += 1
    return ok


def replay(pid, path):
    print(open(path).read()[:5000])
    return 0
