"""The repository's own test programs as traces (DESIGN.md 4.4 / 12.7).

Every tests/tst-*.c of /repo's working tree (the 45 programs of the CMake suite and the ones it does not build)
is compiled against ONE pre-linked object of /repo/lib/*.c with `-Wl,--wrap=<public function>` for every public
function and linked with shim/shim.c.  Running a program writes one ndjson record per public call the TEST makes
(arguments, result, and the object's projection through the real getters after calls that create or change an
object; the files a read may consult as they are on disk right before the call).  The records are converted to
events of Trace_Econf.tla and TLC validates every program's history against the root specification Econf.tla:
parse, layered precedence, merge, write, typed access and listings are all PREDICTED from the snapshotted bytes.

The test program's own verdict (its exit code) is not used: what counts is whether the library did what the
specification says on the inputs the test happened to feed it.

A mismatch is attributed to the property whose rule the rejected event belongs to (ATTR below); a check of
property P reports only the mismatches attributed to P.  The result of one run is cached per source state."""
import glob
import hashlib
import json
import os
import shutil
import subprocess
import time

from . import core
from .core import codes

ATTR = {"readfile": "C02", "readdirs": "C01", "readconfig": "C01", "readhist": "C12", "merge": "C03", "write": "C07", "file": "C07",
        "set": "C11", "keys": "C11", "groups": "C11", "ext": "C17", "free": "C20", "newopt": "C15", "errloc": "C13", "new": "C11"}
# dump after ...: the rule that produced the object
ATTR_DUMP = {"readfile": "C02", "readdirs": "C01", "readconfig": "C01", "readhist": "C12", "merge": "C03", "set": "C11", "free": "C10", "write": "C10",
             "get": "C10", "keys": "C10", "groups": "C10", "ext": "C10"}
ATTR_GET = {"String": "C11", "Int": "C09", "Int64": "C09", "UInt": "C09", "UInt64": "C09", "Bool": "C09", "Float": "C09", "Double": "C09"}


def _hash():
    h = hashlib.sha256()
    fs = sorted(glob.glob(os.path.join(core.REPO, "tests", "*.c"))) + [os.path.join(core.VERIF, "shim", "shim.c"), os.path.join(core.VERIF, "vf", "p_suite.py"),
                                                                       os.path.join(core.SPEC, "Trace_Econf.tla"), os.path.join(core.SPEC, "Econf.tla")]
    for root, _, files in os.walk(os.path.join(core.REPO, "tests")):
        if "/_build" in root:
            continue
        fs += [os.path.join(root, f) for f in sorted(files) if not f.endswith(".c")]
    for f in sorted(set(fs)):
        h.update(f.encode())
        try:
            with open(f, "rb") as fh:
                h.update(fh.read())
        except OSError:
            pass
    h.update(core.src_hash("suite").encode())
    return h.hexdigest()[:20]


def unhex(x):
    """shim string token -> bytes (None stays None)"""
    if x is None:
        return None
    return bytes.fromhex(x[1:])


def normp(b):
    """collapse repeated slashes, drop a trailing slash (not of "/")"""
    if b is None:
        return None
    s = b.decode("latin-1")
    while "//" in s:
        s = s.replace("//", "/")
    if len(s) > 1 and s.endswith("/"):
        s = s[:-1]
    return s


def c_opt(b):
    """optional string -> <<>> / <<codes>>"""
    return [] if b is None else [codes(b)]


def lines_of(data):
    ls = data.split(b"\n")
    if ls and ls[-1] == b"":
        ls = ls[:-1]
    return [list(x) for x in ls]


def digits(numstr):
    neg = numstr.startswith("-")
    return neg and numstr.strip("-0") != "", [int(c) for c in numstr.lstrip("-")] or [0]


def opt_items(optstr):
    """tokenise an option string the way strsep(';') / strncmp do; the MEANING of the items is the specification's"""
    if not optstr:
        return []
    items = []
    for it in optstr.split(";"):
        if it in ("JOIN_SAME_ENTRIES=1", "JOIN_SAME_ENTRIES=0"):
            items.append({"name": "JOIN", "arg": int(it[-1])})
        elif it in ("PYTHON_STYLE=1", "PYTHON_STYLE=0"):
            items.append({"name": "PYTHON", "arg": int(it[-1])})
        elif it.startswith("PARSING_DIRS="):
            items.append({"name": "PDIRS", "arg": [codes(normp(x.encode("latin-1"))) for x in it[len("PARSING_DIRS="):].split(":")]})
        elif it.startswith("CONFIG_DIRS="):
            items.append({"name": "CDIRS", "arg": [codes(x) for x in it[len("CONFIG_DIRS="):].split(":")]})
        elif it.startswith("ROOT_PREFIX="):
            items.append({"name": "ROOT", "arg": codes(it[len("ROOT_PREFIX="):])})
        else:
            items.append({"name": "BAD", "arg": 0})
    return items


def convert(recs, name):
    """shim records of one program -> Trace_Econf events (+ per event: (program, index, original record))"""
    evs = [{"e": "reset"}]
    src = [None]
    last_write = None
    written, fromwritten = set(), set()
    nulpaths = set()    # files holding NUL bytes: outside the conventional grammar (C04's business), reads of them are not predicted
    nodelim = set()     # handles of objects parsed with an EMPTY delimiter set: keys only, their values are not specified (C02)

    def add(e, r):
        evs.append(e)
        src.append(r)
    for r in recs:
        k = r["e"]
        if k == "file":
            p = normp(unhex(r["path"]))
            (nulpaths.add if b"\x00" in unhex(r["data"]) else nulpaths.discard)(p)
            add({"e": "file", "path": codes(p), "lines": lines_of(unhex(r["data"])), "check": last_write == p}, r)
            last_write = None
            continue
        if k == "nofile":
            add({"e": "nofile", "path": codes(normp(unhex(r["path"])))}, r)
            continue
        if k == "dirsnap":
            add({"e": "forget", "prefix": codes(normp(unhex(r["dir"])) + "/")}, r)
            continue
        if k == "forget":
            add({"e": "forget", "prefix": codes(normp(unhex(r["prefix"])))}, r)
            continue
        last_write = None
        if k == "new":
            add({"e": "new", "h": r["h"], "d": r["d"], "c": r["c"], "rc": r["rc"]}, r)
        elif k == "newopt":
            o = unhex(r["opt"])
            add({"e": "newopt", "h": r["h"], "items": opt_items(o.decode("latin-1") if o else ""), "rc": r["rc"]}, r)
        elif k in ("readfile", "readdirs", "readconfig", "readhist") and r.get("delim") is None:
            add({"e": "refused", "rc": r["rc"]}, r)       # no delimiter set at all: refused
        elif k == "readfile" and normp(unhex(r["path"])) in nulpaths:
            add({"e": "readopaque", "h": r["h"], "rc": r["rc"]}, r)
        elif k in ("readdirs", "readhist", "readconfig") and nulpaths:
            add({"e": "readopaque", "h": r.get("h", 0), "rc": r["rc"]}, r)
        elif k == "readfile":
            p = unhex(r["path"])
            (nodelim.add if unhex(r["delim"]) == b"" else nodelim.discard)(r["h"])
            # an object read from a file that econf_writeFile produced: its line numbers depend on the writer's layout
            (fromwritten.add if (p is not None and normp(p) in written) else fromwritten.discard)(r["h"])
            add({"e": "readfile", "h": r["h"], "cb": r["cb"], "path": codes(normp(p)) if p is not None else [], "delim": codes(unhex(r["delim"]) or b""),
                 "comment": codes(unhex(r["comment"]) or b""), "rc": r["rc"]}, r)
        elif k in ("readdirs", "readhist"):
            if k == "readhist" and "usr" not in r:
                add({"e": "opaque", "h": 0}, r)
                continue
            dirs = [codes(normp(unhex(r[x])) if r[x] is not None else "") for x in ("usr", "etc")]
            e = {"e": k, "dirs": dirs, "name": codes(unhex(r["name"]) or b""), "sfx": codes(unhex(r["sfx"]) or b""),
                 "delim": codes(unhex(r["delim"]) or b""), "comment": codes(unhex(r["comment"]) or b""), "rc": r["rc"]}
            if k == "readdirs":
                (nodelim.add if unhex(r["delim"]) == b"" else nodelim.discard)(r["h"])
                e.update({"h": r["h"], "cb": r["cb"], "python": False, "join": False})
            else:
                e.update({"hs": r["hs"], "cb": r.get("cb", False)})
            add(e, r)
        elif k == "readconfig":
            (nodelim.add if unhex(r["delim"]) == b"" else nodelim.discard)(r["h"])
            add({"e": "readconfig", "h": r["h"], "hin": r["hin"], "cb": r["cb"], "project": c_opt(unhex(r["project"])),
                 "usr": c_opt(normp(unhex(r["usr"])).encode("latin-1") if r["usr"] is not None else None),
                 "name": c_opt(unhex(r["name"])), "sfx": codes(unhex(r["sfx"]) or b""), "delim": codes(unhex(r["delim"]) or b""),
                 "comment": codes(unhex(r["comment"]) or b""), "rc": r["rc"]}, r)
        elif k == "merge":
            (nodelim.add if (r["a"] in nodelim or r["b"] in nodelim) else nodelim.discard)(r["h"])
            add({"e": "merge", "h": r["h"], "a": r["a"], "b": r["b"], "rc": r["rc"]}, r)
        elif k == "write":
            p = normp(unhex(r["path"]))
            add({"e": "write", "h": r["h"], "path": codes(p), "rc": r["rc"], "dir_ok": r["dir_ok"]}, r)
            # (objects parsed with an empty delimiter set: values unspecified, so are the bytes written for them)
            last_write = p if (r["rc"] == "ECONF_SUCCESS" and r["h"] not in nodelim) else None
            if r["rc"] == "ECONF_SUCCESS":
                written.add(p)
        elif k == "settag":
            add({"e": "settag", "h": r["h"], "which": r["which"], "tag": r["tag"]}, r)
        elif k in ("keys", "groups", "get") and r.get("rnull"):
            add({"e": "refused", "rc": r["rc"]}, r)       # no place for the result: refused
        elif k in ("keys", "groups"):
            e = {"e": k, "h": r["h"], "rc": r["rc"], "out": [codes(unhex(x)) for x in r["out"]]}
            if k == "keys":
                e["g"] = c_opt(unhex(r["g"]))
            add(e, r)
        elif k == "get":
            e = {"e": "get", "T": r["T"], "h": r["h"], "g": c_opt(unhex(r["g"])), "k": c_opt(unhex(r["k"])), "rc": r["rc"], "isdef": bool(r.get("isdef")),
                 "out": [], "neg": False, "mag": [0], "mag8": [0], "mag16": [0], "bool": False}
            if r["T"] == "String":
                e["out"] = c_opt(unhex(r.get("out")))
            elif r["T"] in ("Int", "Int64", "UInt", "UInt64") and r.get("num") is not None:
                e["neg"], e["mag"] = digits(r["num"])
                v = abs(int(r["num"]))
                e["mag8"], e["mag16"] = [int(c, 8) for c in "%o" % v], [int(c, 16) for c in "%x" % v]     # the same number written in the literal's base
            elif r["T"] == "Bool" and r.get("num") is not None:
                e["bool"] = r["num"] == "1"
            add(e, r)
        elif k == "set":
            e = {"e": "set", "T": r["T"], "h": r["h"], "g": c_opt(unhex(r["g"])), "k": c_opt(unhex(r["k"])), "rc": r["rc"], "v": [], "neg": False, "mag": [0]}
            if r["T"] in ("String", "Bool"):
                e["v"] = c_opt(unhex(r.get("v")))
            elif r["T"] in ("Int", "Int64", "UInt", "UInt64"):
                e["neg"], e["mag"] = digits(r["num"])
            add(e, r)
        elif k == "dump":
            nov = r["h"] in nodelim
            ents = [{"g": codes(unhex(x["g"]) or b""), "k": codes(unhex(x["k"])), "v": [] if nov else codes(unhex(x["v"]) or b""), "cb": [], "ca": []} for x in r["ents"]]
            add({"e": "dump", "h": r["h"], "isnull": False, "cmp_comments": False, "cmp_path": False, "cmp_values": not nov, "path": [],
                 "st": {"groups": [codes(unhex(g)) for g in r["groups"]], "ents": ents}}, r)
        elif k == "free":
            add({"e": "free", "h": r["h"], "ret_null": r["ret_null"]}, r)
        elif k == "errloc":
            f = unhex(r["file"])
            add({"e": "errloc", "file": codes(normp(f)) if f else [], "line": r["line"]}, r)
        elif k == "setconfdirs":
            add({"e": "setconfdirs", "dirs": [codes(unhex(x)) for x in r["dirs"]]}, r)
        elif k == "secflag":
            add({"e": "secflag"}, r)
        elif k == "secreset":
            add({"e": "secreset"}, r)
        elif k == "ext":
            f = unhex(r.get("file"))
            add({"e": "ext", "h": r["h"], "g": c_opt(unhex(r["g"])), "k": c_opt(unhex(r["k"])), "rc": r["rc"], "line": r.get("line", 0),
                 "file": codes(normp(f)) if f else [], "cmp_path": False, "cmp_layout": r["h"] not in fromwritten, "cb": codes(unhex(r.get("cb")) or b""), "ca": codes(unhex(r.get("ca")) or b""),
                 "vals": [codes(unhex(x)) for x in r.get("vals", []) if unhex(x)]}, r)
        else:
            add({"e": "opaque", "h": r.get("h", 0)}, r)
    return evs, src


def build_and_run():
    """returns {"programs": n, "events": n, "mismatches": [{prog, kind, prop, event, spec, before}], "skipped": [...]} (cached)"""
    hsh = _hash()
    cdir = os.path.join(core.CACHE, "suite-" + hsh)
    resf = os.path.join(cdir, "result.json")
    if os.path.exists(resf):
        with open(resf) as f:
            return json.load(f)
    t0 = time.time()
    work = os.path.join(core.scratch(), "suite")
    shutil.rmtree(work, ignore_errors=True)
    os.makedirs(os.path.join(work, "o"))
    os.makedirs(os.path.join(work, "tr"))
    # the tests write into their data directories: work on a copy
    shutil.copytree(os.path.join(core.REPO, "tests"), os.path.join(work, "tests"), symlinks=True, ignore=shutil.ignore_patterns("_build"))
    inc = ["-I" + os.path.join(core.REPO, "include"), "-I" + os.path.join(core.REPO, "lib")]
    objs = []
    for src in sorted(glob.glob(os.path.join(core.REPO, "lib", "*.c"))):
        o = os.path.join(work, "o", os.path.basename(src)[:-2] + ".o")
        p = subprocess.run(["gcc", "-g", "-O1", "-w", "-D_GNU_SOURCE"] + inc + ["-c", src, "-o", o], capture_output=True, text=True)
        if p.returncode:
            raise core.ToolFailure("suite shim: cannot compile %s\n%s" % (src, p.stderr[-2000:]))
        objs.append(o)
    allo = os.path.join(work, "econf_all.o")
    p = subprocess.run(["gcc", "-r", "-nostdlib", "-o", allo] + objs, capture_output=True, text=True)
    if p.returncode:
        raise core.ToolFailure("suite shim: pre-link failed\n" + p.stderr[-2000:])
    shimo = os.path.join(work, "shim.o")
    p = subprocess.run(["gcc", "-g", "-O1", "-w"] + inc + ["-c", os.path.join(core.VERIF, "shim", "shim.c"), "-o", shimo], capture_output=True, text=True)
    if p.returncode:
        raise core.ToolFailure("suite shim: cannot compile shim.c (public API changed?)\n" + p.stderr[-3000:])
    nm = subprocess.run(["nm", shimo], capture_output=True, text=True).stdout
    wraps = ["-Wl,--wrap=" + l.split()[2][len("__wrap_"):] for l in nm.splitlines() if len(l.split()) == 3 and l.split()[1] == "T" and l.split()[2].startswith("__wrap_")]
    tdir = os.path.join(work, "tests") + "/"
    progs = []
    skipped = []
    for src in sorted(glob.glob(os.path.join(work, "tests", "tst-*.c"))):
        n = os.path.basename(src)[:-2]
        variants = [(n, [])]
        if n == "tst-getconfdirs1":
            variants = [(n, ['-DSUFFIX=".conf"']), ("tst-getconfdirs2", ['-DSUFFIX="conf"'])]
        elif n in ("tst-getconfdirs8", "tst-getconfdirs9"):
            variants = [(n, ['-DSUFFIX="conf"'])]
        for vn, extra in variants:
            exe = os.path.join(work, "bin-" + vn)
            p = subprocess.run(["gcc", "-g", "-O1", "-w", "-I" + os.path.join(core.REPO, "include"), '-DTESTSDIR="%s"' % tdir] + extra + [src, shimo, allo] + wraps + ["-o", exe],
                               capture_output=True, text=True)
            if p.returncode:
                skipped.append({"program": vn, "why": "does not compile: " + p.stderr.strip().splitlines()[-1][:200] if p.stderr.strip() else "does not compile"})
                continue
            progs.append((vn, exe))
    events = []
    meta = []        # per event: (program, record)
    nprog = 0
    for vn, exe in progs:
        tr = os.path.join(work, "tr", vn + ".ndjson")
        env = dict(os.environ, ECONF_TRACE=tr)
        try:
            p = subprocess.run([exe], cwd=work, env=env, capture_output=True, timeout=120)
            rc = p.returncode
        except subprocess.TimeoutExpired:
            rc = -1
        if rc < 0:
            skipped.append({"program": vn, "why": "killed by a signal / timeout (%s): its trace up to there is still validated" % rc})
        recs = []
        if os.path.exists(tr):
            with open(tr) as f:
                for ln in f:
                    try:
                        recs.append(json.loads(ln))
                    except ValueError:
                        break
        if not recs:
            continue
        evs, src = convert(recs, vn)
        events += evs
        meta += [(vn, s) for s in src]
        nprog += 1
    # how much of it is predicted (not vacuous): calls per kind, and dumps of objects the specification still predicts
    kinds = {}
    opq = set()
    sec = False
    predicted_dumps = 0
    for e in events:
        kinds[e["e"]] = kinds.get(e["e"], 0) + 1
        k = e["e"]
        if k == "reset":
            opq = set(); sec = False
        elif k == "secflag":
            sec = True
        elif k == "secreset":
            sec = False
        elif k in ("readopaque", "opaque"):
            opq.add(e.get("h", 0))
        elif k in ("readfile", "readdirs", "readconfig", "new", "newopt"):
            (opq.add if (sec and k.startswith("read")) else opq.discard)(e.get("h", 0))
        elif k == "merge":
            (opq.add if (e["a"] in opq or e["b"] in opq) else opq.discard)(e["h"])
        elif k == "set" and e.get("T") in ("Float", "Double"):
            opq.add(e["h"])
        elif k == "dump" and e["h"] not in opq:
            predicted_dumps += 1
    res = {"programs": nprog, "events": len(events), "mismatches": [], "skipped": skipped, "built": len(progs), "kinds": kinds, "predicted_dumps": predicted_dumps}
    if events:
        ok, tr, _ = core.validate_trace("Trace_Econf", os.path.join(core.SPEC, "Trace_Econf.cfg"), events, timeout=1800)
        mism = [x for x in tr.json_lines() if "mismatch" in x]
        if not ok and not mism:
            raise core.ToolFailure("Trace_Econf did not consume the suite trace:\n" + tr.out[-2500:])
        for x in mism:
            j = x["mismatch"] - 1
            prog, rec = meta[j]
            ev = events[j]
            kind = ev["e"]
            # the call before a dump decides whose rule the dumped object is
            prev = None
            if kind == "dump":
                i = j - 1
                while i >= 0 and events[i]["e"] in ("dump", "file", "nofile", "forget"):
                    i -= 1
                prev = events[i]["e"] if i >= 0 and meta[i][0] == prog else None
                prop = ATTR_DUMP.get(prev, "C11")
            elif kind == "get":
                prop = ATTR_GET.get(ev.get("T", "String"), "C11")
            else:
                prop = ATTR.get(kind, "C11")
            before = [meta[i][1] for i in range(max(0, j - 6), j) if meta[i][0] == prog and meta[i][1] is not None and meta[i][1].get("e") not in ("file",)]
            res["mismatches"].append({"program": prog, "kind": kind, "after": prev, "property": prop, "record": rec, "spec": x.get("spec"), "before": before[-4:]})
    os.makedirs(cdir, exist_ok=True)
    with open(resf + ".tmp", "w") as f:
        json.dump(res, f)
    os.replace(resf + ".tmp", resf)
    core.log("[suite] %d programs, %d events, %d mismatches in %.1fs" % (nprog, len(events), len(res["mismatches"]), time.time() - t0))
    return res


def dec(x):
    """shim record with hex strings decoded, for messages"""
    if isinstance(x, dict):
        return {k: dec(v) for k, v in x.items()}
    if isinstance(x, list):
        return [dec(v) for v in x]
    if isinstance(x, str) and x.startswith("x") and len(x) % 2 == 1 and all(c in "0123456789abcdef" for c in x[1:]):
        try:
            return bytes.fromhex(x[1:]).decode("latin-1")
        except ValueError:
            return x
    return x


def report(pid, verdict):
    """run (or reuse) the suite traces and report the mismatches attributed to property pid. Returns coverage numbers."""
    res = build_and_run()
    mine = [m for m in res["mismatches"] if m["property"] == pid]
    for m in mine[:10]:
        verdict.violation("%s:suite:%s:%s" % (pid, m["program"], m["kind"] + ("-after-" + m["after"] if m.get("after") else "")),
                          {"kind": "suite-trace", "program": m["program"], "record": m["record"], "spec": m["spec"], "before": m["before"]},
                          "repository test program %s under the trace shim: the %s event%s is not a behaviour of the root specification\nrecorded: %s\nspecification expects: %s\nprevious calls: %s" % (
                              m["program"], m["kind"], (" after " + m["after"]) if m.get("after") else "", json.dumps(dec(m["record"]))[:700],
                              core.canon(m["spec"])[:700], json.dumps(dec(m["before"]))[:900]))
    return {"suite_programs": res["programs"], "suite_events": res["events"], "suite_mismatches_this_property": len(mine),
            "calls_by_kind": res.get("kinds", {}), "object_dumps_predicted_in_full": res.get("predicted_dumps", 0)}
