"""C18 — threads working on private objects do not disturb each other.
M  MC_Threads: call-level interleavings of N threads on private objects; Isolation invariant;
   negative control (shared static buffer) must violate it.
F  every interleaving TLC finds (exported as a schedule) is replayed deterministically on real
   threads (hand-over between calls); each thread's results are compared with a serial run and with
   the model's values.
B  free-running stress: 2..16 threads with random API programs on private objects and files; each
   thread's recorded trace is validated independently by Trace_KeyFile.tla (sequential
   specification) and compared with a serial run; the same programs under ThreadSanitizer: a
   reported race is a violation unless its location is one of the data symbols referenced by the
   machine code of econf_errLocation (derived from the binary, not a list of names)."""
import json
import os
import random
import re
import subprocess
import time

from . import core
from .core import hx, codes, ROOT
from . import p_keyfile
from .p_parser import write_cfg


def prog_script(t, proglen, root, cbprog=False):
    """script of model thread t (MC_Threads!Op)"""
    s = []
    f = "%s/thr%d.conf" % (root, t)
    for i in range(1, proglen + 1):
        if cbprog:
            if i == 1:
                s.append("readfilecby 1 %s x3d x23" % hx(f))       # the callback hands the turn over: two schedule slots
            elif i == 2:
                s.append("ext 1 - %s" % hx("f"))
            elif i == 3:
                s.append("set String 1 %s %s %s" % (hx("A"), hx("x"), hx("v%d%d" % (t, i))))
            elif i == 4:
                s.append("get String 1 %s %s" % (hx("A"), hx("x")))
            else:
                s.append("keys 1 %s" % hx("A"))
            continue
        if i == 1:
            s.append("readfile 1 %s x3d x23" % hx(f))
        elif i == 2:
            s.append("set String 1 %s %s %s" % (hx("A"), hx("x"), hx("v%d%d" % (t, i))))
        elif i == 3:
            s.append("get String 1 %s %s" % (hx("A"), hx("x")))
        elif i == 4:
            s.append("set String 1 - %s %s" % (hx("y"), hx("v%d%d" % (t, i))))
        elif i == 5:
            s.append("get String 1 - %s" % hx("y"))
        else:
            s.append("keys 1 %s" % hx("A"))
    return s, f


def model_result(t, i, cbprog=False):
    if cbprog:
        return {2: 2 * t + 1, 4: "v%d3" % t}.get(i)
    if i == 3:
        return "v%d2" % t
    if i == 5:
        return "v%d4" % t
    return None


def strip_volatile(evs):
    out = []
    for e in evs:
        e = dict(e)
        e.pop("bytes", None)
        out.append(e)
    return out


def replay_schedules(exe, scheds, nthreads, proglen, verdict, cbprog=False):
    cases = []
    for ci, sc in enumerate(scheds):
        R = ROOT + "/sch%d" % (ci % 16)
        lines = ["rm %s" % hx(R)]
        files = []
        for t in range(1, nthreads + 1):
            ps, f = prog_script(t, proglen, R, cbprog)
            lines.append("file %s %s" % (hx(f), hx(("# c\n" * (2 * t) if cbprog else "") + "f=v%d0\n" % t)))
            # every thread script ends by freeing its object (not part of the schedule: runs after the last turn)
            sf = "%s/t%d.script" % (R, t)
            lines.append("file %s %s" % (hx(sf), hx("\n".join(ps) + "\n")))
            files.append(sf)
        sched = "".join(str(t - 1) for t in sc)
        lines.append("threads %d %s %s" % (nthreads, hx(sched), " ".join(hx(f) for f in files)))
        for f in files:
            lines.append("cat %s" % hx(f + ".out"))
        cases.append((ci, lines))
    res = core.run_cases(exe, cases, per_case_timeout=60)
    ok = 0
    for ci, sc in enumerate(scheds):
        out = res.get(ci)
        if out is None or out["crash"]:
            verdict.violation("C18:schedule:crash", {"kind": "schedule", "sched": sc, "crash": (out or {}).get("crash")}, "scheduled threads crashed / hung (schedule %s)\n%s" % (sc, (out or {}).get("crash", "")[:800]))
            continue
        cats = [e for e in out["ev"] if e["op"] == "cat"]
        bad = None
        for t, c in enumerate(cats, start=1):
            evs = [json.loads(l) for l in (c["data"] or "").splitlines() if l.startswith("{")]
            if len(evs) != proglen:
                bad = "thread %d produced %d results for %d calls" % (t, len(evs), proglen)
                break
            for i, e in enumerate(evs, start=1):
                if e.get("rc") != "ECONF_SUCCESS":
                    bad = "thread %d call %d returned %s" % (t, i, e.get("rc"))
                want = model_result(t, i, cbprog)
                got = e.get("line") if e.get("op") == "ext" else e.get("out")
                if want is not None and got != want:
                    bad = "thread %d call %d (%s) returned %r, alone it returns %r" % (t, i, e.get("op"), got, want)
                if i == proglen and e.get("op") == "keys" and e.get("out") != ["x"]:
                    bad = "thread %d listing returned %r" % (t, e.get("out"))
            if bad:
                break
        if bad:
            verdict.violation("C18:schedule:result", {"kind": "schedule", "sched": sc, "problem": bad}, "call-level interleaving %s: %s" % ("".join(map(str, sc)), bad))
        else:
            ok += 1
    return ok


def allowed_globals(binary):
    """data symbols referenced by the machine code of econf_errLocation and its direct callee last_scanned_file"""
    syms = set()
    try:
        nm = subprocess.run(["nm", binary], capture_output=True, text=True, timeout=60).stdout
        data = {l.split()[2] for l in nm.splitlines() if len(l.split()) == 3 and l.split()[1] in "bBdD"}
        for fn in ("econf_errLocation", "last_scanned_file"):
            d = subprocess.run(["objdump", "-d", "--no-show-raw-insn", "--disassemble=" + fn, binary], capture_output=True, text=True, timeout=60).stdout
            for m in re.finditer(r"<([A-Za-z_][A-Za-z0-9_.]*)(?:\+0x[0-9a-f]+)?>", d):
                if m.group(1) in data:
                    syms.add(m.group(1))
    except Exception:
        pass
    return syms


def stress(exe, tsan, rnd, nthreads, nops, verdict, label, perms=False):
    """random private programs; returns (n_threads_ok, n_calls).
    perms: the main thread puts a process-wide restriction in force BEFORE the threads start (a documented global setter,
    not called by the workers) which every file and directory of the run satisfies: all reads take the checking paths."""
    R = ROOT + "/st"
    hists = []
    for t in range(nthreads):
        h = p_keyfile.random_history(rnd, "t%d" % t, nops)
        h.root = R + "/priv%d" % t
        # rebuild the script with the private root (random_history fixed the root at construction)
        hists.append(h)
    # random_history computes paths from self.root at call time -> regenerate with roots set first
    hists = []
    for t in range(nthreads):
        h = p_keyfile.Hist(rnd, "t%d" % t)
        h.root = R + "/priv%d" % t
        h.new(1)
        for _ in range(nops):
            live = sorted(h.live)
            tgt = rnd.choice(live) if live else 0
            x = rnd.random()
            if x < 0.45:
                h.setter(tgt)
            elif x < 0.7:
                h.getter(tgt, p_keyfile.TYPES)
            elif x < 0.8:
                h.listing(tgt)
            elif x < 0.93 and tgt:
                h.other_query(tgt)
            elif len(h.live) < 3:
                h.new(max(h.live | {0}) + 1)
        for x in sorted(h.live):
            h.dump(x)
        for x in sorted(h.live):
            h.free(x)
        # layered reads of a PRIVATE tree, every thread with its own name, suffix, delimiter and comment character
        sfx = ["conf", "cfg", "ini", "rc", "list", "txt", "d", "opts"][t % 8]
        name = "n%d" % t
        tr = h.root + "/tree"
        dl, cm = [("=", "#"), (":", ";"), (" ", "#"), ("=", ";")][t % 4]
        reads = ["readdirs 40 %s %s %s %s %s %s" % (hx(tr + "/usr/etc"), hx(tr + "/etc"), hx(name), hx(sfx), hx(dl), hx(cm)), "dump 40", "free 40",
                 "newopt 41 %s" % hx("PARSING_DIRS=%s/usr/etc:%s/etc" % (tr, tr)),
                 "readconfig 41 - - %s %s %s %s" % (hx(name), hx(sfx), hx(dl), hx(cm)), "dump 41", "free 41",
                 # drop-ins without main configuration file (<project>.d below the thread's own root prefix)
                 "newopt 42 %s" % hx("ROOT_PREFIX=" + tr),
                 "readconfig 42 %s %s - %s %s %s" % (hx(name), hx("/usr/etc"), hx(sfx), hx(dl), hx(cm)), "dump 42", "free 42",
                 # reads that FAIL, each in its own way (a link to nowhere: found but not to be opened; no such file; a malformed
                 # line; a directory in the file's place): what a failing read leaves behind must not disturb the other threads
                 "readfile 43 %s %s %s" % (hx(tr + "/dangling." + sfx), hx(dl), hx(cm)), "free 43",
                 "readfile 44 %s %s %s" % (hx(tr + "/none." + sfx), hx(dl), hx(cm)), "free 44",
                 "readfile 45 %s %s %s" % (hx(tr + "/bad." + sfx), hx(dl), hx(cm)), "free 45",
                 "readfile 46 %s %s %s" % (hx(tr + "/usr"), hx(dl), hx(cm)), "free 46",
                 # a layered read whose last drop-in the thread's own callback refuses; the callback opens a descriptor of its own
                 # at every call and keeps it: afterwards they are all still open, and no descriptor that was not open was closed
                 # (a descriptor released twice closes what ANOTHER thread opened in between)
                 "cbreset", "cbrejectpath %s" % hx("%s/etc/%s.%s.d/b.%s" % (tr, name, sfx, sfx)), "cbopenfd 1",
                 "readdirscb 47 %s %s %s %s %s %s" % (hx(tr + "/usr/etc"), hx(tr + "/etc"), hx(name), hx(sfx), hx(dl), hx(cm)), "fdcheck", "cbopenfd 0", "free 47", "cbreset",
                 # a write that fails half way (more text than one stdio buffer, into a device that takes nothing): it answers with
                 # a code and leaves no descriptor behind (the process' descriptors are counted before and after all threads)
                 "newkf 48 x3d x23", "set String 48 - %s %s" % (hx("big"), hx("v" * 9000)), "write 48 %s %s" % (hx(tr), hx("full." + sfx)), "free 48"]
        for _ in range(3):
            pos = rnd.randrange(1, max(2, len(h.script) - len(h.live) - 1))
            h.script[pos:pos] = reads
            h.plan[pos:pos] = [None] * len(reads)
        if t % 4 == 0:
            # a write that stays inside the opening of its file for a while (the name is a pipe nobody reads from yet): whatever
            # the library changes process-wide around that moment is met by the other threads' calls - the permission bits of the
            # files THEY write belong to their results
            for _ in range(2):
                pos = rnd.randrange(1, max(2, len(h.script) // 2))
                h.script[pos:pos] = ["writeslow 1 %s %s" % (hx(R + "/shared"), hx("pipe%d.conf" % t))]
                h.plan[pos:pos] = [None]
        # every thread also writes files of its own into ONE directory all threads use (the files are private, the directory is not)
        for j in range(3):
            pos = rnd.randrange(1, max(2, len(h.script) - len(h.live) - 1))
            h.script[pos:pos] = ["write 1 %s %s" % (hx(R + "/shared"), hx("t%d-%d.conf" % (t, j)))]
            h.plan[pos:pos] = [None]
        h.tree = (tr, name, sfx, dl, cm, t)
        hists.append(h)

    def script_for(mode):
        lines = ["rm %s" % hx(R), "mkdir %s" % hx(R + "/shared")]
        for h in hists:
            tr, name, sfx, dl, cm, t = h.tree
            lines.append("file %s %s" % (hx("%s/usr/etc/%s.%s" % (tr, name, sfx)), hx("K%sv%d\nV%susr\n" % (dl, t, dl))))
            lines.append("file %s %s" % (hx("%s/usr/etc/%s.%s.d/a.%s" % (tr, name, sfx, sfx)), hx("A%sa%d\n" % (dl, t))))
            lines.append("file %s %s" % (hx("%s/etc/%s.%s.d/b.%s" % (tr, name, sfx, sfx)), hx("%c c\nB%sb%d\nK%setc%d\n" % (cm, dl, t, dl, t))))
            lines.append("file %s %s" % (hx("%s/etc/%s.d/p.%s" % (tr, name, sfx)), hx("P%sp%d\n" % (dl, t))))
            lines.append("file %s %s" % (hx("%s/usr/etc/%s.d/q.%s" % (tr, name, sfx)), hx("Q%sq%d\nP%susr\n" % (dl, t, dl))))
            lines.append("symlink %s %s" % (hx(tr + "/no/such/target"), hx("%s/dangling.%s" % (tr, sfx))))
            lines.append("file %s %s" % (hx("%s/bad.%s" % (tr, sfx)), hx("A%s1\n[broken\nB%s2\n" % (dl, dl))))
            lines.append("symlink %s %s" % (hx("/dev/full"), hx("%s/full.%s" % (tr, sfx))))
        files = []
        for t, h in enumerate(hists):
            sf = "%s/p%d.script" % (R, t)
            lines.append("file %s %s" % (hx(sf), hx("\n".join(h.script) + "\n")))
            files.append(sf)
        if perms:
            lines.append("requireperms 444 555")
        lines.append("fdcount")
        if mode == "parallel":
            lines.append("threads %d x %s" % (nthreads, " ".join(hx(f) for f in files)))
        else:
            for f in files:
                lines.append("threads 1 x %s" % hx(f))
        lines.append("fdcount")
        if perms:
            lines.append("resetsec")
        for f in files:
            lines.append("cat %s" % hx(f + ".out"))
        return lines
    res = core.run_cases(exe, [("ser", script_for("serial")), ("par", script_for("parallel"))], jobs=1, per_case_timeout=300)
    outs = {}
    for mode in ("ser", "par"):
        o = res.get(mode)
        if o is None or o["crash"]:
            verdict.violation("C18:stress:crash:%s" % mode, {"kind": "stress", "threads": nthreads, "crash": (o or {}).get("crash")}, "%s run of %d threads crashed\n%s" % (mode, nthreads, (o or {}).get("crash", "")[:900]))
            return 0, 0
        outs[mode] = [[json.loads(l) for l in (c["data"] or "").splitlines() if l.startswith("{")] for c in o["ev"] if c["op"] == "cat"]
        fdn = [e["n"] for e in o["ev"] if e["op"] == "fdcount"]
        if len(fdn) == 2 and fdn[1] > fdn[0]:
            verdict.violation("C18:stress:descriptors-left", {"kind": "stress", "threads": nthreads, "mode": mode, "before": fdn[0], "after": fdn[1]},
                              "%s run of %d threads: %d descriptors are open afterwards, %d before (every object was released; a failing call must not keep a file open - the descriptors of a process are shared by its threads)" % (mode, nthreads, fdn[1], fdn[0]))
    ok = 0
    ncalls = 0
    events = []
    spans = []
    for t, h in enumerate(hists):
        a, b = strip_volatile(outs["ser"][t]), strip_volatile(outs["par"][t])
        ncalls += len(b)
        badfd = [e for e in outs["ser"][t] + outs["par"][t] if e.get("op") == "fdcheck" and e.get("bad")]
        if badfd:
            verdict.violation("C18:stress:descriptor", {"kind": "stress", "threads": nthreads, "thread": t, "event": badfd[0], "script": h.script},
                              "%d threads: after a layered read that thread %d's callback refused, %d descriptor(s) were closed that the library did not own or that were not open" % (nthreads, t, badfd[0]["bad"]))
            continue
        if a != b:
            j = next((k for k in range(min(len(a), len(b))) if a[k] != b[k]), min(len(a), len(b)))
            verdict.violation("C18:stress:differs", {"kind": "stress", "threads": nthreads, "thread": t, "call": j, "serial": a[j:j + 1], "parallel": b[j:j + 1], "script": h.script},
                              "%d threads: thread %d, call %d gives %s when run concurrently and %s when run alone" % (nthreads, t, j, json.dumps(b[j:j + 1])[:300], json.dumps(a[j:j + 1])[:300]))
            continue
        evs = h.events(outs["par"][t])
        spans.append((len(events), len(events) + len(evs), t))
        events += evs
        ok += 1
    if events:
        okk, tr, _ = core.validate_trace("Trace_KeyFile", os.path.join(core.SPEC, "Trace_KeyFile.cfg"), events, timeout=1200)
        mism = [x for x in tr.json_lines() if "mismatch" in x]
        if not okk and not mism:
            raise core.ToolFailure("Trace_KeyFile did not consume a thread trace:\n" + tr.out[-2000:])
        for x in mism[:10]:
            j = x["mismatch"] - 1
            verdict.violation("C18:stress:trace", {"kind": "stress", "event": events[j], "spec": x.get("spec")}, "per-thread trace rejected by the sequential specification: %s" % json.dumps(events[j])[:400])
            ok -= 1
    # ThreadSanitizer on the same programs
    if tsan:
        e = dict(os.environ)
        e.update(core.ASAN_ENV)
        e["DRV_ROOT"] = os.path.join(core.scratch(), "tsan")
        e["TSAN_OPTIONS"] = "halt_on_error=0:report_signal_unsafe=0:exitcode=0:history_size=4"
        text = "\n".join(["case tsan"] + script_for("parallel") + ["end"]) + "\n"
        p = subprocess.run([tsan], input=text.encode("latin-1"), capture_output=True, env=e, timeout=900)
        err = p.stderr.decode("latin-1", "replace")
        allow = allowed_globals(tsan)
        for rep in err.split("=================="):
            if "ThreadSanitizer: data race" not in rep:
                continue
            m = re.search(r"Location is global '([^']+)'", rep)
            loc = m.group(1) if m else None
            inlib = "/repo/lib/" in rep or "/lib/" in rep
            if loc and loc in allow:
                continue
            if not inlib:
                raise core.ToolFailure("ThreadSanitizer reports a race inside the driver itself:\n" + rep[:1500])
            fn = re.search(r"#0 (\S+) ", rep)
            verdict.violation("C18:tsan:%s" % (loc or (fn.group(1) if fn else "?")), {"kind": "tsan", "report": rep[:3000], "allowed": sorted(allow)},
                              "ThreadSanitizer: unsynchronised access to %s (allowed: %s)\n%s" % (loc or "heap/stack memory", sorted(allow), rep[:1200]))
    return ok, ncalls


def check(pid, tier, seed):
    t0 = time.time()
    exe = core.build("asan")
    verdict = core.Verdict(pid)
    rnd = random.Random(seed)

    def cfg(n, pl, shared, exp, cbprog=False):
        return "SPECIFICATION Spec\nCHECK_DEADLOCK FALSE\nINVARIANT Isolation\nCONSTRAINT ExportCase\nCONSTANTS\n NThreads = %d\n ProgLen = %d\n SharedBuffer = %s\n Export = %s\n CbProg = %s\n" % (
            n, pl, "TRUE" if shared else "FALSE", "TRUE" if exp else "FALSE", "TRUE" if cbprog else "FALSE")
    neg = core.tlc_ok("MC_Threads", write_cfg(cfg(2, 4, True, False)), workers=4, timeout=600)
    if not neg.violated:
        raise core.ToolFailure("negative control: MC_Threads with a shared static buffer does NOT violate Isolation (vacuous model)")
    states = 0
    nsched = 0
    okf = 0
    for n, pl, cbprog in ((2, 5, False), (3, 3, False), (2, 4, True), (3, 2, True)):
        r = core.tlc_ok("MC_Threads", write_cfg(cfg(n, pl, False, True, cbprog)), workers=8, timeout=1200)
        if r.violated:
            verdict.violation("C18:model", {"tlc": r.out[-3000:]}, "TLC: Isolation violated in the model\n" + r.out[-1500:])
        states += r.distinct
        scheds = sorted(x["sched"] for x in r.json_lines())
        if tier == "quick" and len(scheds) > 400:
            scheds = rnd.sample(scheds, 400)
        nsched += len(scheds)
        okf += replay_schedules(exe, scheds, n, pl, verdict, cbprog)
    tsan = None
    try:
        tsan = core.build("tsan")
    except core.ToolFailure as e:
        core.log("tsan build not available: %s" % e)
    oks = 0
    ncalls = 0
    nthr = 0
    rounds = [(2, 40), (4, 40), (8, 30), (16, 25)] if tier == "quick" else [(2, 60), (3, 60), (4, 60), (8, 60), (12, 50), (16, 50)] * 4
    for ri, (n, nops) in enumerate(rounds):
        o, c = stress(exe, tsan, rnd, n, nops, verdict, "stress", perms=(ri % 2 == 1))
        oks += o
        ncalls += c
        nthr += n
    rc = verdict.finish()
    cov = {"states": states, "transitions": states, "traces_validated_against_impl": okf + oks,
           "evaluations": nsched + nthr, "distinct_nontrivial": sum(1 for _ in range(nsched)) + sum(n for n, _ in rounds if n >= 4),
           "rule": "MC_Threads: all call-level interleavings of 2 threads x 5 calls and 3 threads x 3 calls on private objects (Isolation holds; the negative control with a shared static buffer violates it), and of 2 threads x 4 calls / 3 threads x 2 calls whose read goes through a callback entry point modelled as TWO steps (up to the callback, after it: the other threads' reads happen inside this read; the line number of the entry read is part of the results); %d interleavings exported as schedules and replayed deterministically on real threads with hand-over between calls and inside the callback, per-thread results compared with the model; stress: %s threads with random programs (setters/getters of all types, listings, ext getter, write, merge, reads of private files and private trees through econf_readDirs, econf_readConfig with PARSING_DIRS and the drop-ins-only form of econf_readConfig, and reads that fail - a link to nowhere, a missing file, a malformed file, a directory; every thread writes files of its own into one directory that all threads use; every fourth thread also writes twice to a pipe there that nobody reads from yet, so that the call stays inside the opening of its file for 0.3 s while the others go on - the permission bits of every written file are part of the result) run concurrently and alone, results compared call by call (every second round with econf_requirePermissions in force, set by the main thread before the workers start and satisfied by every file, so that all reads take the checking paths), each thread's trace validated by the sequential specification Trace_KeyFile; the same programs under ThreadSanitizer (races are violations unless located in a data symbol referenced by econf_errLocation: %s). non-trivial = interleaving in which threads alternate / stress with >= 4 threads." % (
               nsched, "/".join(str(n) for n, _ in rounds[:6]), "derived from the binary"),
           "samples": [{"schedule": "0101010101", "threads": 2}], "exhaustive": False, "stress_calls": ncalls,
           "trusted_base": ["TLC 1.8.0", "gcc ASan/UBSan", "clang ThreadSanitizer", "drv.c threads command"]}
    core.write_evidence(pid, tier, seed, "model_checking", cov,
                        ["real schedules are sampled, not enumerated; what is enumerated are call-level interleavings",
                         "documented global setters (econf_set_conf_dirs, security flags) are not called by worker threads"], time.time() - t0, len(verdict.violations))
    return rc


def replay(pid, path):
    print(open(path).read()[:5000])
    return 0
