"""C19 — econftool shows what an application would get (Tool.tla).
M  MC_Tool: ShowCmd(tree) = triples of Layers!Read(tree); SyntaxCmd fails iff a file is malformed.
F  every two-layer tree (x content shapes x one optional malformed file) is exported with the
   expected triples / exit status / file list, materialised under $ECONFTOOL_ROOT, and the BUILT
   econftool (from /repo's util/econftool.c + lib) is run with show, syntax and cat; stdout is
   parsed into triples and compared as sets."""
import json
import os
import random
import shutil
import subprocess
import time
from concurrent.futures import ThreadPoolExecutor

from . import core
from .core import canon
from . import p_layers
from .p_parser import write_cfg

HEADER = ("Vendor config directory:", "Config directory for local changes:", "Basename:", "Suffix:")


def parse_blocks(text, with_paths=False):
    """stdout(+stderr) of show/cat -> list of (path or None, set of triples)"""
    files = []
    cur = None
    sec = ""
    last = None
    for ln in text.split("\n"):
        if ln.startswith(HEADER):
            continue
        if ln.startswith("----------------------------------"):
            cur = {"path": None, "t": []}
            files.append(cur)
            sec = ""
            last = None
            continue
        if cur is None:
            cur = {"path": None, "t": []}
            files.append(cur)
        if ln.startswith("Path: "):
            cur["path"] = ln[6:]
            continue
        if ln.strip() == "":
            last = None
            continue
        if ln.startswith("     ") and last is not None:
            last[2].append(ln.strip())
            continue
        if " = " in ln or ln.endswith(" ="):
            k, _, v = ln.partition(" = ") if " = " in ln else (ln[:-2], "", "")
            last = [sec, k, [v.strip()]]
            cur["t"].append(last)
            continue
        sec = ln
        last = None
    out = []
    for f in files:
        out.append((f["path"], {(t[0], t[1], tuple(t[2])) for t in f["t"]}))
    return out


def want_set(triples):
    return {(core.uncodes(t["g"]), core.uncodes(t["k"]), tuple(core.uncodes(v) for v in t["vals"])) for t in triples}


BADTEXT = ["# c\n[broken\nK=1\n", "# c\n[S] trailing\nK=1\n", "# c\n[]\nK=1\n"]      # missing bracket / text after section / empty name: all on line 2


CFGNAMES = ["cfg", "org.example.app", "cfg", "a.b", "x-1_y", "cfg"]      # the configuration's name: also names with further dots


def mk_tree(x, R, delim="=", badkind=0, name="cfg"):
    """create the tree on disk under R (ECONFTOOL_ROOT)"""
    shutil.rmtree(R, ignore_errors=True)
    layers = [R + "/usr/etc", R + "/etc"]
    paths = {}
    bad = tuple(x["bad"][0]) if x["bad"] else None
    for i, kind in enumerate(x["main"], start=1):
        d = layers[i - 1]
        os.makedirs(d + "/%s.conf.d" % name, exist_ok=True)
        if kind != "absent":
            p = d + "/%s.conf" % name
            if kind == "devnull":
                os.symlink("/dev/null", p)
            else:
                data = p_layers.body(i, 0, x["shp"][0]) if kind == "regular" else ""
                if bad == (i, 0):
                    data = BADTEXT[badkind % len(BADTEXT)]
                open(p, "w").write(data.replace("=", delim))
            paths[p] = (i, 0)
        for n in x["drop"][i - 1]:
            p = d + "/%s.conf.d/" % name + p_layers.NAMES[n]
            data = p_layers.body(i, n, x["shp"][1])
            if bad == (i, n):
                data = BADTEXT[badkind % len(BADTEXT)]
            open(p, "w").write(data.replace("=", delim))
            paths[p] = (i, n)
    return paths


def run_tool(tool, R, args):
    env = dict(os.environ, ECONFTOOL_ROOT=R, LC_ALL="C")
    p = subprocess.run(["stdbuf", "-oL", "-eL", tool] + args, capture_output=False, stdout=subprocess.PIPE, stderr=subprocess.STDOUT, env=env, timeout=60)
    return p.returncode, p.stdout.decode("latin-1")


def check(pid, tier, seed):
    t0 = time.time()
    tool = core.build("toolplain")
    asan_tool = core.build("tool")
    verdict = core.Verdict(pid)
    rnd = random.Random(seed)
    names = "{3, 6}" if tier == "quick" else "{3, 4, 6}"
    cfg = "SPECIFICATION Spec\nCHECK_DEADLOCK FALSE\nINVARIANT ShowAgrees\nINVARIANT SyntaxIffError\nCONSTRAINT ExportCase\nCONSTANTS\n NLay = 2\n NameSet = %s\n Shapes = %s\n Export = TRUE\n" % (
        names, '{"bb", "ns", "sn", "nn", "ss", "bc", "hs"}' if tier == "quick" else '{"bb", "ns", "sn", "nn", "ss", "bc", "hs", "hc", "bh", "sc"}')
    r = core.tlc_ok("MC_Tool", write_cfg(cfg), timeout=1200)
    if r.violated:
        verdict.violation("C19:model", {"tlc": r.out[-3000:]}, "TLC: Tool model invariant violated\n" + r.out[-1500:])
    recs = r.json_lines()
    recs.sort(key=canon)
    budget = 700 if tier == "quick" else 6000
    if len(recs) > budget:
        recs = rnd.sample(recs, budget)
    base = os.path.join(core.scratch(), "tool")
    results = {}

    def work(arg):
        i, x = arg
        R = "%s/t%d" % (base, i)
        if i % 2:
            # every second tree below a root ($ECONFTOOL_ROOT) some 330 bytes deep whose name holds blanks, delimiter, comment,
            # bracket and format characters: what the tool shows must not depend on how the directory above the tree is called
            R = os.path.join(R, "amb =#[x]%s", *(["deep-directory-name-of-fifty-bytes-%014d" % i] * 5))
        variant = i % 3
        delim = {0: "=", 1: ":", 2: " "}[variant]
        opts = {0: [], 1: ["--delimiters=:", "--comment=#"], 2: ["--delimiters=spaces"]}[variant]
        name = CFGNAMES[(i // 3) % len(CFGNAMES)]
        paths = mk_tree(x, R, delim, badkind=i // 3, name=name)
        out = {}
        for cmd in ("show", "syntax", "cat"):
            out[cmd] = run_tool(tool, R, opts + [cmd, name + ".conf"])
        # memory errors of the tool itself: the sanitized build on the same tree (exit status 97/98 = sanitizer)
        e = dict(os.environ, ECONFTOOL_ROOT=R, ASAN_OPTIONS="detect_leaks=0:exitcode=97", UBSAN_OPTIONS="halt_on_error=1:exitcode=98")
        p = subprocess.run([asan_tool] + opts + ["show", name + ".conf"], capture_output=True, env=e, timeout=60)
        out["asan"] = (p.returncode, p.stderr.decode("latin-1")[-1500:])
        shutil.rmtree(R, ignore_errors=True)
        return i, out, paths, R

    with ThreadPoolExecutor(max_workers=core.NCPU) as ex:
        for i, out, paths, R in ex.map(work, list(enumerate(recs))):
            results[i] = (out, paths, R)
    ok = 0
    nn = 0
    for i, x in enumerate(recs):
        out, paths, R = results[i]
        t = {"main": x["main"], "drop": x["drop"], "shp": x["shp"], "bad": x["bad"]}
        fpb = "C19:%s" % ("malformed" if x["bad"] else p_layers.classify(t))
        case = {"kind": "tooltree", "tree": t, "variant": i % 3, "name": CFGNAMES[(i // 3) % len(CFGNAMES)]}
        want = want_set(x["show"]["triples"])
        if not x["bad"] and p_layers.f4_class(x):
            # known finding F4 (C01): the library keeps the first consulted drop-in although it is shadowed; the tool
            # has to show what the LIBRARY returns, so the shadowed file's unique keys are expected here
            l, rr = x["log"][0]
            for sec, on in (("", x["shp"][1] in "bnh"), ("S", x["shp"][1] in "bs")):
                if on:
                    want.add((sec, "U" + p_layers.idd(l, rr), ("1",)))
        if any(tr[0] == "" for tr in want) or len({tr[0] for tr in want}) >= 2 or x["bad"]:
            nn += 1
        good = True
        # asan
        if out["asan"][0] in (97, 98) or out["asan"][0] < 0:
            verdict.violation(fpb + ":memory", dict(case, stderr=out["asan"][1]), "econftool show: memory error on tree %s\n%s" % (p_layers.tree_text(t), out["asan"][1][-800:]))
            good = False
        # show
        rc, text = out["show"]
        if x["show"]["exit_ok"]:
            blocks = parse_blocks(text)
            got = set().union(*[b[1] for b in blocks]) if blocks else set()
            if rc != 0 or got != want:
                known = (rc == 0 and got == {tr for tr in want if tr[0] != ""})
                verdict.violation(fpb + (":show:grouplesskeys-missing" if known else ":show"), dict(case, got=sorted(got), want=sorted(want), rc=rc, stdout=text[-1500:]),
                                  "econftool show on tree %s: exit %d, printed %s\nthe library delivers %s" % (p_layers.tree_text(t), rc, sorted(got), sorted(want)))
                good = False
        else:
            if rc == 0:
                verdict.violation(fpb + ":show:exit", dict(case, rc=rc, stdout=text[-800:]), "econftool show succeeded although the library reports an error for tree %s" % p_layers.tree_text(t))
                good = False
        # syntax
        rc, text = out["syntax"]
        exp_ok = x["show"]["exit_ok"]
        if (rc == 0) != exp_ok:
            verdict.violation(fpb + ":syntax:exit", dict(case, rc=rc, stdout=text[-800:]), "econftool syntax exit status %d, library %s, tree %s" % (rc, "ok" if exp_ok else "error", p_layers.tree_text(t)))
            good = False
        elif x["bad"]:
            badpath = [p for p, f in paths.items() if list(f) == x["bad"][0]][0]
            if os.path.basename(badpath) not in text or os.path.dirname(badpath).replace("//", "/") not in text.replace("//", "/") or "line 2" not in text:
                verdict.violation(fpb + ":syntax:location", dict(case, stdout=text[-800:], want=badpath), "econftool syntax does not name file %s and line 2:\n%s" % (badpath, text[-400:]))
                good = False
        # cat
        rc, text = out["cat"]
        if x["cat"]["exit_ok"]:
            blocks = [b for b in parse_blocks(text, True) if b[0] is not None or b[1]]
            gotfiles = []
            for pth, tr in blocks:
                f = paths.get((pth or "").replace("//", "/"), (0, 0))
                gotfiles.append((list(f), tr))
            wantfiles = [(f["f"], want_set(f["triples"])) for f in x["cat"]["files"]]
            if rc != 0 or gotfiles != wantfiles:
                known = rc == 0 and [g[0] for g in gotfiles] == [w[0] for w in wantfiles] and all(g[1] == {tr for tr in w[1] if tr[0] != ""} for g, w in zip(gotfiles, wantfiles))
                verdict.violation(fpb + (":cat:grouplesskeys-missing" if known else ":cat"), dict(case, got=str(gotfiles), want=str(wantfiles), rc=rc, stdout=text[-1500:]),
                                  "econftool cat on tree %s: exit %d, files %s\nexpected %s" % (p_layers.tree_text(t), rc, gotfiles, wantfiles))
                good = False
        elif rc == 0 and x["log"]:
            verdict.violation(fpb + ":cat:exit", dict(case, rc=rc), "econftool cat succeeded although the library reports an error")
            good = False
        if good:
            ok += 1
    # single absolute files
    ok += check_single(tool, base, verdict)
    exe = core.build("asan")
    ok += check_random_single(tool, exe, rnd, 300 if tier == "quick" else 5000, base, verdict)
    # beyond the property: the commands that change the tree (ToolEdit.tla, MC_ToolEdit, replay)
    from . import p_tooledit
    edit_cov = p_tooledit.check_edit(tool, tier, rnd, base, verdict)
    rc = verdict.finish()
    cov = {"edit_revert": edit_cov, "states": r.distinct, "transitions": r.generated, "traces_validated_against_impl": ok,
           "evaluations": len(recs) * 3, "distinct_nontrivial": nn,
           "rule": "MC_Tool exports every two-layer tree (main x4 per layer x subsets of %s drop-in names per layer) x content shapes {both, group-less only, sections only, header-only section in the main file, drop-ins holding only comments} x {no malformed file, each consulted regular file malformed (missing bracket, text after the section, empty section name in turn)}; %d trees materialised under $ECONFTOOL_ROOT (/usr/etc, /etc; every second root some 330 bytes deep with blanks, delimiter, comment, bracket and format characters in its name) under the configuration names cfg, org.example.app, a.b, x-1_y in turn, with delimiter '=', ':' (--delimiters) and blanks (--delimiters=spaces); the built econftool runs show, syntax, cat (stdbuf keeps stdout/stderr order); stdout parsed into (section, key, value lines) triples and compared as sets with Tool!ShowCmd / CatCmd, exit status with SyntaxCmd, error location = malformed file + line; plus single absolute files (hand-written and random ones incl. sections that are closed and opened again; every (section, key) of a random file is also asked for BY NAME through the library and must be printed); the ASan/UBSan build of the tool runs show on every tree. non-trivial = result with group-less keys or >= 2 sections or a malformed file." % (names, len(recs)),
           "samples": [{"tree": p_layers.tree_text({"main": recs[5]["main"], "drop": recs[5]["drop"], "shp": recs[5]["shp"]}), "show": recs[5]["show"]}],
           "exhaustive": False, "trusted_base": ["TLC 1.8.0", "gcc (plain and ASan/UBSan builds of util/econftool.c + lib)", "coreutils stdbuf"]}
    core.write_evidence(pid, tier, seed, "model_checking", cov, ["the printed layout is not compared, only the parsed triples", "edit/revert are not part of the property; they are modelled and replayed all the same (coverage.edit_revert), run as root with --yes and the default delimiter / comment characters"], time.time() - t0, len(verdict.violations))
    return rc


# names of the re-opened sections: plain ones, and (every second file) names that themselves begin and end with a bracket
# (file line "[[a]]": the name the listings return is "[a]", next to a section "a" with the same keys)
BLK = [["a", "b", "a b", "c"], ["a", "[a]", "b", "[b]", "[a b]"]]


def check_random_single(tool, exe, rnd, n, base, verdict):
    """single absolute files with random conventional content and --delimiters / --comment choices (incl. the
    backslash escapes the tool translates): `econftool show` against what the LIBRARY delivers for the same file and
    the documented meaning of the options (driver: econf_readFile + extended getters)."""
    from gen import gram
    from .core import hx
    R = base + "/rs"
    os.makedirs(R, exist_ok=True)
    items = []
    while len(items) < n:
        D = rnd.choice(["=", "=", ":", "\t", "=\t", " ", ":=", " \t"])
        C = rnd.choice(["#", ";"])
        if len(items) % 4 == 3:
            # sections that are closed and opened again (keys of one section in several blocks, group-less keys first)
            f = {"lines": [], "abs": []}
            nk = 0
            for blk in [None] * rnd.randint(0, 1) + [rnd.choice(BLK[len(items) // 4 % 2]) for _ in range(rnd.randint(3, 6))]:
                if blk is not None:
                    f["lines"].append(core.codes("[%s]" % blk))
                    f["abs"].append({"t": "header", "key": core.codes(blk)})
                for _ in range(rnd.randint(0, 2)):
                    nk += 1
                    f["lines"].append(core.codes("k%d%sv%d" % (nk, D[0], nk)))
                    f["abs"].append({"t": "entry", "key": core.codes("k%d" % nk), "val": core.codes("v%d" % nk)})
            items.append((D, C, f))
            continue
        f = gram.random_file(rnd, rnd.randint(1, 10), "none", 0.0, D=D, C=C)
        ok = True
        for a in f["abs"]:
            if a["t"] == "entry" and not a["val"]:
                ok = False      # a key without value is printed without a line end by the tool: not parseable, not claimed
            if a["t"] == "header" and (" = " in core.uncodes(a["key"]) or core.uncodes(a["key"]).endswith(" =")):
                ok = False
            if a["t"] in ("entry",) and 10 in a["val"]:
                ok = False
        if not ok:
            continue
        items.append((D, C, f))
    cases = []
    for i, (D, C, f) in enumerate(items):
        path = "%s/r%d.conf" % (R, i)
        open(path, "wb").write(b"\n".join(bytes(l) for l in f["lines"]) + b"\n")
        # ... and every (section, key) the generator wrote is asked for BY NAME as well: what the library answers there has to
        # be printed too (the listing calls the tool itself uses are not the only witness of what the library returns)
        pairs, cur = [], None
        for a in f["abs"]:
            if a["t"] == "header":
                cur = core.uncodes(a["key"])
            elif a["t"] in ("entry", "keyonly"):
                if (cur, core.uncodes(a["key"])) not in pairs:
                    pairs.append((cur, core.uncodes(a["key"])))
        f["pairs"] = pairs
        cases.append((i, ["readfile 1 %s %s %s" % (hx(path), hx(D), hx(C)), "dumpx 1"] + ["ext 1 %s %s" % (hx(g_), hx(k_)) for g_, k_ in pairs] + ["free 1"]))
    res = core.run_cases(exe, cases)
    ok = 0
    for i, (D, C, f) in enumerate(items):
        path = "%s/r%d.conf" % (R, i)
        out = res.get(i)
        if out is None or out["crash"]:
            continue     # the library's own business (C02/C04)
        rd = out["ev"][0]
        if rd["rc"] != "ECONF_SUCCESS":
            continue
        st = out["ev"][1]["st"]
        want = set()
        for sec in st["secs"]:
            for k in sec["keys"]:
                want.add((sec["g"] or "", k["k"], tuple(v.strip() for v in (k.get("vals") or []) if v.strip() != "")))
        darg = D.replace("\t", "\\t") if i % 2 else D      # escape form or literal tab
        rc, text = run_tool(tool, R + "/root", ["--delimiters=" + darg, "--comment=" + C, "show", path])
        got = set()
        for b in parse_blocks(text):
            for (s_, k_, vals) in b[1]:
                got.add((s_, k_, tuple(v for v in vals if v != "")))
        byname = set()
        for (g_, k_), e in zip(f["pairs"], [e for e in out["ev"] if e["op"] == "ext"]):
            if e["rc"] == "ECONF_SUCCESS":
                byname.add((g_ or "", k_, tuple(v.strip() for v in (e.get("vals") or []) if v.strip() != "")))
        if rc == 0 and got == want and not byname <= got:
            verdict.violation("C19:single:random:byname", {"kind": "single", "delims": D, "comment": C, "file": core.uncodes(sum((l + [10] for l in f["lines"]), [])), "got": sorted(got), "missing": sorted(byname - got)},
                              "econftool show <file> does not print %s, which the library returns when asked by name\nfile:\n%s" % (sorted(byname - got)[:5], core.uncodes(sum((l + [10] for l in f["lines"]), []))))
            continue
        if rc != 0 or got != want:
            verdict.violation("C19:single:random:%s" % ("escape" if i % 2 and "\t" in D else "plain"),
                              {"kind": "single", "delims": D, "darg": darg, "comment": C, "file": core.uncodes(sum((l + [10] for l in f["lines"]), [])), "got": sorted(got), "want": sorted(want)},
                              "econftool --delimiters=%r --comment=%r show <file>: exit %d, printed %s\nthe library (econf_readFile with these characters) delivers %s\nfile:\n%s" % (
                                  darg, C, rc, sorted(got)[:8], sorted(want)[:8], core.uncodes(sum((l + [10] for l in f["lines"]), []))))
        else:
            ok += 1
    return ok


def check_single(tool, base, verdict):
    R = base + "/single"
    os.makedirs(R, exist_ok=True)
    ok = 0
    for name, content, want in (("g.conf", "a=1\nb=x y\n", {("", "a", ("1",)), ("", "b", ("x y",))}),
                                ("s.conf", "[S]\na=1\n[T]\nb=2\n", {("S", "a", ("1",)), ("T", "b", ("2",))}),
                                ("m.conf", "a=1\n[S]\nb=2\n c\n", {("", "a", ("1",)), ("S", "b", ("2", "c"))})):
        p = R + "/" + name
        open(p, "w").write(content)
        rc, text = run_tool(tool, R + "/root", ["show", p])
        got = set().union(*[b[1] for b in parse_blocks(text)]) if text else set()
        if rc != 0 or got != want:
            known = rc == 0 and got == {t for t in want if t[0] != ""}
            verdict.violation("C19:single:show" + (":grouplesskeys-missing" if known else ""), {"kind": "single", "file": content, "got": sorted(got), "want": sorted(want)},
                              "econftool show %s (content %r): printed %s, library delivers %s" % (name, content, sorted(got), sorted(want)))
        else:
            ok += 1
    # a merged tree whose values are the library's own marker word: values like any other
    os.makedirs(R + "/root/usr/etc", exist_ok=True)
    os.makedirs(R + "/root/etc/mk.conf.d", exist_ok=True)
    open(R + "/root/usr/etc/mk.conf", "w").write("a=_none_\n[S]\nb=_none_\n")
    open(R + "/root/etc/mk.conf.d/x.conf", "w").write("c=1\n[S]\nd=_none_\n")
    rc, text = run_tool(tool, R + "/root", ["show", "mk.conf"])
    got = set().union(*[b[1] for b in parse_blocks(text)]) if text else set()
    want = {("", "a", ("_none_",)), ("", "c", ("1",)), ("S", "b", ("_none_",)), ("S", "d", ("_none_",))}
    if rc != 0 or got != want:
        verdict.violation("C19:single:marker-values", {"kind": "single", "got": sorted(got), "want": sorted(want)},
                          "econftool show on a two-file tree with the values `_none_`: exit %d, printed %s, the library delivers %s" % (rc, sorted(got), sorted(want)))
    else:
        ok += 1
    p = R + "/bad.conf"
    open(p, "w").write("a=1\n\n[x\n")
    rc, text = run_tool(tool, R + "/root", ["syntax", p])
    if rc == 0 or "bad.conf" not in text or "line 3" not in text:
        verdict.violation("C19:single:syntax", {"kind": "single", "stdout": text}, "econftool syntax on a malformed absolute file: exit %d, output %r" % (rc, text[-300:]))
    else:
        ok += 1
    return ok


def replay(pid, path):
    print(open(path).read()[:5000])
    return 0
