"""econftool edit / revert (ToolEdit.tla): beyond the listed properties, part of the C19 check.

   M  MC_ToolEdit: every tree made of a subset of six files x every sequence of up to MaxSteps commands
      (edit as drop-in / --full with seven editors, revert); invariants = what the commands promise.
   F  every reached state is exported (initial files, commands, expected set of files, expected `show`) and replayed
      against the real tool under $ECONFTOOL_ROOT with $EDITOR scripts that do what the model's editors do.
   The tool is run as root with --yes; `revert` looks for the main file at /etc/<name> WITHOUT the root prefix
   (Dev_RevertMainUnrooted), so only configuration names that do not exist in the real /etc are used.
"""
import os
import shutil
import subprocess
from concurrent.futures import ThreadPoolExecutor

from . import core
from .core import canon
from .p_parser import write_cfg

NAMES = ["cfg", "org.example.vfapp", "vf-a.b", "x-1_vfy"]


def safe_names():
    return [n for n in NAMES if not os.path.lexists("/etc/%s.conf" % n) and not os.path.lexists("/etc/%s.conf.d" % n)]


def cfg_text(maxsteps, export, invs=True):
    inv = "".join("INVARIANT %s\n" % x for x in ("EditTouchesOnlyTarget", "EditFailsIff", "KeepKeepsConfiguration", "AppendedKeyIsShown", "CommentedLineIsInert", "DroppedKey",
                                                 "EditedTreeReadable", "RevertRemovesDropins", "RevertedShow", "RevertUnmasks", "MaskedVendorDropinIsInert")) if invs else ""
    return "SPECIFICATION Spec\nCHECK_DEADLOCK FALSE\n%sCONSTRAINT ExportCase\nCONSTANTS\n MaxSteps = %d\n Export = %s\n" % (inv, maxsteps, "TRUE" if export else "FALSE")


# the model is stated for the tool's default characters '=' and '#'; the replay also runs it under a renaming of the two
# characters (--delimiters=: --comment=';', files and editor texts renamed alike) and with sets of two characters each
# (the files keep '=' and '#', the tool writes with the first character of each set)
VARIANTS = [([], None), (["--delimiters=:", "--comment=;"], str.maketrans("=#", ":;")), (["--delimiters=:=", "--comment=#;"], None)]


def editor_script(path, ed, tr=None):
    q = lambda s: "'" + s.replace("'", "'\\''") + "'"
    lines = [core.uncodes(l) for l in ed["lines"]]
    if tr:
        lines = [l.translate(tr) for l in lines]
    if ed["kind"] == "keep":
        body = "exit 0\n"
    elif ed["kind"] == "dropkey":
        # delete the line that assigns to the key, whatever layout and delimiter the writer chose
        body = "sed -i -e '/^[ \t]*%s[ \t]*[=:]/d' \"$1\"\n" % core.uncodes(ed["lines"][0])
    elif ed["kind"] in ("append", "comment"):
        body = "printf '%%s\\n' %s >> \"$1\"\n" % " ".join(q(l) for l in lines)
    else:
        body = "printf '%%s\\n' %s > \"$1\"\n" % " ".join(q(l) for l in lines)
    with open(path, "w") as f:
        f.write("#!/bin/sh\n" + body)
    os.chmod(path, 0o755)


def run_tool(tool, R, args, editor=None):
    env = dict(os.environ, ECONFTOOL_ROOT=R, LC_ALL="C")
    env.pop("TMPDIR", None)
    env.pop("XDG_CONFIG_HOME", None)
    if editor:
        env["EDITOR"] = editor
    p = subprocess.run(["stdbuf", "-oL", "-eL", tool] + args, stdin=subprocess.DEVNULL, stdout=subprocess.PIPE, stderr=subprocess.STDOUT, env=env, timeout=60)
    return p.returncode, p.stdout.decode("latin-1")


def rename(p, name):
    """model path (configuration `cfg`) -> path of the configuration `name`"""
    return p.replace("/cfg.conf", "/%s.conf" % name)


def files_below(R):
    out = []
    for d, _, fs in os.walk(R):
        for f in fs:
            out.append(os.path.join(d, f)[len(R):])
    return sorted(out, key=lambda s: s.encode("latin-1"))


def replay_one(tool, R, name, case, editors, variant=0):
    """-> (problem or None, detail)"""
    from .p_tool import parse_blocks
    opts, tr = VARIANTS[variant]
    shutil.rmtree(R, ignore_errors=True)
    os.makedirs(R + "/usr/etc")
    os.makedirs(R + "/etc")
    for f in case["init"]:
        p = R + rename(core.uncodes(f["path"]), name)
        os.makedirs(os.path.dirname(p), exist_ok=True)
        with open(p, "wb") as fh:
            fh.write(b"".join((core.uncodes(l).translate(tr).encode("latin-1") if tr else bytes(l)) + b"\n" for l in f["lines"]))
    log = []
    for n, a in enumerate(case["acts"]):
        if a["cmd"] == "edit":
            ed = editors[(canon(a["ed"]), tr is not None)]
            rc, text = run_tool(tool, R, opts + ["--yes"] + (["--full"] if a["mode"] == "full" else []) + ["edit", name + ".conf"], editor=ed)
            log.append("edit %s %s -> exit %d: %s" % (a["mode"], a["ed"]["kind"], rc, text.strip()[-200:]))
            if (rc == 0) != a["ok"]:
                return "edit:exit", "command %d (edit %s, editor %s %r): exit status %d, the model says %s\n%s" % (
                    n + 1, a["mode"], a["ed"]["kind"], [core.uncodes(l) for l in a["ed"]["lines"]], rc, "success" if a["ok"] else "failure", "\n".join(log))
        else:
            had = os.path.isdir("%s/etc/%s.conf.d" % (R, name))
            rc, text = run_tool(tool, R, ["--yes", "revert", name + ".conf"])
            log.append("revert -> exit %d: %s" % (rc, text.strip()[-200:]))
            if (rc == 0) != had:
                return "revert:exit", "command %d (revert): exit status %d although the drop-in directory %s\n%s" % (n + 1, rc, "existed" if had else "did not exist", "\n".join(log))
    got = files_below(R)
    want = [rename(core.uncodes(p), name) for p in case["paths"]]
    if got != sorted(want, key=lambda s: s.encode("latin-1")):
        return "files", "files below the root afterwards: %s\nthe model expects: %s\n%s" % (got, want, "\n".join(log))
    rc, text = run_tool(tool, R, opts + ["show", name + ".conf"])
    if (rc == 0) != case["show"]["ok"]:
        return "show:exit", "`show` afterwards: exit status %d, the model says %s\n%s\n%s" % (rc, "success" if case["show"]["ok"] else "failure", text[-300:], "\n".join(log))
    if rc == 0:
        g = set()
        for b in parse_blocks(text):
            g |= {(s, k, tuple(v for v in vals if v != "")) for (s, k, vals) in b[1]}
        w = {(core.uncodes(t["g"]), core.uncodes(t["k"]), tuple(core.uncodes(v) for v in t["vals"])) for t in case["show"]["triples"]}
        if g != w:
            return "show:content", "`show` afterwards prints %s\nthe model expects %s\n%s" % (sorted(g), sorted(w), "\n".join(log))
    return None, "\n".join(log)


def check_edit(tool, tier, rnd, base, verdict):
    """-> coverage dict"""
    if os.geteuid() != 0:
        return {"skipped": "not running as root: econftool edit / revert write below the home directory then (not modelled)"}
    names = safe_names()
    if not names:
        return {"skipped": "every configuration name of the pool exists in the real /etc"}
    steps = 2 if tier == "quick" else 3
    r = core.tlc_ok("MC_ToolEdit", write_cfg(cfg_text(steps, True)), timeout=2400)
    if r.violated:
        verdict.violation("C19:edit:model", {"tlc": r.out[-3000:]}, "TLC: an invariant of MC_ToolEdit is violated\n" + r.out[-1500:])
    recs = r.json_lines()
    recs.sort(key=canon)
    budget = 500 if tier == "quick" else 8000
    if len(recs) > budget:
        # longest command sequences first (they contain the shorter ones as prefixes), the rest at random
        full = [x for x in recs if len(x["acts"]) == steps]
        recs = rnd.sample(full, min(budget, len(full)))
    # vacuity: the documented NON-property must fail in the model (an edited value can be overridden by a later drop-in)
    np_ = core.tlc("MC_ToolEdit", write_cfg("SPECIFICATION Spec\nCHECK_DEADLOCK FALSE\nINVARIANT ReplacedValueIsShown\nCONSTANTS\n MaxSteps = 1\n Export = FALSE\n"), timeout=600)
    if not np_.violated:
        raise core.ToolFailure("MC_ToolEdit: the non-property ReplacedValueIsShown is not refuted - the model has lost the overriding drop-in\n" + np_.out[-1500:])
    root = os.path.join(base, "edit")
    # the editor scripts are made before any thread forks (a script still open for writing in one thread while another
    # thread's child executes it: ETXTBSY)
    editors = {}
    os.makedirs(root + "/ed itors", exist_ok=True)
    for x in recs:
        for a in x["acts"]:
            for ren in (False, True):
                if a["cmd"] == "edit" and (canon(a["ed"]), ren) not in editors:
                    editors[(canon(a["ed"]), ren)] = "%s/ed itors/e%d.sh" % (root, len(editors))
                    editor_script(editors[(canon(a["ed"]), ren)], a["ed"], VARIANTS[1][1] if ren else None)

    def work(arg):
        i, x = arg
        R = "%s/e%d" % (root, i)
        if i % 2:
            R = os.path.join(R, "amb =#[x]%s", "deep-directory-name-of-fifty-bytes-%014d" % i)
        name = names[i % len(names)]
        try:
            prob, detail = replay_one(tool, R, name, x, editors, (i // 2) % 3)
        except subprocess.TimeoutExpired:
            prob, detail = "timeout", "the tool did not finish within 60 s"
        shutil.rmtree("%s/e%d" % (root, i), ignore_errors=True)
        return i, name, prob, detail

    ok = 0
    with ThreadPoolExecutor(max_workers=core.NCPU) as ex:
        for i, name, prob, detail in ex.map(work, list(enumerate(recs))):
            if prob is None:
                ok += 1
                continue
            x = recs[i]
            verdict.violation("C19:edit:%s" % prob, {"kind": "tooledit", "name": name, "options": VARIANTS[(i // 2) % 3][0], "case": x},
                              "econftool %s edit / revert on the tree {%s}, commands %s:\n%s" % (" ".join(VARIANTS[(i // 2) % 3][0]),
                                  ", ".join(core.uncodes(f["path"]) for f in x["init"]),
                                  [(a["cmd"], a["mode"], a["ed"]["kind"]) for a in x["acts"]], detail))
    return {"states": r.distinct, "transitions": r.generated, "replayed": len(recs), "agree": ok,
            "rule": "MC_ToolEdit (ToolEdit.tla over the concrete file system of Econf.tla): every subset of six files (vendor main with a comment, "
                    "vendor drop-in, local main, local drop-in, malformed local drop-in, a vendor drop-in with the local drop-in's name) x every sequence of up to %d commands among edit {drop-in, --full} x editor "
                    "{keep, append a key, append a two-line key, replace everything, append a malformed line, append a commented-out assignment, delete the line of a key} and revert; invariants: a failed edit changes nothing, "
                    "a successful one exactly its target; it fails iff the tree is unreadable, the edited text malformed or empty (Dev_EditToNothingFails); keeping the text keeps the configuration; "
                    "an appended key is shown; an appended commented-out assignment is inert (same configuration, the commented key absent); a key deleted in the editor is gone with --full unless an earlier drop-in edit holds a copy, and is still there after a drop-in edit (the drop-in cannot take away what another file defines), everything else unchanged; the edited tree is readable; revert leaves nothing below the drop-in directory and everything else alone; a vendor drop-in masked by a local file of the same name decides nothing and is read again after revert; the "
                    "non-property 'a replaced value is shown' is refuted (vacuity control). %d exported states replayed against the built econftool (--yes, "
                    "$EDITOR = shell scripts doing what the model's editors do, $ECONFTOOL_ROOT = scratch root, every second one with blanks, delimiter, comment, "
                    "bracket and format characters in its name; configuration names %s; with the default characters, under the renaming --delimiters=: --comment=';' of files and editor texts, and with the two-character sets ':=' / '#;'): exit status of every command, the set of files afterwards and the "
                    "parsed `show` output are the model's." % (steps, len(recs), names)}
