"""C08 / C09 — typed setters/getters against Typed.tla.

C09  M: MC_Typed (NoWrap, Monotone, LimitsAgree; limits tied to the doubling relation by ASSUME).
     F: every literal of the boundary universe (sign x base x magnitudes around 2^31, 2^32, 2^63,
        2^64, 2^33..2^65) is exported with IntMeaning for the four integer types and read by the
        real getters (plain and ...Def).
     B: random literals (1..25 digits), keys without value, boolean texts and the exhaustive
        boolean sweep are recorded and validated by Trace_Typed.tla.
     Floating literals: expectation by exact rational arithmetic in python (not TLA+; DESIGN 9).
C08  M: MC_Typed RoundTrip (canonical text of a representable value reads back as that value).
     B: sweeps inside the driver (direct and via write/read), summary events validated by Trace_Typed.
"""
import json
import os
import random
import struct
import time
from fractions import Fraction

from . import core
from .core import hx, codes, canon, ROOT
from .p_parser import write_cfg

ITYPES = ["Int", "UInt", "Int64", "UInt64"]
LIM = {"Int": (-2**31, 2**31 - 1), "UInt": (0, 2**32 - 1), "Int64": (-2**63, 2**63 - 1), "UInt64": (0, 2**64 - 1)}


def digits_of(n, base):
    if n == 0:
        return [0]
    d = []
    while n:
        d.append(n % base)
        n //= base
    return d[::-1]


def value_of(digits, base):
    v = 0
    for d in digits:
        v = v * base + d
    return v


def lit_text(sign, base, digits):
    return sign + {8: "0", 10: "", 16: "0x"}[base] + "".join("0123456789abcdef"[d] for d in digits)


def int_script(text, route=0):
    """route: how the text gets into the object - 0 econf_setStringValue; 1 a file line k=<text>; 2 the same in double quotes
    (the stored text is the same: the quotes are not part of the value); 3 in a section, blanks around the delimiter, a trailing
    comment, asked through the bracketed section name"""
    g = "-"
    if route == 0:
        s = ["newkf 1 x3d x23", "set String 1 - %s %s" % (hx("k"), hx(text))]
    else:
        p = ROOT + "/lit/f%d.conf" % route
        body = {1: "k=%s\n" % text, 2: "k=\"%s\"\n" % text, 3: "# c\n[S]\nk = %s  # unit\n" % text}[route]
        s = ["file %s %s" % (hx(p), hx(body)), "readfile 1 %s x3d x23" % hx(p)]
        if route == 3:
            g = hx("[S]")
    for T in ITYPES:
        s.append("get %s 1 %s %s" % (T, g, hx("k")))
        s.append("getdef %s 1 %s %s 5" % (T, g, hx("k")))
    s.append("free 1")
    return s


def int_events(text, sign, base, digits, evs):
    out = []
    gets = [e for e in evs if e["op"] in ("get", "getdef")]
    for e in gets:
        v = e["out"]
        ok = e["rc"] == "ECONF_SUCCESS"
        out.append({"e": "int", "T": e["T"], "sign": sign, "base": base, "digits": digits, "rc": e["rc"],
                    "neg": bool(ok and v < 0), "mag": digits_of(abs(v), base) if ok else [0], "isdef": e["op"] == "getdef", "text": text})
    return out


def validate(events, verdict, pid, describe):
    if not events:
        return 0
    ok, tr, _ = core.validate_trace("Trace_Typed", os.path.join(core.SPEC, "Trace_Typed.cfg"), events, timeout=3000)
    mism = [x for x in tr.json_lines() if "mismatch" in x]
    if not ok and not mism:
        raise core.ToolFailure("Trace_Typed did not consume the trace:\n" + tr.out[-2500:])
    for x in mism[:60]:
        ev = events[x["mismatch"] - 1]
        if isinstance(x.get("spec"), dict) and x["spec"].get("generator_bug"):
            raise core.ToolFailure("generator produced an ill-formed literal: %s" % ev)
        fp, text = describe(ev, x.get("spec"))
        verdict.violation(fp, {"kind": "typed", "event": ev, "spec": x.get("spec")}, text)
    return len(events) - len(mism)


def describe(ev, spec):
    if ev["e"] == "int":
        val = ("-" if ev["neg"] else "") + str(value_of(ev["mag"], ev["base"]))
        cls = "range" if (spec or {}).get("rc") != "ECONF_SUCCESS" else "value"
        return ("C09:int:%s:%s:%s" % (ev["T"], "neg" if ev["sign"] == "-" else "pos", cls),
                "econf_get%sValue%s on stored text %r: library %s value %s; specification (IntMeaning): %s" % (
                    ev["T"], "Def" if ev.get("isdef") else "", ev["text"], ev["rc"], val, canon(spec)))
    if ev["e"] == "novalue":
        return ("C09:novalue:%s" % ev["T"], "typed getter %s on a key without value answered %s" % (ev["T"], ev["rc"]))
    if ev["e"] == "bool":
        return ("C09:bool:text", "econf_getBoolValue on %r: %s / %s; BoolMeaning: %s" % (core.uncodes(ev["text"]), ev["rc"], ev.get("v"), canon(spec)))
    if ev["e"] == "boolsweep":
        legal = set()
        acc = sorted(core.uncodes(a["s"]) for a in ev["accepted"])
        return ("C09:bool:sweep", "boolean getter accepts %d strings up to length %d over the alphabet, the legal spellings are %s; accepted: %s" % (
            len(acc), ev["maxlen"], (spec or {}).get("accepted"), acc[:80]))
    if ev["e"] == "sweep":
        return ("C08:%s:%s" % (ev["T"], ev["mode"]), "typed round trip %s (%s): %d of %d values did not come back (first bit pattern 0x%s)" % (
            ev["T"], ev["mode"], ev["bad"], ev["count"], ev.get("firstbad")))
    return ("typed:?", str(ev))


# --------------------------------------------------------------------------------------
# float reference: correctly rounded decimal -> binary32 / binary64 by exact arithmetic
# --------------------------------------------------------------------------------------
def f32_bits(x):
    return struct.unpack("<I", struct.pack("<f", x))[0]


def f32_from_bits(b):
    return struct.unpack("<f", struct.pack("<I", b))[0]


def nearest_f32(fr):
    """fr: Fraction >= 0. Returns bits of the correctly rounded (ties-to-even) binary32."""
    if fr == 0:
        return 0
    maxf = Fraction(f32_from_bits(0x7f7fffff))
    if fr >= maxf + Fraction(2**103):      # half an ulp above the largest finite value rounds to infinity
        return 0x7f800000
    # bisection over bit patterns (monotone for non-negative floats)
    lo, hi = 0, 0x7f7fffff
    while hi - lo > 1:
        mid = (lo + hi) // 2
        if Fraction(f32_from_bits(mid)) <= fr:
            lo = mid
        else:
            hi = mid
    a, b = Fraction(f32_from_bits(lo)), Fraction(f32_from_bits(hi))
    if fr <= a:
        return lo
    if fr >= b:
        return hi
    da, db = fr - a, b - fr
    if da < db:
        return lo
    if db < da:
        return hi
    return lo if lo % 2 == 0 else hi


def float_cases(rnd, n):
    cs = []
    for _ in range(n):
        k = rnd.random()
        if k < 0.3:
            s = "%d.%s" % (rnd.randint(0, 10**rnd.randint(0, 12)), "".join(rnd.choice("0123456789") for _ in range(rnd.randint(1, 20))))
        elif k < 0.6:
            # (every spelling of the exponent a decimal literal may have: e / E, with and without sign, with a fraction, a bare
            # leading or trailing point)
            e_ = rnd.randint(-40, 38)
            mant = rnd.choice(["%d" % rnd.randint(1, 10**rnd.randint(1, 17)), "%d.%d" % (rnd.randint(0, 99), rnd.randint(0, 9999)), ".%d" % rnd.randint(1, 999999), "%d." % rnd.randint(1, 9999)])
            s = "%s%s%s%s%d" % (rnd.choice(["", "-", "+"]), mant, rnd.choice("eE"), "+" if e_ >= 0 and rnd.random() < 0.4 else "", e_)
        elif k < 0.8:
            # near a float32 value's midpoint: exercises ties / double rounding
            b = rnd.randint(0x00800000, 0x7f000000)
            mid = (Fraction(f32_from_bits(b)) + Fraction(f32_from_bits(b + 1))) / 2
            s = fraction_to_decimal(mid, rnd.randint(20, 60))
        else:
            s = "%d.%d" % (rnd.randint(0, 999), rnd.randint(0, 999999))
        cs.append(s)
    return cs


def fraction_to_decimal(fr, digits):
    ip = fr.numerator // fr.denominator
    rest = fr - ip
    out = []
    for _ in range(digits):
        rest *= 10
        d = rest.numerator // rest.denominator
        out.append(str(d))
        rest -= d
        if rest == 0:
            break
    return "%d.%s" % (ip, "".join(out) or "0")


def check_floats(exe, rnd, n, verdict):
    lits = float_cases(rnd, n)
    cases = []
    for i, s in enumerate(lits):
        cases.append((i, ["newkf 1 x3d x23", "set String 1 - %s %s" % (hx("k"), hx(s)), "get Float 1 - %s" % hx("k"), "get Double 1 - %s" % hx("k"), "free 1"]))
    res = core.run_cases(exe, cases)
    ok = 0
    for i, s in enumerate(lits):
        out = res.get(i)
        if out is None or out["crash"]:
            verdict.violation("C09:float:crash", {"kind": "float", "text": s, "crash": (out or {}).get("crash")}, "floating getter crashed on %r" % s)
            continue
        gf = [e for e in out["ev"] if e["op"] == "get"]
        fr = Fraction(s)
        neg = fr < 0 or s.startswith("-")
        mag = abs(fr)
        want32 = nearest_f32(mag) | (0x80000000 if neg else 0)
        want64 = struct.unpack("<Q", struct.pack("<d", float(s)))[0]     # CPython's float() is correctly rounded
        got32 = int(gf[0]["out"], 16)
        got64 = int(gf[1]["out"], 16)
        sub64 = 0 < (want64 & 0x7fffffffffffffff) < 0x0010000000000000
        bad = None
        if gf[0]["rc"] != "ECONF_SUCCESS" or got32 != want32:
            bad = "Float: %s 0x%08x, correctly rounded 0x%08x" % (gf[0]["rc"], got32, want32)
        elif gf[1]["rc"] != "ECONF_SUCCESS" or got64 != want64:
            bad = "Double: %s 0x%016x, correctly rounded 0x%016x" % (gf[1]["rc"], got64, want64)
        if bad:
            verdict.violation("C09:float:%s" % ("subnormal" if sub64 else "rounding"), {"kind": "float", "text": s, "problem": bad},
                              "floating getter on decimal literal %r: %s" % (s, bad))
        else:
            ok += 1
    return ok, len(lits)


# --------------------------------------------------------------------------------------
ALPHA = "10yesnotrufalYESNOTRUFALp-g@ "


def check_c09(exe, tier, seed, verdict):
    rnd = random.Random(seed)
    cfg = "SPECIFICATION Spec\nCHECK_DEADLOCK FALSE\nINVARIANT WellFormed\nINVARIANT NoWrap\nINVARIANT RoundTrip\nINVARIANT Monotone\nINVARIANT LimitsAgree\nCONSTRAINT ExportCase\nCONSTANTS Export = TRUE\n"
    r = core.tlc_ok("MC_Typed", write_cfg(cfg), workers=8, timeout=1200)
    if r.violated:
        verdict.violation("C09:model", {"tlc": r.out[-3000:]}, "TLC: Typed model lemma violated\n" + r.out[-1500:])
    recs = r.json_lines()
    # forward: exported literals
    cases = [(i, int_script(core.uncodes(x["text"]), i % 4)) for i, x in enumerate(recs)]
    res = core.run_cases(exe, cases)
    n_fwd = 0
    nn = 0
    for i, x in enumerate(recs):
        out = res.get(i)
        text = core.uncodes(x["text"])
        if out is None or out["crash"]:
            verdict.violation("C09:int:crash", {"kind": "literal", "text": text, "crash": (out or {}).get("crash")}, "integer getter crashed on %r\n%s" % (text, (out or {}).get("crash", "")[:600]))
            continue
        for e in [e for e in out["ev"] if e["op"] in ("get", "getdef")]:
            w = x["exp"][e["T"]]
            val = e["out"]
            if w["rc"] == "ECONF_SUCCESS":
                want = value_of(w["mag"], x["base"]) * (-1 if w["neg"] else 1)
                good = e["rc"] == "ECONF_SUCCESS" and val == want
            else:
                good = e["rc"] != "ECONF_SUCCESS"
                want = None
            lo, hi = LIM[e["T"]]
            v = value_of(x["digits"], x["base"]) * (-1 if x["sign"] == "-" else 1)
            if min(abs(v - lo), abs(v - hi)) <= 3 or want is None:
                nn += 1
            if not good:
                cls = "range" if want is None else "value"
                verdict.violation("C09:int:%s:%s:%s" % (e["T"], "neg" if x["sign"] == "-" else "pos", cls),
                                  {"kind": "literal", "text": text, "T": e["T"], "got": [e["rc"], val], "want": [w["rc"], want]},
                                  "econf_get%sValue%s on stored text %r: library %s / %s, IntMeaning: %s / %s" % (
                                      e["T"], "Def" if e["op"] == "getdef" else "", text, e["rc"], val, w["rc"], want))
            else:
                n_fwd += 1
    # backward: random literals, bare keys, booleans
    events = []
    nrand = 600 if tier == "quick" else 20000
    lits = []
    for _ in range(nrand):
        base = rnd.choice([8, 10, 16])
        nd = rnd.randint(1, 25)
        ds = [rnd.randrange(base) for _ in range(nd)]
        if base == 10 and nd > 1 and ds[0] == 0:
            ds[0] = rnd.randint(1, 9)
        lits.append((rnd.choice(["", "", "+", "-"]), base, ds))
    cases = [(i, int_script(lit_text(*l), (i // 2) % 4)) for i, l in enumerate(lits)]
    res = core.run_cases(exe, cases)
    for i, l in enumerate(lits):
        out = res.get(i)
        if out is None or out["crash"]:
            verdict.violation("C09:int:crash", {"kind": "literal", "text": lit_text(*l), "crash": (out or {}).get("crash")}, "integer getter crashed on %r" % lit_text(*l))
            continue
        events += int_events(lit_text(*l), l[0], l[1], l[2], out["ev"])
    # state left behind by an earlier call must not matter: every getter on well-formed literals DIRECTLY AFTER a call that
    # fails or overflows in some other way (a missing file, an out-of-range literal of another type, an overflowing or
    # subnormal decimal literal for the floating getters)
    good = [("", 10, [0]), ("", 10, [7]), ("-", 10, [5]), ("", 10, [2, 1, 4, 7, 4, 8, 3, 6, 4, 7]), ("", 16, [1, 0]), ("", 8, [1, 7])]
    poison = ["readfile 9 %s x3d x23" % hx(ROOT + "/stale/none.conf"),
              "get UInt64 1 - %s" % hx("huge"), "get Int64 1 - %s" % hx("huge"), "get Int 1 - %s" % hx("huge"), "get UInt 1 - %s" % hx("neg"),
              "get Double 1 - %s" % hx("ovf"), "get Float 1 - %s" % hx("ovf"), "get Double 1 - %s" % hx("sub"), "get Bool 1 - %s" % hx("huge"),
              "get Int 1 - %s" % hx("nokey"), "merge 8 1 7"]
    sc = ["newkf 1 x3d x23", "set String 1 - %s %s" % (hx("huge"), hx("99999999999999999999999999")), "set String 1 - %s %s" % (hx("neg"), hx("-1")),
          "set String 1 - %s %s" % (hx("ovf"), hx("1e999")), "set String 1 - %s %s" % (hx("sub"), hx("4.9e-324"))]
    for gi, g in enumerate(good):
        sc.append("set String 1 - %s %s" % (hx("g%d" % gi), hx(lit_text(*g))))
    plan = []
    for pz in poison:
        for gi, g in enumerate(good):
            for T in ITYPES:
                sc += [pz, "get %s 1 - %s" % (T, hx("g%d" % gi))]
                plan.append((g, T))
    sc.append("free 1")
    out = core.run_cases(exe, [("stale", sc)], jobs=1, per_case_timeout=120)["stale"]
    if out["crash"]:
        verdict.violation("C09:stale:crash", {"kind": "script", "crash": out["crash"]}, "getter sequence crashed\n" + out["crash"][:700])
    else:
        # every second get event of the loop part is a target (the poison calls that are getters print events too)
        evs = [e for e in out["ev"] if e["op"] == "get" and e.get("T") in ITYPES]
        tg = [e for e in out["ev"] if e["op"] == "get"]
        # walk the script again to pick the target events
        it = iter([e for e in out["ev"] if e["op"] in ("get", "readfile", "merge")])
        seq = [l for l in sc if l.split()[0] in ("get", "readfile", "merge")]
        k = 0
        for j, (l, e) in enumerate(zip(seq, it)):
            if j % 2 == 1 and k < len(plan):
                g, T = plan[k]
                k += 1
                v = e["out"]
                okk = e["rc"] == "ECONF_SUCCESS"
                events.append({"e": "int", "T": T, "sign": g[0], "base": g[1], "digits": g[2], "rc": e["rc"], "neg": bool(okk and v < 0),
                               "mag": digits_of(abs(v), g[1]) if okk else [0], "isdef": False, "text": lit_text(*g) + " (after `%s`)" % " ".join(seq[j - 1].split()[:2])})
    # keys without value: parsed file with a bare key and with 'k=' ; every typed getter
    s = ["file %s %s" % (hx(ROOT + "/nv/f.conf"), hx("bare\nempty=\n[S]\nbare2\n")), "readfile 1 %s x3d x23" % hx(ROOT + "/nv/f.conf")]
    for T in ITYPES + ["Float", "Double", "Bool", "String"]:
        for g, k in ((None, "bare"), (None, "empty"), ("S", "bare2")):
            s.append("get %s 1 %s %s" % (T, hx(g), hx(k)))
            dflt = {"Float": "3fc00000", "Double": "3ff8000000000000", "String": hx("d")}.get(T, "1")
            s.append("getdef %s 1 %s %s %s" % (T, hx(g), hx(k), dflt))
    s.append("free 1")
    # ... and keys that have no value in the EFFECTIVE configuration although a shadowed layer gives them a number / a boolean word:
    # a bare key (or 'k=') of the overriding side of econf_mergeFiles, of a drop-in, of the /etc file over the vendor file; a value
    # removed again by a setter with an empty text
    NV = ROOT + "/nv2"
    base = "N=5\nH=0x10\nB=yes\nE=7\n[S]\nM=7\nO=017\n"
    over = "N\n\nH\n#c\nB\nE=\n[S]\nM\n\nO\n"
    nvkeys = ((None, "N"), (None, "H"), (None, "B"), (None, "E"), ("S", "M"), ("S", "O"))
    s += ["file %s %s" % (hx(NV + "/base.conf"), hx(base)), "file %s %s" % (hx(NV + "/over.conf"), hx(over)),
          "file %s %s" % (hx(NV + "/a/usr/etc/cfg.conf"), hx(base)), "file %s %s" % (hx(NV + "/a/etc/cfg.conf.d/o.conf"), hx(over)),
          "file %s %s" % (hx(NV + "/b/usr/etc/cfg.conf"), hx(base)), "file %s %s" % (hx(NV + "/b/etc/cfg.conf"), hx(over)),
          "file %s %s" % (hx(NV + "/c/usr/etc/cfg.conf"), hx(base)), "file %s %s" % (hx(NV + "/c/usr/etc/cfg.conf.d/o.conf"), hx(over)),
          "readfile 2 %s x3d x23" % hx(NV + "/base.conf"), "readfile 3 %s x3d x23" % hx(NV + "/over.conf"), "merge 4 2 3"]
    for j, d in enumerate("ac"):
        s.append("readdirs %d %s %s %s %s x3d x23" % (5 + j, hx(NV + "/%s/usr/etc" % d), hx(NV + "/%s/etc" % d), hx("cfg"), hx("conf")))
    s += ["readfile 7 %s x3d x23" % hx(NV + "/base.conf")] + ["set String 7 %s %s %s" % (hx(g), hx(k), hx("")) for g, k in nvkeys]
    for h in (4, 5, 6, 7):
        for T in ITYPES + ["Float", "Double", "Bool"]:
            for g, k in nvkeys:
                s.append("get %s %d %s %s" % (T, h, hx(g), hx(k)))
                dflt = {"Float": "3fc00000", "Double": "3ff8000000000000"}.get(T, "1")
                s.append("getdef %s %d %s %s %s" % (T, h, hx(g), hx(k), dflt))
    # (the /etc FILE replaces the vendor file as a whole, its bare keys are bare keys of a single file)
    s.append("readdirs 8 %s %s %s %s x3d x23" % (hx(NV + "/b/usr/etc"), hx(NV + "/b/etc"), hx("cfg"), hx("conf")))
    for T in ITYPES + ["Float", "Double", "Bool"]:
        for g, k in nvkeys:
            s.append("get %s 8 %s %s" % (T, hx(g), hx(k)))
    s += ["free %d" % h for h in range(2, 9)]
    out = core.run_cases(exe, [("nv", s)], jobs=1)["nv"]
    if out["crash"]:
        nev = len(out["ev"])
        verdict.violation("C09:novalue:crash", {"kind": "script", "script": s, "crash": out["crash"]},
                          "typed getter on a key without value crashed (call #%d: %s)\n%s" % (nev, s[nev + 1] if nev + 1 < len(s) else "?", out["crash"][:700]))
    else:
        setup = [e for e in out["ev"] if e["op"] in ("readfile", "readdirs", "merge", "set")]
        if any(e["rc"] != "ECONF_SUCCESS" for e in setup):
            verdict.violation("C09:novalue:setup", {"kind": "script", "script": s, "failed": [e for e in setup if e["rc"] != "ECONF_SUCCESS"][:3]},
                              "the layered / merged configurations of the no-value scenarios could not be built: %s" % [e for e in setup if e["rc"] != "ECONF_SUCCESS"][:2])
        for e in out["ev"]:
            if e["op"] in ("get", "getdef"):
                events.append({"e": "novalue", "T": e["T"], "rc": e["rc"], "text": "handle %s key %s" % (e.get("h"), e.get("k"))})
    # booleans: random texts + exhaustive sweep
    btexts = ["", "1", "0", "yes", "Yes", "NO", "true", "FALSE", "tRuE", "on", "off", "2", "yess", " yes", "yes ", "p-", "g@lse", "no!", "01", "truefalse", "y", "n", "t", "f", "nope", "_none_",
              # the sentinel text in other letter cases and its neighbours: texts like any other (refused)
              "_NONE_", "_None_", "_nonE_", "_nOne_", "_none", "none_", "none", "NONE", "_none_x", "x_none_", "_none__", " _none_"]
    for _ in range(200 if tier == "quick" else 5000):
        btexts.append("".join(rnd.choice(ALPHA + "xyz01") for _ in range(rnd.randint(1, 9))))
    # the neighbourhood of the legal spellings: every one-character extension (in front, behind), every single
    # substitution and deletion, and concatenations, in three letter cases: "fails on every other text" beyond length 5
    printable = [chr(c) for c in range(0x20, 0x7f)]
    few = list("0 1_-;esEyYtTnN!")
    for w in ("1", "0", "yes", "no", "true", "false"):
        for cw in {w, w.upper(), w.capitalize(), w[:-1] + w[-1].upper()}:
            ext = printable if (tier == "thorough" or cw == w) else few
            for c in ext:
                btexts += [cw + c, c + cw]
            for c in few:
                btexts += [cw + c + c, cw + c + "x" * 3]
                for i in range(len(cw)):
                    btexts.append(cw[:i] + c + cw[i + 1:])
            for i in range(len(cw)):
                btexts.append(cw[:i] + cw[i + 1:])
            for w2 in ("1", "0", "yes", "no", "true", "false", "hood", "_positive", ";disabled"):
                btexts.append(cw + w2)
    btexts = [t for t in dict.fromkeys(btexts) if "\n" not in t]
    sc = ["newkf 1 x3d x23"]
    for t in btexts:
        sc += ["set String 1 - %s %s" % (hx("b"), hx(t)), "get Bool 1 - %s" % hx("b")]
    sc.append("free 1")
    out = core.run_cases(exe, [("bt", sc)], jobs=1)["bt"]
    if out["crash"]:
        verdict.violation("C09:bool:crash", {"kind": "script", "script": sc[:50], "crash": out["crash"]}, "boolean getter crashed\n" + out["crash"][:700])
    else:
        gets = [e for e in out["ev"] if e["op"] == "get"]
        for t, e in zip(btexts, gets):
            if t == "_none_":
                continue       # the implementation's sentinel text: outside every universe
            # (the driver's result variable holds the byte 2 before the call: a success that leaves it there delivered nothing)
            events.append({"e": "bool", "text": codes(t), "rc": e["rc"], "v": e["out"] == 1, "assigned": e["out"] in (0, 1)})
    maxlen = 3 if tier == "quick" else 4
    pl = core.build("plain")
    # split the sweep by alphabet? the driver enumerates everything; 29 symbols: 29^3 = 24k (quick), 29^4 = 707k (thorough)
    out = core.run_cases(pl, [("bs", ["boolsweep %s %d" % (hx(ALPHA), maxlen)])], jobs=1, per_case_timeout=600)["bs"]
    nsweep = 0
    if out["crash"]:
        verdict.violation("C09:bool:sweep:crash", {"kind": "script", "crash": out["crash"]}, "boolean sweep crashed\n" + out["crash"][:700])
    else:
        e = out["ev"][0]
        nsweep = e["count"]
        want_count = sum(len(ALPHA) ** k for k in range(maxlen + 1))
        events.append({"e": "boolsweep", "maxlen": maxlen, "alphabet": codes(ALPHA), "count_ok": e["count"] == want_count,
                       "accepted": [{"s": codes(a["s"]), "v": a["v"]} for a in e["accepted"]]})
    acc = validate(events, verdict, "C09", describe)
    fok, fn = check_floats(exe, rnd, 1500 if tier == "quick" else 100000, verdict)
    cov = {"states": r.distinct, "transitions": r.generated, "traces_validated_against_impl": n_fwd + acc,
           "evaluations": len(recs) * 8 + len(events) + fn + nsweep, "distinct_nontrivial": nn + sum(1 for l in lits if len(l[2]) >= 9),
           "rule": "MC_Typed: %d literals = sign {none,+,-} x base {8,10,16} x magnitudes {0, 1, 2^31+-3, 2^32+-3, 2^63+-3, 2^64+-3, 2^33..2^65}; each read by the 4 integer getters and their Def variants and compared with IntMeaning (digit-wise comparison with limits tied to the doubling relation). Trace_Typed: %d random literals of 1..25 digits x 8 getter calls, every integer getter on well-formed literals directly after a failing / overflowing call of another kind (state left behind must not matter), typed getters on keys without value (bare key, 'k=', in a section), %d boolean texts (random ones and the neighbourhood of the six words: every one-character extension in front and behind, substitutions, deletions, concatenations, in several letter cases), and the exhaustive boolean sweep over all %d strings of length <= %d over the alphabet %r (every letter of the six words in both cases, the djb2 neighbours p - g @, blank). Floating getters: %d decimal literals (long fractions, exponents, float32 midpoints) against exact rational arithmetic (python Fraction; binary64 by CPython's correctly rounded float()). non-trivial = within 3 of a limit of the queried type or outside its range; random literal with >= 9 digits." % (
               len(recs), len(lits), len(btexts), nsweep, maxlen, ALPHA, fn),
           "samples": [{"text": core.uncodes(recs[100]["text"]), "expect": recs[100]["exp"]}], "exhaustive": True,
           "float_literals_ok": fok, "trusted_base": ["TLC 1.8.0", "gcc ASan/UBSan", "drv.c", "CPython Fraction/float for the floating sub-claim"]}
    return cov, "model_checking"


# --------------------------------------------------------------------------------------
def boundary_values(T):
    w = 32 if T in ("Int", "UInt", "Float") else 64
    vs = set()
    for b in range(w):
        for d in (-1, 0, 1):
            vs.add(((1 << b) + d) % (1 << w))
            vs.add((-(1 << b) + d) % (1 << w))
    for p in range(0, 20):
        for d in (-1, 0, 1):
            for sgn in (1, -1):
                v = sgn * (10 ** p + d)
                if -(1 << (w - 1)) <= v < (1 << w):
                    vs.add(v % (1 << w))
    vs |= {0, (1 << w) - 1, (1 << (w - 1)) - 1, 1 << (w - 1)}
    if T == "Float":
        vs |= {0x7f800000, 0xff800000, 0x7fc00000, 0xffc00001, 0x00000001, 0x007fffff, 0x00800000, 0x7f7fffff, 0x80000000, 0x3f800001, 0x4b7fffff}
    if T == "Double":
        vs |= {0x7ff0000000000000, 0xfff0000000000000, 0x7ff8000000000000, 0x0000000000000001, 0x000fffffffffffff, 0x0010000000000000,
               0x7fefffffffffffff, 0x8000000000000000, 0x3ff0000000000001, 0x433fffffffffffff}
    return sorted(vs)


def check_c08(exe, tier, seed, verdict):
    rnd = random.Random(seed)
    cfg = "SPECIFICATION Spec\nCHECK_DEADLOCK FALSE\nINVARIANT RoundTrip\nINVARIANT NoWrap\nINVARIANT WellFormed\nCONSTRAINT ExportCase\nCONSTANTS Export = FALSE\n"
    r = core.tlc_ok("MC_Typed", write_cfg(cfg), workers=8, timeout=1200)
    if r.violated:
        verdict.violation("C08:model", {"tlc": r.out[-3000:]}, "TLC: RoundTrip violated in the model\n" + r.out[-1500:])
    pl = core.build("plain")
    cases = []
    expect = {}
    d = ROOT + "/rt"

    def add(cid, lines, cnt):
        # (a chunk of the exhaustive sweep runs for minutes: the driver's 20 s watchdog is for hangs of single calls)
        cases.append((cid, ["watchdog 2400", "mkdir %s" % hx(d)] + lines))
        expect[cid] = cnt
    for T in ("Int", "UInt", "Float"):
        if tier == "thorough":
            nchunk = 64
            span = (1 << 32) // nchunk
            for c in range(nchunk):
                add("%s-full-%d" % (T, c), ["sweep %s direct %x %x %s 1" % (T, c * span, (c + 1) * span - 1, hx(d))], span)
        else:
            step = 4099
            add("%s-stride" % T, ["sweep %s direct 0 ffffffff %s %d" % (T, hx(d), step)], (0xffffffff // step) + 1)
            for lo, hi in ((0, 0x2000), (0x7ffff000, 0x80001000), (0xffffe000, 0xffffffff)):
                add("%s-win-%x" % (T, lo), ["sweep %s direct %x %x %s 1" % (T, lo, hi, hx(d))], hi - lo + 1)
        add("%s-filewin" % T, ["sweep %s file %x %x %s 1" % (T, 0x7ffffc00, 0x80000400, hx(d))], 0x801)
    for T in ("Int", "UInt", "Float", "Int64", "UInt64", "Double"):
        bv = boundary_values(T)
        w = 32 if T in ("Int", "UInt", "Float") else 64
        rv = [rnd.getrandbits(w) for _ in range(20000 if tier == "quick" else 500000)]
        for j in range(0, len(bv), 1500):
            add("%s-bnd-%d" % (T, j), ["rtlist %s direct %s %s" % (T, hx(d), " ".join("%x" % v for v in bv[j:j + 1500]))], len(bv[j:j + 1500]))
            add("%s-bndf-%d" % (T, j), ["rtlist %s file %s %s" % (T, hx(d), " ".join("%x" % v for v in bv[j:j + 1500]))], len(bv[j:j + 1500]))
        for j in range(0, len(rv), 2000):
            add("%s-rnd-%d" % (T, j), ["rtlist %s direct %s %s" % (T, hx(d), " ".join("%x" % v for v in rv[j:j + 2000]))], len(rv[j:j + 2000]))
        fr = rv[:400 if tier == "quick" else 20000]
        for j in range(0, len(fr), 1000):
            add("%s-rndf-%d" % (T, j), ["rtlist %s file %s %s" % (T, hx(d), " ".join("%x" % v for v in fr[j:j + 1000]))], len(fr[j:j + 1000]))
        # ... and with the values spread over keys of three sections used alternately plus group-less keys (a setter must reach
        # the key it was called for wherever that key sits among the entries)
        mv = (bv[:150] + rv[:150]) if tier == "quick" else (bv[:1500] + rv[:1500])
        for j in range(0, len(mv), 300):
            add("%s-matrix-%d" % (T, j), ["rtmatrix %s direct %s %s" % (T, hx(d), " ".join("%x" % v for v in mv[j:j + 300]))], len(mv[j:j + 300]))
            add("%s-matrixf-%d" % (T, j), ["rtmatrix %s file %s %s" % (T, hx(d), " ".join("%x" % v for v in mv[j:j + 300]))], len(mv[j:j + 300]))
            # ... on an object that stems from a parsed file beginning with a section header (group-less keys are then created late)
            add("%s-pmatrix-%d" % (T, j), ["rtmatrix %s pdirect %s %s" % (T, hx(d), " ".join("%x" % v for v in mv[j:j + 300]))], len(mv[j:j + 300]))
            add("%s-pmatrixf-%d" % (T, j), ["rtmatrix %s pfile %s %s" % (T, hx(d), " ".join("%x" % v for v in mv[j:j + 300]))], len(mv[j:j + 300]))
            # ... and with every key set a second time (to a value whose decimal text is a prefix of the first one's) before reading
            add("%s-omatrix-%d" % (T, j), ["rtmatrix %s odirect %s %s" % (T, hx(d), " ".join("%x" % v for v in mv[j:j + 300]))], len(mv[j:j + 300]))
            add("%s-opmatrixf-%d" % (T, j), ["rtmatrix %s opfile %s %s" % (T, hx(d), " ".join("%x" % v for v in mv[j:j + 300]))], len(mv[j:j + 300]))
    # objects of other origins: parsed from a file without any key, made by econf_newKeyFile_with_options (direct only: it has
    # no delimiter tag to be written with), made by econf_newIniFile
    for T in ("Int", "Int64", "UInt", "UInt64", "Float", "Double", "Bool"):
        vals = [rnd.getrandbits(1) for _ in range(40)] if T == "Bool" else [rnd.getrandbits(64 if T in ("Int64", "UInt64", "Double") else 32) for _ in range(40)]
        if T in ("Float", "Double"):
            vals = [v for v in vals if (v >> (52 if T == "Double" else 23)) & (0x7ff if T == "Double" else 0xff) != (0x7ff if T == "Double" else 0xff)] or [0]
        for mode in ("edirect", "efile", "ndirect", "idirect", "ifile", "oedirect", "udirect", "ufile", "oudirect"):
            add("%s-%s" % (T, mode), ["rtmatrix %s %s %s %s" % (T, mode, hx(d), " ".join("%x" % v for v in vals))], len(vals))
    add("Bool-matrix", ["rtmatrix Bool direct %s %s" % (hx(d), " ".join("%x" % rnd.getrandbits(1) for _ in range(90)))], 90)
    add("Bool-omatrix", ["rtmatrix Bool odirect %s %s" % (hx(d), " ".join("%x" % rnd.getrandbits(1) for _ in range(90)))], 90)
    add("Bool-matrixf", ["rtmatrix Bool file %s %s" % (hx(d), " ".join("%x" % rnd.getrandbits(1) for _ in range(90)))], 90)
    if True:
        pass
    res = core.run_cases(pl, cases, per_case_timeout=3000)
    events = []
    total = 0
    for cid, _ in cases:
        out = res.get(cid)
        if out is None or out["crash"]:
            verdict.violation("C08:crash", {"kind": "sweep", "case": cid, "crash": (out or {}).get("crash")}, "typed round-trip sweep %s crashed\n%s" % (cid, (out or {}).get("crash", "")[:600]))
            continue
        e = [x for x in out["ev"] if x["op"] in ("sweep", "rtlist")][0]
        total += e["count"]
        events.append({"e": "sweep", "T": e["T"], "mode": e["mode"], "count": e["count"], "bad": e["bad"], "firstbad": e.get("firstbad", ""),
                       "count_ok": e["count"] == expect[cid], "case": cid})
    # boolean spellings: every case variant of the six words through setBool/getBool, directly and via file
    words = []
    for w in ("1", "0", "yes", "no", "true", "false"):
        vs = [""]
        for ch in w:
            vs = [v + c for v in vs for c in ({ch, ch.upper()})]
        words += vs
    sc = ["mkdir %s" % hx(d), "newkf 1 x3d x23"]
    for w in words:
        sc += ["set Bool 1 %s %s %s" % (hx("s"), hx("b"), hx(w)), "get Bool 1 %s %s" % (hx("s"), hx("b")),
               "write 1 %s %s" % (hx(d), hx("b.conf")), "readfile 2 %s x3d x23" % hx(d + "/b.conf"), "get Bool 2 %s %s" % (hx("s"), hx("b")), "free 2"]
    sc.append("free 1")
    out = core.run_cases(exe, [("bw", sc)], jobs=1)["bw"]
    nb = 0
    if out["crash"]:
        verdict.violation("C08:bool:crash", {"kind": "script", "crash": out["crash"]}, "boolean round trip crashed\n" + out["crash"][:600])
    else:
        gets = [e for e in out["ev"] if e["op"] == "get"]
        sets = [e for e in out["ev"] if e["op"] == "set"]
        for i, w in enumerate(words):
            truth = w.lower() in ("1", "yes", "true")
            g1, g2 = gets[2 * i], gets[2 * i + 1]
            if sets[i]["rc"] != "ECONF_SUCCESS" or g1["rc"] != "ECONF_SUCCESS" or g2["rc"] != "ECONF_SUCCESS" or (g1["out"] == 1) != truth or (g2["out"] == 1) != truth:
                verdict.violation("C08:bool:%s" % w.lower(), {"kind": "bool", "word": w, "got": [sets[i]["rc"], g1, g2]},
                                  "boolean spelling %r: set %s, get %s/%s, after write+read %s/%s" % (w, sets[i]["rc"], g1["rc"], g1["out"], g2["rc"], g2["out"]))
            else:
                nb += 1
    acc = validate(events, verdict, "C08", describe)
    exhaustive = tier == "thorough"
    cov = {"evaluations": total + len(words) * 2, "distinct_nontrivial": sum(len(boundary_values(T)) for T in ("Int", "UInt", "Float", "Int64", "UInt64", "Double")) + len(words),
           "rule": ("exhaustive sweep of all 2^32 values of int32, uint32 and float (set + get, compared bit for bit, NaN as NaN)" if exhaustive else "strided sweep (step 4099) of the 2^32 values of int32, uint32, float + dense windows around 0, 2^31 and 2^32-1") +
                   "; via econf_writeFile + econf_readFile for the window around 2^31 and for all boundary values; for all six numeric types: every single-bit value +-1, every power of ten +-1, the type limits, non-finite / subnormal / largest floats, and a pseudo-random sample; the same values spread over keys of three alternately used sections (names of 1, 2 and 5 characters, setter and getter each using the bare or the bracketed form in all four combinations) and group-less keys (rtmatrix: set all, then get all, directly and via file; on a fresh object, on one parsed from a file that begins with a section header, on one parsed from a file without any key, on one parsed from a file that defines keys twice, on one made by econf_newKeyFile_with_options and on one made by econf_newIniFile; and with every key set a SECOND time - to v/100 resp. the integral part, whose decimal text is a prefix of the first value's - before the reading round); all %d case variants of the boolean words through setBool/getBool directly and via file. Summary events (type, mode, count, mismatches) validated by Trace_Typed (bad = 0, count as requested). non-trivial = boundary / single-bit / power-of-ten neighbour / special float / mixed-case spelling." % len(words),
           "samples": [events[0], events[-1]] if events else [], "exhaustive": exhaustive, "values_round_tripped": total, "boolean_spellings_ok": nb,
           "states": r.distinct, "trusted_base": ["gcc -O2 build of the driver for the sweeps", "TLC 1.8.0 (summary events, model lemma RoundTrip)"]}
    return cov, "exploration"


def check(pid, tier, seed):
    t0 = time.time()
    exe = core.build("asan")
    verdict = core.Verdict(pid)
    cov, level = (check_c09 if pid == "C09" else check_c08)(exe, tier, seed, verdict)
    rc = verdict.finish()
    core.write_evidence(pid, tier, seed, level, cov,
                        ["numeric fidelity itself is observed by the driver, not decided by TLA+ (DESIGN.md section 9)",
                         "the sentinel text _none_ is outside every universe"], time.time() - t0, len(verdict.violations))
    return rc


def replay(pid, path):
    with open(path) as f:
        rec = json.load(f)
    print(json.dumps(rec, indent=1)[:4000])
    return 0
